#!/usr/bin/env python3
"""Fail-closed translator: /repo's numeric kernels (norm.py, hedge.py, term.py) -> Gallina over `Num`.

Every accepted construct is listed explicitly; anything else raises TranslationError, which the
check reports as the broken obligation `translation:<file>:<class>.<function>`.

Typing of values (needed because NumPy/libm round `** 2` differently depending on the operand kind):
  'py'   Python float (self.<attr>, literals, arithmetic on those)
  'arr0' the variable rebound by `x = scalar(x)`: an ndarray even for float input
  'npf'  result of NumPy arithmetic: numpy.float64 in scalar mode, ndarray in batch mode
  'bool' result of comparisons and & | ~
"""
from __future__ import annotations

import ast
import hashlib
import os
import sys

REPO = os.environ.get("VERIF_REPO", "/repo")


class TranslationError(Exception):
    def __init__(self, where: str, msg: str):
        super().__init__(f"{where}: {msg}")
        self.where = where
        self.msg = msg


KEYWORDS = {"end", "at", "in", "as", "fun", "let", "if", "then", "else", "match", "with", "return", "left", "right"}


def coq_lit(v: float | int) -> str:
    if isinstance(v, bool):
        raise ValueError("bool literal")
    f = float(v)
    if f != f or f in (float("inf"), float("-inf")):
        raise ValueError("non-finite literal")
    num, den = f.as_integer_ratio()
    k = den.bit_length() - 1
    assert den == 1 << k
    # normalise so that integers stay integers
    m = f"({num})" if num < 0 else f"{num}"
    e = f"(-{k})" if k else "0"
    return f"(lit {m} {e})"


class FnTranslator:
    """Translates one method body into a Gallina term."""

    def __init__(self, where: str, self_params: dict[str, str], arg: str | None, signatures: dict[str, list[tuple[str, object]]]):
        self.where = where
        self.self_params = self_params  # attr -> coq name
        self.env: dict[str, tuple[str, str]] = {}  # python local -> (coq name, kind)
        self.signatures = signatures
        self.used_calls: list[str] = []
        self.resolver = None  # (kind, name) -> ast.FunctionDef of a private helper that may be inlined
        self.depth = 0
        self.ret_kind = "npf"
        if arg:
            self.env[arg] = (f"v_{arg}", "raw")

    def err(self, node: ast.AST, msg: str) -> TranslationError:
        return TranslationError(self.where, f"line {getattr(node, 'lineno', '?')}: {msg}: {ast.unparse(node)[:80]}")

    # ---- expressions: returns (coq_text, kind)
    def expr(self, n: ast.AST) -> tuple[str, str]:
        if isinstance(n, ast.Constant):
            if isinstance(n.value, bool) or not isinstance(n.value, (int, float)):
                raise self.err(n, "unsupported constant")
            return coq_lit(n.value), "py"
        if isinstance(n, ast.Name):
            if n.id in self.env:
                name, kind = self.env[n.id]
                if kind == "termobj":
                    raise self.err(n, "helper term used as a value")
                return name, ("npf" if kind == "raw" else kind)
            if n.id == "nan":
                return "nan", "py"
            if n.id == "inf":
                return "pinf", "py"
            raise self.err(n, "unknown name")
        if isinstance(n, ast.Attribute):
            if isinstance(n.value, ast.Name) and n.value.id == "self":
                if n.attr not in self.self_params:
                    raise self.err(n, "unknown attribute of self")
                return self.self_params[n.attr], "py"
            if isinstance(n.value, ast.Name) and n.value.id == "np":
                if n.attr == "nan":
                    return "nan", "py"
                if n.attr == "pi":
                    return "npi", "py"
                if n.attr == "inf":
                    return "pinf", "py"
            raise self.err(n, "unsupported attribute")
        if isinstance(n, ast.UnaryOp):
            a, k = self.expr(n.operand)
            if isinstance(n.op, ast.USub):
                if k == "bool":
                    raise self.err(n, "negation of bool")
                if isinstance(n.operand, ast.Constant):
                    return coq_lit(-n.operand.value), "py"
                return f"(neg {a})", k
            if isinstance(n.op, ast.Invert):
                if k != "bool":
                    raise self.err(n, "~ on non-bool")
                return f"(negb {a})", "bool"
            raise self.err(n, "unsupported unary operator")
        if isinstance(n, ast.BinOp):
            if isinstance(n.op, ast.Pow):
                base, kb = self.expr(n.left)
                if not (isinstance(n.right, ast.Constant) and n.right.value == 2 and isinstance(n.right.value, int)):
                    raise self.err(n, "only `** 2` is supported")
                if kb == "arr0":
                    return f"(square {base})", "npf"
                if kb == "npf":
                    return f"(spow2 {base})", "npf"
                if kb == "py":
                    return f"(pypow2 {base})", "py"
                raise self.err(n, "power of bool")
            a, ka = self.expr(n.left)
            b, kb = self.expr(n.right)
            if isinstance(n.op, (ast.BitAnd, ast.BitOr)):
                if ka != "bool" or kb != "bool":
                    raise self.err(n, "& | on non-bool")
                return f"({'andb' if isinstance(n.op, ast.BitAnd) else 'orb'} {a} {b})", "bool"
            ops = {ast.Add: "add", ast.Sub: "sub", ast.Mult: "mul", ast.Div: "div"}
            for t, name in ops.items():
                if isinstance(n.op, t):
                    if ka == "bool" and kb == "bool":
                        raise self.err(n, "arithmetic on two bools")
                    if ka == "bool":
                        if name != "mul":
                            raise self.err(n, "bool operand outside a product")
                        a = f"(b2f {a})"
                        ka = "npf"
                    if kb == "bool":
                        if name != "mul":
                            raise self.err(n, "bool operand outside a product")
                        b = f"(b2f {b})"
                        kb = "npf"
                    kind = "py" if (ka == "py" and kb == "py") else "npf"
                    return f"({name} {a} {b})", kind
            raise self.err(n, "unsupported binary operator")
        if isinstance(n, ast.Compare):
            if len(n.ops) != 1:
                raise self.err(n, "chained comparison")
            op = n.ops[0]
            # comparisons with the infinities are predicates (they have no meaning as real numbers)
            if isinstance(op, ast.Eq):
                for x, y in ((n.left, n.comparators[0]), (n.comparators[0], n.left)):
                    if isinstance(y, ast.Name) and y.id == "inf":
                        t, k = self.expr(x)
                        if k == "bool":
                            raise self.err(n, "bool == inf")
                        return f"(isposinf {t})", "bool"
                    if isinstance(y, ast.UnaryOp) and isinstance(y.op, ast.USub) and isinstance(y.operand, ast.Name) and y.operand.id == "inf":
                        t, k = self.expr(x)
                        if k == "bool":
                            raise self.err(n, "bool == -inf")
                        return f"(isneginf {t})", "bool"
            a, ka = self.expr(n.left)
            b, kb = self.expr(n.comparators[0])
            if ka == "bool" and kb == "bool":
                if isinstance(op, ast.Eq):
                    return f"(Bool.eqb {a} {b})", "bool"
                raise self.err(n, "comparison of bools other than ==")
            if ka == "bool" or kb == "bool":
                raise self.err(n, "comparison bool/float")
            table = {ast.Lt: "ltb", ast.LtE: "leb", ast.Gt: "gtb", ast.GtE: "geb", ast.Eq: "eqb", ast.NotEq: "neqb"}
            for t, name in table.items():
                if isinstance(op, t):
                    return f"({name} {a} {b})", "bool"
            raise self.err(n, "unsupported comparison")
        if isinstance(n, ast.IfExp):
            c, kc = self.expr(n.test)
            a, ka = self.expr(n.body)
            b, kb = self.expr(n.orelse)
            if kc != "bool" or "bool" in (ka, kb):
                raise self.err(n, "unsupported conditional expression")
            return f"(if {c} then {a} else {b})", ("py" if ka == kb == "py" else "npf")
        if isinstance(n, ast.Call):
            return self.call(n)
        raise self.err(n, "unsupported expression")

    def as_float(self, n: ast.AST) -> str:
        t, k = self.expr(n)
        return f"(b2f {t})" if k == "bool" else t

    def call(self, n: ast.Call) -> tuple[str, str]:
        f = n.func
        # builtins
        if isinstance(f, ast.Name) and f.id in ("min", "max", "abs") and not n.keywords:
            args = [self.expr(a) for a in n.args]
            if any(k == "bool" for _, k in args):
                raise self.err(n, "bool argument")
            kind = "py" if all(k == "py" for _, k in args) else "npf"
            if f.id == "abs" and len(args) == 1:
                return f"(nabs {args[0][0]})", kind
            if f.id in ("min", "max") and len(args) == 2:
                return f"(py{f.id} {args[0][0]} {args[1][0]})", kind
            raise self.err(n, "unsupported builtin arity")
        # numpy functions
        if isinstance(f, ast.Attribute) and isinstance(f.value, ast.Name) and f.value.id == "np":
            name = f.attr
            unary = {"abs": "nabs", "absolute": "nabs", "sqrt": "nsqrt", "square": "square", "exp": "fexp", "log": "flog", "cos": "fcos"}
            if name in unary and len(n.args) == 1 and not n.keywords:
                a, k = self.expr(n.args[0])
                if k == "bool":
                    raise self.err(n, "bool argument")
                return f"({unary[name]} {a})", "npf"
            if name in ("isnan", "isfinite") and len(n.args) == 1 and not n.keywords:
                a, k = self.expr(n.args[0])
                if k == "bool":
                    raise self.err(n, "bool argument")
                return f"({name} {a})", "bool"
            if name in ("minimum", "maximum", "power") and len(n.args) == 2 and not n.keywords:
                a, ka = self.expr(n.args[0])
                b, kb = self.expr(n.args[1])
                if "bool" in (ka, kb):
                    raise self.err(n, "bool argument")
                cn = {"minimum": "nmin", "maximum": "nmax", "power": "fpow"}[name]
                return f"({cn} {a} {b})", "npf"
            if name == "where" and len(n.args) == 3 and not n.keywords:
                c, kc = self.expr(n.args[0])
                if kc != "bool":
                    raise self.err(n, "np.where condition is not boolean")
                a = self.as_float(n.args[1])
                b = self.as_float(n.args[2])
                return f"(where_ {c} {a} {b})", "npf"
            if name == "full_like":
                # np.full_like(x, v) / np.full_like(x, fill_value=v): the constant v, shaped like x
                if len(n.args) == 2 and not n.keywords:
                    v = n.args[1]
                elif len(n.args) == 1 and len(n.keywords) == 1 and n.keywords[0].arg == "fill_value":
                    v = n.keywords[0].value
                else:
                    raise self.err(n, "unsupported full_like form")
                a, k = self.expr(v)
                if k == "bool":
                    raise self.err(n, "bool fill value")
                return a, "npf"
            raise self.err(n, "unsupported numpy function")
        # helper-term call:  Cls(kw=..., ...).membership(x)   or   t = Cls(kw=...); ... t.membership(x)
        if isinstance(f, ast.Attribute) and f.attr == "membership" and len(n.args) == 1 and not n.keywords:
            obj = None
            if isinstance(f.value, ast.Call) and isinstance(f.value.func, ast.Name) and f.value.func.id in self.signatures:
                obj = self.helper_term(f.value)
            elif isinstance(f.value, ast.Name) and self.env.get(f.value.id, ("", ""))[1] == "termobj":
                obj = self.env[f.value.id][0]
            if obj is not None:
                x, k = self.expr(n.args[0])
                if k == "bool":
                    raise self.err(n, "bool argument")
                return f"({obj} {x})", "npf"
        inl = self.inline_helper(n)
        if inl is not None:
            return inl
        raise self.err(n, "unsupported call")

    def helper_term(self, c: ast.Call) -> str:
        """`Cls(kw=..., ...)` for a translated term class: the partial application `Cls_membership p1 … pn`."""
        cls = c.func.id
        if c.args:
            raise self.err(c, "positional constructor arguments in helper term")
        given = {}
        for kw in c.keywords:
            if kw.arg is None:
                raise self.err(c, "**kwargs")
            t, k = self.expr(kw.value)
            if k == "bool":
                raise self.err(c, "bool parameter")
            given[kw.arg] = t
        actual = []
        for pname, default in self.signatures[cls]:
            if pname in given:
                actual.append(given.pop(pname))
            elif isinstance(default, float) and default != default:
                actual.append("nan")
            elif isinstance(default, (int, float)):
                actual.append(coq_lit(default))
            else:
                raise self.err(c, f"no usable default for {pname}")
        if given:
            raise self.err(c, f"unknown constructor keywords {sorted(given)}")
        self.used_calls.append(cls)
        return f"{cls}_membership {' '.join(actual)}"

    def inline_helper(self, n: ast.Call) -> tuple[str, str] | None:
        """`self._h(args)`, `Cls._h(args)` or `_h(args)` where `_h` is a small pure helper of the same module whose body is in
        the translated subset: the call is replaced by the helper's body with its parameters let-bound to the arguments."""
        f = n.func
        if self.resolver is None or n.keywords or self.depth >= 3:
            return None
        if isinstance(f, ast.Attribute) and isinstance(f.value, ast.Name):
            fn = self.resolver(f.value.id, f.attr)
        elif isinstance(f, ast.Name):
            fn = self.resolver(None, f.id)
        else:
            return None
        if fn is None:
            return None
        a = fn.args
        if a.vararg or a.kwarg or a.kwonlyargs or a.posonlyargs or a.defaults:
            raise self.err(n, "helper with defaults/varargs")
        static = any(isinstance(d, ast.Name) and d.id == "staticmethod" for d in fn.decorator_list)
        if any(not (isinstance(d, ast.Name) and d.id == "staticmethod") for d in fn.decorator_list):
            raise self.err(n, "decorated helper")
        params = [x.arg for x in a.args]
        is_method = isinstance(f, ast.Attribute)
        if is_method and not static:
            if not (f.value.id == "self" and params and params[0] == "self"):
                raise self.err(n, "helper called on something other than self")
            params = params[1:]
        if len(params) != len(n.args):
            raise self.err(n, "helper arity")
        sub = FnTranslator(f"{self.where}/{fn.name}", self.self_params if (is_method and not static) else {}, None, self.signatures)
        sub.resolver = self.resolver
        sub.depth = self.depth + 1
        binds = []
        for prm, arg in zip(params, n.args):
            t, k = self.expr(arg)
            cname = f"h{sub.depth}_{prm}"
            binds.append(f"let {cname} := {t} in")
            sub.env[prm] = (cname, k)
        body = sub.body(fn.body)
        self.used_calls.extend(sub.used_calls)
        return "(" + " ".join(binds) + " " + body.replace("\n    ", " ") + ")", sub.ret_kind

    # ---- statements
    def body(self, stmts: list[ast.stmt]) -> str:
        lets: list[str] = []
        for i, s in enumerate(stmts):
            if isinstance(s, ast.Expr) and isinstance(s.value, ast.Constant) and isinstance(s.value.value, str):
                continue  # docstring
            if isinstance(s, ast.Assign) and len(s.targets) == 1 and isinstance(s.targets[0], ast.Name):
                tgt = s.targets[0].id
                v = s.value
                # x = scalar(x)
                if (
                    isinstance(v, ast.Call)
                    and isinstance(v.func, ast.Name)
                    and v.func.id == "scalar"
                    and len(v.args) == 1
                    and isinstance(v.args[0], ast.Name)
                    and v.args[0].id == tgt
                    and tgt in self.env
                    and not v.keywords
                ):
                    self.env[tgt] = (self.env[tgt][0], "arr0")
                    continue
                if isinstance(v, ast.Call) and isinstance(v.func, ast.Name) and v.func.id in self.signatures:
                    self.env[tgt] = (self.helper_term(v), "termobj")  # a local helper term: only `.membership(x)` may use it
                    continue
                t, k = self.expr(v)
                # a rebinding gets a fresh Coq name so that `let` shadowing never changes meaning
                base = f"v_{tgt}"
                name = base
                j = 1
                used = {c for c, _ in self.env.values()}
                while name in used:
                    j += 1
                    name = f"{base}{j}"
                lets.append(f"let {name} := {t} in")
                self.env[tgt] = (name, k)
                continue
            if isinstance(s, ast.AnnAssign) and isinstance(s.target, ast.Name) and s.value is not None:
                t, k = self.expr(s.value)
                name = f"v_{s.target.id}"
                lets.append(f"let {name} := {t} in")
                self.env[s.target.id] = (name, k)
                continue
            if isinstance(s, ast.Return) and s.value is not None:
                if i != len(stmts) - 1:
                    raise self.err(s, "return before the end")
                t, k = self.expr(s.value)
                if k == "bool":
                    t = f"(b2f {t})"
                    k = "npf"
                self.ret_kind = k
                return "\n    ".join(lets + [t])
            raise self.err(s, "unsupported statement")
        raise TranslationError(self.where, "no return")


def make_resolver(tree: ast.Module, cls: ast.ClassDef):
    """Looks up private helpers (`_name`, not dunder) for FnTranslator.inline_helper: methods of the class or of its bases
    defined in the same module (`self._h`, `Cls._h`), or module-level functions (`_h`)."""
    classes = {n.name: n for n in tree.body if isinstance(n, ast.ClassDef)}
    funcs = {n.name: n for n in tree.body if isinstance(n, ast.FunctionDef)}

    def in_class(c: ast.ClassDef, name: str, seen=()):
        for s in c.body:
            if isinstance(s, ast.FunctionDef) and s.name == name:
                return s
        for b in c.bases:
            if isinstance(b, ast.Name) and b.id in classes and b.id not in seen:
                r = in_class(classes[b.id], name, seen + (c.name,))
                if r is not None:
                    return r
        return None

    def resolve(owner: str | None, name: str):
        if not name.startswith("_") or name.startswith("__"):
            return None
        if owner is None:
            return funcs.get(name)
        if owner == "self":
            return in_class(cls, name)
        if owner in classes:
            return in_class(classes[owner], name)
        return None

    return resolve


def init_signature(cls: ast.ClassDef, where: str) -> list[tuple[str, object]] | None:
    """Parameters of __init__ after `self` and `name`, with their defaults (floats only)."""
    for s in cls.body:
        if isinstance(s, ast.FunctionDef) and s.name == "__init__":
            args = s.args.args[1:]
            defaults = [None] * (len(args) - len(s.args.defaults)) + list(s.args.defaults)
            out = []
            for a, d in zip(args, defaults):
                if a.arg == "name":
                    continue
                val: object = None
                if isinstance(d, ast.Constant) and isinstance(d.value, (int, float)) and not isinstance(d.value, bool):
                    val = float(d.value)
                elif isinstance(d, ast.Name) and d.id == "nan":
                    val = float("nan")
                else:
                    val = ("unsupported", ast.unparse(d) if d is not None else None)
                out.append((a.arg, val))
            return out
    return None


def pname(attr: str) -> str:
    return f"p_{attr}"


def find_method(cls: ast.ClassDef, name: str) -> ast.FunctionDef | None:
    for s in cls.body:
        if isinstance(s, ast.FunctionDef) and s.name == name:
            return s
    return None


HEADER = """(* GENERATED by tools/translate.py from {src} (sha256 {sha}) — do not edit. *)
From Coq Require Import ZArith Bool.
From VF Require Import Num.
Set Implicit Arguments.

"""


def class_bases(cls: ast.ClassDef) -> list[str]:
    return [b.id for b in cls.bases if isinstance(b, ast.Name)]


def enum_block(tyname: str, prefix: str, names: list[str], method: str, fn: str, arity: int, display=lambda n: n) -> str:
    """An enumeration of the translated classes with its dispatch function and display names."""
    if not names:
        return ""
    args = " ".join("ab"[i] for i in range(arity)) if arity == 2 else "x"
    out = [f"Inductive {tyname} : Set := " + " | ".join(f"{prefix}{n}" for n in names) + ".\n"]
    out.append(f"Definition {fn} {{T : Type}} {{N : Num T}} (n : {tyname}) ({args} : T) : T :=\n  match n with\n")
    for n in names:
        out.append(f"  | {prefix}{n} => {n}_{method} {args}\n")
    out.append("  end.\n")
    out.append(f"Definition {tyname}_name (n : {tyname}) : string :=\n  match n with\n")
    for n in names:
        out.append(f'  | {prefix}{n} => "{display(n)}"\n')
    out.append("  end.\n")
    out.append(f"Definition all_{tyname}s : list {tyname} := [" + "; ".join(f"{prefix}{n}" for n in names) + "].\n\n")
    return "".join(out)


STRING_HEADER = "Require Import Coq.Strings.String Coq.Lists.List.\nImport ListNotations.\nOpen Scope string_scope.\n\n"


def translate_simple(path: str, method: str, skip: set[str], base_names: set[str]) -> tuple[str, list[str], list[TranslationError]]:
    """norm.py / hedge.py: classes with a parameterless kernel `method(self, a, b)` / `(self, x)`."""
    src = open(path).read()
    tree = ast.parse(src)
    out = [HEADER.format(src=os.path.relpath(path, REPO), sha=hashlib.sha256(src.encode()).hexdigest()[:16])]
    names: list[str] = []
    bases: dict[str, list[str]] = {}
    errors: list[TranslationError] = []
    for cls in [n for n in tree.body if isinstance(n, ast.ClassDef)]:
        if cls.name in skip or cls.name in base_names:
            continue
        m = find_method(cls, method)
        if m is None:
            continue
        where = f"{os.path.basename(path)}:{cls.name}.{method}"
        try:
            params = [a.arg for a in m.args.args[1:]]
            tr = FnTranslator(where, {}, None, {})
            tr.resolver = make_resolver(tree, cls)
            for p in params:
                tr.env[p] = (f"v_{p}", "raw")
            body = tr.body(m.body)
            plist = " ".join(f"v_{p}" for p in params)
            out.append(f"Definition {cls.name}_{method} {{T : Type}} {{N : Num T}} ({plist} : T) : T :=\n    {body}.\n\n")
            names.append(cls.name)
            bases[cls.name] = class_bases(cls)
        except TranslationError as e:
            errors.append(e)
    out.append(STRING_HEADER)
    if method == "compute":
        out.append(enum_block("tnorm", "T_", [n for n in names if "TNorm" in bases[n]], method, "tnorm_compute", 2))
        out.append(enum_block("snorm", "S_", [n for n in names if "SNorm" in bases[n]], method, "snorm_compute", 2))
    else:
        out.append(enum_block("hedge", "H_", names, method, "hedge_apply", 1, display=lambda n: n.lower()))
    return "".join(out), names, errors


def translate_terms(path: str) -> tuple[str, dict, list[TranslationError]]:
    src = open(path).read()
    tree = ast.parse(src)
    classes = {n.name: n for n in tree.body if isinstance(n, ast.ClassDef)}
    skip = {"Term", "Activated", "Aggregated", "Discrete", "Linear", "Function"}
    sigs: dict[str, list[tuple[str, object]]] = {}
    for name, cls in classes.items():
        if name in skip:
            continue
        sig = init_signature(cls, name)
        if sig is not None:
            sigs[name] = sig
    out = [HEADER.format(src=os.path.relpath(path, REPO), sha=hashlib.sha256(src.encode()).hexdigest()[:16])]
    errors: list[TranslationError] = []
    info: dict = {}
    defs: dict[str, tuple[str, list[str]]] = {}  # name -> (text, deps)
    for name, cls in classes.items():
        if name in skip or name not in sigs:
            continue
        sig = sigs[name]
        self_params = {p: pname(p) for p, _ in sig}
        if not any(p == "height" for p, _ in sig):
            # Constant: height is fixed by Term.__init__
            pass
        entry = {"params": [p for p, _ in sig], "monotonic": False, "tsukamoto": False, "membership": False}
        plist = " ".join(pname(p) for p, _ in sig)
        for method, arg in (("membership", "x"), ("tsukamoto", "y")):
            m = find_method(cls, method)
            if m is None:
                continue
            where = f"term.py:{name}.{method}"
            try:
                margs = [a.arg for a in m.args.args[1:]]
                if margs != [arg]:
                    raise TranslationError(where, f"unexpected arguments {margs}")
                tr = FnTranslator(where, self_params, arg, sigs)
                tr.resolver = make_resolver(tree, cls)
                body = tr.body(m.body)
                text = f"Definition {name}_{method} {{T : Type}} {{N : Num T}} ({plist} : T) (v_{arg} : T) : T :=\n    {body}.\n\n"
                defs[f"{name}_{method}"] = (text, [f"{c}_membership" for c in tr.used_calls])
                entry[method] = True
            except TranslationError as e:
                errors.append(e)
        mono = find_method(cls, "is_monotonic")
        if mono is not None:
            body = [s for s in mono.body if not (isinstance(s, ast.Expr) and isinstance(s.value, ast.Constant))]
            if len(body) == 1 and isinstance(body[0], ast.Return) and isinstance(body[0].value, ast.Constant) and isinstance(body[0].value.value, bool):
                entry["monotonic"] = body[0].value.value
            else:
                errors.append(TranslationError(f"term.py:{name}.is_monotonic", "not a constant"))
        # arity used by configure: self._parse(n, parameters[, height=False])
        cfg = find_method(cls, "configure")
        arity = None
        has_height = True
        if cfg is not None:
            for node in ast.walk(cfg):
                if isinstance(node, ast.Call) and isinstance(node.func, ast.Attribute) and node.func.attr == "_parse":
                    if node.args and isinstance(node.args[0], ast.Constant):
                        arity = node.args[0].value
                    for kw in node.keywords:
                        if kw.arg == "height" and isinstance(kw.value, ast.Constant):
                            has_height = bool(kw.value.value)
        entry["arity"] = arity
        entry["parse_height"] = has_height
        info[name] = entry
    # emit in dependency order
    emitted: set[str] = set()

    def emit(n: str, stack: tuple[str, ...] = ()) -> None:
        if n in emitted or n not in defs:
            return
        if n in stack:
            raise TranslationError("term.py", f"recursive helper-term calls: {stack}")
        for d in defs[n][1]:
            emit(d, stack + (n,))
        out.append(defs[n][0])
        emitted.add(n)

    for n in list(defs):
        try:
            emit(n)
        except TranslationError as e:
            errors.append(e)
    # the sum type of shape terms with its dispatchers
    out.append(STRING_HEADER)
    shapes = [n for n, e in info.items() if e["membership"]]
    out.append("Inductive shape (T : Type) : Type :=\n")
    for n in shapes:
        ps = " ".join(pname(p) for p in info[n]["params"])
        out.append(f"  | Sh_{n} ({ps} : T)\n")
    out.append(".\n")
    for n in shapes:
        out.append(f"Arguments Sh_{n} {{T}}.\n")

    def pats(n):
        return " ".join(pname(p) for p in info[n]["params"])

    out.append("Definition shape_membership {T : Type} {N : Num T} (s : shape T) (x : T) : T :=\n  match s with\n")
    for n in shapes:
        out.append(f"  | Sh_{n} {pats(n)} => {n}_membership {pats(n)} x\n")
    out.append("  end.\n")
    out.append("(* None: the class inherits Term.tsukamoto, which raises *)\nDefinition shape_tsukamoto {T : Type} {N : Num T} (s : shape T) : option (T -> T) :=\n  match s with\n")
    for n in shapes:
        if info[n]["tsukamoto"]:
            out.append(f"  | Sh_{n} {pats(n)} => Some ({n}_tsukamoto {pats(n)})\n")
        else:
            out.append(f"  | Sh_{n} {pats(n)} => None\n")
    out.append("  end.\n")
    out.append("Definition shape_monotonic {T : Type} (s : shape T) : bool :=\n  match s with\n")
    for n in shapes:
        out.append(f"  | Sh_{n} {pats(n)} => {str(info[n]['monotonic']).lower()}\n")
    out.append("  end.\n")
    out.append("Definition shape_class {T : Type} (s : shape T) : string :=\n  match s with\n")
    for n in shapes:
        out.append(f'  | Sh_{n} {pats(n)} => "{n}"\n')
    out.append("  end.\n")
    out.append("(* constructor parameters in __init__ order (after the name) *)\nDefinition shape_args {T : Type} (s : shape T) : list T :=\n  match s with\n")
    for n in shapes:
        out.append(f"  | Sh_{n} {pats(n)} => [{'; '.join(pname(p) for p in info[n]['params'])}]\n")
    out.append("  end.\n")
    out.append("Definition shape_height {T : Type} {N : Num T} (s : shape T) : T :=\n  match s with\n")
    for n in shapes:
        out.append(f"  | Sh_{n} {pats(n)} => {'p_height' if 'height' in info[n]['params'] else 'lit 1 0'}\n")
    out.append("  end.\n")
    out.append("(* build a shape from its class name and the __init__-order parameter list *)\nDefinition shape_make {T : Type} (cls : string) (ps : list T) : option (shape T) :=\n")
    first = True
    for n in shapes:
        k = len(info[n]["params"])
        vs = [f"a{i}" for i in range(k)]
        out.append(f'  {"" if first else "else "}if String.eqb cls "{n}" then match ps with [{"; ".join(vs)}] => Some (Sh_{n} {" ".join(vs)}) | _ => None end\n')
        first = False
    out.append("  else None.\n\n")
    # tables
    out.append("(* term table: name, number of shape parameters expected by configure, parses a height, declares monotonic, has a tsukamoto override *)\n")
    rows = []
    for name, e in info.items():
        rows.append(
            f'  ("{name}", {e["arity"] if e["arity"] is not None else 0}%nat, {str(e["parse_height"]).lower()}, {str(e["monotonic"]).lower()}, {str(e["tsukamoto"]).lower()})'
        )
    out.append("Definition term_table : list (string * nat * bool * bool * bool) := [\n" + ";\n".join(rows) + "\n].\n")
    return "".join(out), info, errors


def translate_optable(path: str) -> tuple[str, list[TranslationError]]:
    """FunctionFactory._create_operators / _create_functions -> a table of
    (name, is_function, method, arity, precedence, associativity)."""
    src = open(path).read()
    tree = ast.parse(src)
    errors: list[TranslationError] = []
    out = [HEADER.format(src=os.path.relpath(path, REPO), sha=hashlib.sha256(src.encode()).hexdigest()[:16]), STRING_HEADER]
    ff = next((n for n in tree.body if isinstance(n, ast.ClassDef) and n.name == "FunctionFactory"), None)
    if ff is None:
        return "", [TranslationError("factory.py:FunctionFactory", "class not found")]
    # _precedence(importance): straight-line integer arithmetic over the parameter, local constants and literals
    prec = find_method(ff, "_precedence")

    def int_eval(n: ast.AST, env: dict[str, int]) -> int:
        if isinstance(n, ast.Constant) and isinstance(n.value, int) and not isinstance(n.value, bool):
            return n.value
        if isinstance(n, ast.Name) and n.id in env:
            return env[n.id]
        if isinstance(n, ast.UnaryOp) and isinstance(n.op, ast.USub):
            return -int_eval(n.operand, env)
        if isinstance(n, ast.BinOp) and isinstance(n.op, (ast.Add, ast.Sub, ast.Mult)):
            a, b = int_eval(n.left, env), int_eval(n.right, env)
            return a + b if isinstance(n.op, ast.Add) else a - b if isinstance(n.op, ast.Sub) else a * b
        raise ValueError(ast.unparse(n))

    def prec_fn(k: int) -> int:
        env = {prec.args.args[1].arg: k}
        for st in prec.body:
            if isinstance(st, ast.Expr) and isinstance(st.value, ast.Constant) and isinstance(st.value.value, str):
                continue
            if isinstance(st, ast.Assign) and len(st.targets) == 1 and isinstance(st.targets[0], ast.Name):
                env[st.targets[0].id] = int_eval(st.value, env)
            elif isinstance(st, ast.AnnAssign) and isinstance(st.target, ast.Name) and st.value is not None:
                env[st.target.id] = int_eval(st.value, env)
            elif isinstance(st, ast.Return) and st.value is not None:
                return int_eval(st.value, env)
            else:
                raise ValueError(ast.unparse(st))
        raise ValueError("no return")

    try:
        prec_fn(0)
    except Exception as e:
        return "", [TranslationError("factory.py:FunctionFactory._precedence", f"unexpected form: {e}")]
    # Rule.AND / Rule.OR keyword strings from rule.py
    rule_keywords = {}
    rtree = ast.parse(open(os.path.join(os.path.dirname(path), "rule.py")).read())
    for n in rtree.body:
        if isinstance(n, ast.ClassDef) and n.name == "Rule":
            for st in n.body:
                if isinstance(st, ast.Assign) and isinstance(st.targets[0], ast.Name) and isinstance(st.value, ast.Constant) and isinstance(st.value.value, str):
                    rule_keywords[st.targets[0].id] = st.value.value
    rows = []
    for mname, is_fun in (("_create_operators", False), ("_create_functions", True)):
        m = find_method(ff, mname)
        where = f"factory.py:FunctionFactory.{mname}"
        if m is None:
            errors.append(TranslationError(where, "method not found"))
            continue
        lists = [st.value for st in m.body if isinstance(st, ast.Assign) and isinstance(st.value, ast.List)]
        if len(lists) != 1:
            errors.append(TranslationError(where, "expected exactly one list literal"))
            continue
        for el in lists[0].elts:
            try:
                if not (isinstance(el, ast.Call) and ast.unparse(el.func) == "Function.Element"):
                    raise ValueError("not a Function.Element(...) call")
                a0 = el.args[0]
                if isinstance(a0, ast.Constant):
                    name = a0.value
                elif ast.unparse(a0) in ("Rule.AND", "Rule.OR"):
                    name = rule_keywords[a0.attr]
                else:
                    raise ValueError("unexpected name expression")
                ty = ast.unparse(el.args[2])
                if ty != ("function_type" if is_fun else "operator_type"):
                    raise ValueError(f"unexpected type {ty}")
                method = ast.unparse(el.args[3])
                kw = {k.arg: k.value for k in el.keywords}
                arity = kw["arity"].value if "arity" in kw else 0
                pv = kw.get("precedence")
                if pv is None:
                    precedence = 0
                elif isinstance(pv, ast.Call) and ast.unparse(pv.func) in ("p", "self._precedence") and isinstance(pv.args[0], ast.Constant):
                    precedence = prec_fn(pv.args[0].value)
                else:
                    raise ValueError("unexpected precedence form")
                av = kw.get("associativity")
                if av is None:
                    assoc = -1
                elif isinstance(av, ast.Constant):
                    assoc = av.value
                elif isinstance(av, ast.UnaryOp) and isinstance(av.op, ast.USub) and isinstance(av.operand, ast.Constant):
                    assoc = -av.operand.value
                else:
                    raise ValueError("unexpected associativity form")
                if not isinstance(name, str) or not isinstance(arity, int):
                    raise ValueError("unexpected name/arity")
                rows.append((name, is_fun, method, arity, precedence, assoc))
            except Exception as e:
                errors.append(TranslationError(where, f"element {ast.unparse(el)[:60]}: {e}"))
    out.append("From Coq Require Import ZArith.\n")
    out.append("(* name, is_function, numpy/Op method, arity, precedence, associativity *)\n")
    out.append("Definition op_table : list (string * bool * string * nat * Z * Z) := [\n")
    out.append(";\n".join(f'  ("{n}", {str(f).lower()}, "{m}", {a}%nat, ({p})%Z, ({s})%Z)' for n, f, m, a, p, s in rows))
    out.append("\n].\n")
    out.append("Definition rule_keywords : list (string * string) := [" + "; ".join(f'("{k}", "{v}")' for k, v in rule_keywords.items()) + "].\n")
    return "".join(out), errors


SOFT_SWITCHES: list[str] = []  # switches whose source shape was not recognised in this run (search hints)


def translate_switches(fl_dir: str) -> tuple[str, list[TranslationError]]:
    """Boolean facts about the SHAPE of three hand-modelled functions, read off their ASTs, so that the hand models
    follow /repo when one of the known defects is repaired or re-introduced:
      consequent_modify_carries_degree  Consequent.modify's hedge loop assigns the loop-carried parameter (known finding F1)
      antecedent_final_check_on_stack   Antecedent.load's final-state check applies `&` to `stack` instead of `state` (F6)
      is_ready_disjunction_nested       Engine.is_ready's missing-disjunction check sits inside the missing-conjunction branch (F9)
    When a function has been restructured so that the shape is no longer recognisable, the switch keeps the value it has
    at the pinned commit and the function is listed as a search hint (SOFT, returned through `soft`): the hand model is
    then tied to the code by the correspondence check alone, exactly like the hand-modelled functions that have no switch."""
    errors: list[TranslationError] = []
    vals: dict[str, bool] = {}
    PINNED = {"consequent_modify_carries_degree": True, "antecedent_final_check_on_stack": False, "is_ready_disjunction_nested": False}

    def cls_method(path, cls, meth):
        tree = ast.parse(open(path).read())
        c = next((n for n in tree.body if isinstance(n, ast.ClassDef) and n.name == cls), None)
        m = find_method(c, meth) if c else None
        if m is None:
            raise TranslationError(f"{os.path.basename(path)}:{cls}.{meth}", "not found")
        return m

    try:
        m = cls_method(os.path.join(fl_dir, "rule.py"), "Consequent", "modify")
        param = m.args.args[1].arg
        loops = [n for n in ast.walk(m) if isinstance(n, ast.For) and isinstance(n.target, ast.Name) and n.target.id == "hedge"]
        if len(loops) != 1 or len(loops[0].body) != 1 or not isinstance(loops[0].body[0], ast.Assign):
            raise TranslationError("rule.py:Consequent.modify", "unexpected hedge loop")
        a = loops[0].body[0]
        if not (len(a.targets) == 1 and isinstance(a.targets[0], ast.Name) and isinstance(a.value, ast.Call) and ast.unparse(a.value.func) == "hedge.hedge"
                and len(a.value.args) == 1 and isinstance(a.value.args[0], ast.Name) and a.value.args[0].id == a.targets[0].id):
            raise TranslationError("rule.py:Consequent.modify", "unexpected hedge loop body: " + ast.unparse(a))
        vals["consequent_modify_carries_degree"] = a.targets[0].id == param
    except (TranslationError, IndexError) as e:
        SOFT_SWITCHES.append(f"switch:{e}")
    try:
        m = cls_method(os.path.join(fl_dir, "rule.py"), "Antecedent", "load")
        found = []
        for n in ast.walk(m):
            if isinstance(n, ast.If) and isinstance(n.test, ast.BinOp) and isinstance(n.test.op, ast.BitAnd) and isinstance(n.test.left, ast.Name) \
                    and ast.unparse(n.test.right) == "s_hedge | s_term" and n.test.left.id in ("stack", "state"):
                # the check AFTER the token loop (the in-loop error branch has the same test on `state`)
                found.append((n.lineno, n.test.left.id))
        loops = [n for n in m.body if isinstance(n, ast.For)]
        after = [f for f in found if loops and f[0] > loops[-1].end_lineno]
        if len(after) != 1:
            raise TranslationError("rule.py:Antecedent.load", f"final-state check not recognised: {found}")
        vals["antecedent_final_check_on_stack"] = after[0][1] == "stack"
    except TranslationError as e:
        SOFT_SWITCHES.append(f"switch:{e}")
    try:
        m = cls_method(os.path.join(fl_dir, "engine.py"), "Engine", "is_ready")

        def mentions(node, name):
            return any(isinstance(x, ast.Name) and x.id == name for x in ast.walk(node))

        conj = [n for n in ast.walk(m) if isinstance(n, ast.If) and mentions(n.test, "conjunction_needed")]
        disj = [n for n in ast.walk(m) if isinstance(n, ast.If) and mentions(n.test, "disjunction_needed")]
        if len(conj) != 1 or len(disj) != 1:
            raise TranslationError("engine.py:Engine.is_ready", "operator checks not recognised")
        vals["is_ready_disjunction_nested"] = any(x is disj[0] for x in ast.walk(conj[0]))
    except TranslationError as e:
        SOFT_SWITCHES.append(f"switch:{e}")
    out = ["(* GENERATED by tools/translate.py from rule.py / engine.py / activation.py — do not edit. *)\n",
           "Require Import Coq.Strings.String Coq.Lists.List.\nImport ListNotations.\nOpen Scope string_scope.\n"]
    for k in ("consequent_modify_carries_degree", "antecedent_final_check_on_stack", "is_ready_disjunction_nested"):
        v = vals.get(k, PINNED[k])
        out.append(f"Definition {k} : bool := {str(v).lower()}." + ("" if k in vals else "  (* shape not recognised: value of the pinned commit *)") + "\n")
    # Threshold.Comparator: (member, symbol, operator function) from the enum body and its __operator__ table
    try:
        tree = ast.parse(open(os.path.join(fl_dir, "activation.py")).read())
        th = next(n for n in tree.body if isinstance(n, ast.ClassDef) and n.name == "Threshold")
        comp = next(n for n in th.body if isinstance(n, ast.ClassDef) and n.name == "Comparator")
        members = {}
        table = None
        for st in comp.body:
            if isinstance(st, ast.Assign) and isinstance(st.targets[0], ast.Name) and isinstance(st.value, ast.Constant) and isinstance(st.value.value, str):
                members[st.targets[0].id] = st.value.value
            if isinstance(st, ast.AnnAssign) and isinstance(st.target, ast.Name) and st.target.id == "__operator__" and isinstance(st.value, ast.Dict):
                table = st.value
        if table is None or not members:
            raise TranslationError("activation.py:Threshold.Comparator", "members or __operator__ table not recognised")
        rows = []
        for k, v in zip(table.keys, table.values):
            if not (isinstance(k, ast.Name) and k.id in members and isinstance(v, ast.Attribute) and isinstance(v.value, ast.Name) and v.value.id == "operator"):
                raise TranslationError("activation.py:Threshold.Comparator", "unexpected __operator__ entry " + ast.unparse(k))
            rows.append((k.id, members[k.id], v.attr))
        if sorted(r[0] for r in rows) != sorted(members):
            raise TranslationError("activation.py:Threshold.Comparator", "__operator__ does not cover every member")
        out.append("(* Threshold.Comparator: member, symbol, function of the `operator` module *)\n")
        out.append("Definition threshold_comparators : list (string * string * string) := [" + "; ".join(f'("{a}", "{b}", "{c}")' for a, b, c in rows) + "].\n")
    except StopIteration:
        errors.append(TranslationError("activation.py:Threshold.Comparator", "class not found"))
    except TranslationError as e:
        errors.append(e)
    return "".join(out), errors


def write_if_changed(path: str, text: str) -> bool:
    try:
        if open(path).read() == text:
            return False
    except FileNotFoundError:
        pass
    os.makedirs(os.path.dirname(path), exist_ok=True)
    with open(path, "w") as f:
        f.write(text)
    return True


def run(out_dir: str) -> list[TranslationError]:
    errors: list[TranslationError] = []
    fl = os.path.join(REPO, "fuzzylite")
    text, names, errs = translate_simple(os.path.join(fl, "norm.py"), "compute", {"NormLambda", "NormFunction"}, {"Norm", "TNorm", "SNorm"})
    errors += errs
    write_if_changed(os.path.join(out_dir, "GenNorm.v"), text)
    text, names, errs = translate_simple(os.path.join(fl, "hedge.py"), "hedge", {"HedgeLambda", "HedgeFunction"}, {"Hedge"})
    errors += errs
    write_if_changed(os.path.join(out_dir, "GenHedge.v"), text)
    text, info, errs = translate_terms(os.path.join(fl, "term.py"))
    errors += errs
    write_if_changed(os.path.join(out_dir, "GenTerm.v"), text)
    text, errs = translate_optable(os.path.join(fl, "factory.py"))
    errors += errs
    if text:
        write_if_changed(os.path.join(out_dir, "GenOpTable.v"), text)
    SOFT_SWITCHES.clear()
    text, errs = translate_switches(fl)
    errors += errs
    write_if_changed(os.path.join(out_dir, "GenSwitches.v"), text)
    # constructor signatures and __repr__ rules (property C15); its own fail-closed translator
    try:
        import translate_signatures

        pins = list(SOFT_SWITCHES)
        for e in translate_signatures.run(out_dir):
            if "source changed (hash" in str(e):
                # a hand-modelled function was edited: not a translation failure; the correspondence decides whether the
                # hand model still describes the code.  Recorded so that C15 searches deeper (vlib: pins_changed).
                pins.append(str(e))
                continue
            errors.append(e if isinstance(e, TranslationError) else TranslationError("signatures", str(e)))
        write_if_changed(os.path.join(out_dir, "PINS_CHANGED.txt"), "\n".join(pins) + ("\n" if pins else ""))
    except ImportError:
        pass
    except Exception as e:  # fail closed
        errors.append(TranslationError("signatures", f"translator crashed: {type(e).__name__}: {e}"))
    return errors


if __name__ == "__main__":
    out = sys.argv[1] if len(sys.argv) > 1 else os.path.join(os.path.dirname(os.path.abspath(__file__)), "..", "coq", "Gen")
    errs = run(out)
    for e in errs:
        print("TRANSLATION-ERROR", e)
    sys.exit(1 if errs else 0)
