#!/usr/bin/env python3
"""Prints the markdown table of seeded changes (DESIGN.md 9.7) from /verif/seeded/*/meta.json."""
import glob, json, os, re
rows = []
for f in sorted(glob.glob("/verif/seeded/*/meta.json")):
    d = json.load(open(f)); c = d.get("confirmed", {})
    name = os.path.basename(os.path.dirname(f))
    line = c.get("check_violation_line") or ""
    what = re.sub(r"^VIOLATION property=\S+ replay=\S+\s+#\s*", "", line)[:110].replace("|", "/")
    rows.append(f"| {name} | {d['summary'][:150].replace('|','/')} | {'yes' if c.get('check_caught') else 'NO'} | {'yes' if c.get('check_found_failing_input') else 'no'} | {what} |")
print("| id | change (needs something specific to manifest; see meta.json) | caught | failing input | first line of the check's report |")
print("|---|---|---|---|---|")
print("\n".join(rows))
