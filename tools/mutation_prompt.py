#!/usr/bin/env python3
"""Prints the brief given to an independent sub-agent that must produce property-breaking changes (no access to /verif)."""
import json, sys
pid = sys.argv[1]
n = int(sys.argv[2]) if len(sys.argv) > 2 else 3
props = {json.loads(l)["id"]: json.loads(l) for l in open("/verif/properties.jsonl")}
p = props[pid]
print(f"""You are testing how well a property of the Python library pyfuzzylite (a fuzzy logic control library; source in /repo, package `fuzzylite`) is guarded. Do NOT read, list or use anything under /verif (you must work independently of it). Never edit /repo itself.

PROPERTY {pid} — {p['title']}
Statement: {p['statement']}
Quantified over: {p['quantifier']['text']}
Anchors in the code: {', '.join(p['anchors']['files'])}; mechanisms: {'; '.join(m['name'] + ' @ ' + m['where'] for m in p['anchors']['mechanism'])}

YOUR TASK: produce {n} DIFFERENT realistic changes ("mutations") to the library source, each of which BREAKS this property while the library still imports and the existing test suite still passes. Prefer changes that need something specific to manifest — an unusual input (a break-point, a tie, NaN/inf, a reversed direction, a non-unit height, a disabled component), a multi-step sequence of operations, a particular combination of settings, or two cooperating sites that each look fine alone — NOT ones that ordinary use would expose at once. Each must be a plausible programming slip (an off-by-one, `<` vs `<=`, a swapped operand, a dropped factor, a wrong branch, a stale variable, a missing copy …), 1–6 changed lines.

For mutation k (k = 1..{n}):
1. Create a scratch worktree: `git -C /repo worktree add /tmp/mut/{pid}_k HEAD` (replace k). Work ONLY inside it. Always run Python as `cd /tmp/mut/{pid}_k && PYTHONPATH=/tmp/mut/{pid}_k /venv/bin/python …` and first confirm `python -c "import fuzzylite; print(fuzzylite.__file__)"` prints a path inside the worktree.
2. Edit the source in the worktree. Run the existing suite: `PYTHONPATH=/tmp/mut/{pid}_k /venv/bin/python -m pytest -q -p no:cacheprovider --timeout=900 -x --deselect tests/test_benchmark.py::TestBenchmark::test_measure --deselect tests/test_exporter.py::TestPythonExporter::test_object` — it MUST pass (those two deselected tests fail on the untouched library too). If it fails, choose another change.
3. Write a small demonstration program `demo.py` that uses only the public API, exits 0 on the untouched library (`PYTHONPATH=/repo`) and exits non-zero (assertion failure with a clear message) with your change (`PYTHONPATH=/tmp/mut/{pid}_k`). Verify both.
4. Save to `/tmp/mut/out/{pid}_k/`: `patch.diff` (output of `git -C /tmp/mut/{pid}_k diff`), `demo.py`, and `meta.json` with keys: property ("{pid}"), summary (one sentence: what was changed), needs (what specific input/sequence/setting is needed for it to manifest), files (changed files), tests_pass (true), demo_fails_with_patch (true), demo_passes_without_patch (true).
5. Remove the worktree: `git -C /repo worktree remove --force /tmp/mut/{pid}_k`.
Report the {n} summaries at the end. Keep each mutation independent (each starts from a clean HEAD worktree).""")
