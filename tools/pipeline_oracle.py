"""An independent re-statement of the documented inference pipeline on the public API (direct oracle for C01/C02/C13).

It uses the library's leaves (term.membership, norm.compute, hedge.hedge, defuzzifier.defuzzify) but none of its
control flow: its own antecedent parser, its own rule selection per activation method, its own accumulation of
contributions, its own output cascade."""
from __future__ import annotations

import math
import re

import numpy as np


class Parser:
    """antecedent := or ; or := and ('or' and)* ; and := atom ('and' atom)* ; atom := '(' or ')' | var 'is' hedge* term"""

    def __init__(self, text):
        self.toks = re.sub(r"([()])", r" \1 ", text).split()
        self.i = 0

    def peek(self):
        return self.toks[self.i] if self.i < len(self.toks) else None

    def eat(self):
        t = self.peek()
        self.i += 1
        return t

    def parse(self):
        t = self.p_or()
        assert self.peek() is None, self.toks
        return t

    def p_or(self):
        t = self.p_and()
        while self.peek() == "or":
            self.eat()
            t = ("or", t, self.p_and())
        return t

    def p_and(self):
        t = self.p_atom()
        while self.peek() == "and":
            self.eat()
            t = ("and", t, self.p_atom())
        return t

    def p_atom(self):
        if self.peek() == "(":
            self.eat()
            t = self.p_or()
            assert self.eat() == ")"
            return t
        var = self.eat()
        assert self.eat() == "is"
        words = []
        while self.peek() not in (None, "and", "or", ")"):
            words.append(self.eat())
        return ("prop", var, words)


def sanitize(d):
    d = float(d)
    if d != d or d == -math.inf:
        return 0.0
    if d == math.inf:
        return 1.0
    return d


def grouped_degree(fl, agg, contributions, term_name):
    """Activation degree of a term in a list of (term, degree) contributions: combined with the aggregation (sum if none)."""
    acc = None
    for t, d in contributions:
        if t.name == term_name:
            acc = sanitize(d) if acc is None else sanitize((agg or fl.UnboundedSum()).compute(acc, d))
    return 0.0 if acc is None else acc


def evaluate(fl, engine, tree, conj, disj, contribs):
    if tree[0] == "prop":
        _, vname, words = tree
        var = engine.variable(vname)
        if not var.enabled:
            return 0.0
        hedges, tname = words[:-1], words[-1]
        H = fl.settings.factory_manager.hedge
        if tname == "any":
            r = math.nan
            hs = words
        else:
            hs = hedges
            term = var.term(tname)
            if isinstance(var, fl.OutputVariable):
                r = grouped_degree(fl, var.aggregation, contribs[id(var)], term.name)
            else:
                r = term.membership(var.value)
        for h in reversed(hs):
            r = H.construct(h).hedge(r)
        return r
    op, l, r = tree
    a = evaluate(fl, engine, l, conj, disj, contribs)
    b = evaluate(fl, engine, r, conj, disj, contribs)
    return conj.compute(a, b) if op == "and" else disj.compute(a, b)


def conclusions(fl, engine, text):
    out = []
    for part in re.split(r"\s+and\s+", text.strip()):
        words = part.split()
        assert words[1] == "is", part
        out.append((engine.output_variable(words[0]), words[2:-1], words[-1]))
    return out


def split_rule(rule):
    return rule.antecedent.text, rule.consequent.text


def fire(fl, engine, rule, degree, impl, contribs, fired, leak):
    """Contributions of one triggered rule.  leak=True reproduces known finding F1 (the hedged degree carries over)."""
    if not rule.enabled:
        return
    running = degree
    for var, hedges, tname in conclusions(fl, engine, rule.consequent.text):
        if not var.enabled:
            continue
        d = running if leak else degree
        H = fl.settings.factory_manager.hedge
        for h in reversed(hedges):
            d = H.construct(h).hedge(d)
        if leak:
            running = d
        contribs[id(var)].append((var.term(tname), sanitize(d)))
        fired[id(var)].append((var.term(tname), sanitize(d), impl))


def weighted_value(fl, var, fired):
    """Documented weighted average / sum of the grouped activations, computed here (not by the library's defuzzifier):
    activations grouped by term name in first-occurrence order, degrees combined with the aggregation operator (sum if
    none); z = membership(w) (Takagi-Sugeno, inverse Tsukamoto) or tsukamoto(w); an activation of degree 0 contributes nothing."""
    d = var.defuzzifier
    agg = var.aggregation or fl.UnboundedSum()
    groups = {}
    for t, deg, _ in fired:
        if t.name not in groups:
            groups[t.name] = [t, sanitize(deg)]
        else:
            groups[t.name][1] = sanitize(agg.compute(groups[t.name][1], deg))
    kind = d.type.name
    if kind == "Automatic":
        kinds = set()
        for t, _, _ in fired:
            kinds.add("TakagiSugeno" if isinstance(t, (fl.Constant, fl.Linear, fl.Function)) else ("Tsukamoto" if t.is_monotonic() else "Automatic"))
        if len(kinds) > 1:
            raise TypeError("mixed kinds")
        kind = kinds.pop() if kinds else "Automatic"
    if not fired:
        return math.nan
    ws = np.float64(0.0)
    w = np.float64(0.0)
    for t, deg in groups.values():
        z = np.float64(t.tsukamoto(deg) if kind == "Tsukamoto" else t.membership(deg))
        if deg != 0.0:
            ws = ws + np.float64(deg) * z
        w = w + np.float64(deg)
    avg = ws / w
    return float(avg if type(d).__name__ == "WeightedAverage" else avg * w)


def pipeline(fl, engine, leak=False):
    """Expected output values of Engine.process() for the engine's current inputs, previous values and flags."""
    contribs = {id(v): [] for v in engine.output_variables}
    fired = {id(v): [] for v in engine.output_variables}
    with np.errstate(all="ignore"):
        for block in engine.rule_blocks:
            if not block.enabled:
                continue
            act = block.activation
            conj, disj, impl = block.conjunction, block.disjunction, block.implication
            loaded = [r for r in block.rules if r.is_loaded()]

            def degree(r):
                return float(r.weight * evaluate(fl, engine, Parser(r.antecedent.text).parse(), conj, disj, contribs))

            name = type(act).__name__
            if name == "General":
                for r in loaded:
                    fire(fl, engine, r, degree(r), impl, contribs, fired, leak)
            elif name in ("First", "Last"):
                n = 0
                for r in (loaded if name == "First" else list(reversed(loaded))):
                    d = degree(r)
                    if n < act.rules and d > 0.0 and d >= act.threshold:
                        fire(fl, engine, r, d, impl, contribs, fired, leak)
                        n += 1
            elif name in ("Highest", "Lowest"):
                ds = [(degree(r), i, r) for i, r in enumerate(loaded)]
                ds = [x for x in ds if x[0] > 0.0]
                ds.sort(key=lambda x: ((-x[0]) if name == "Highest" else x[0], x[1]))
                for d, _, r in ds[: max(0, act.rules)]:
                    fire(fl, engine, r, d, impl, contribs, fired, leak)
            elif name == "Proportional":
                ds = [(degree(r), r) for r in loaded]
                ds = [x for x in ds if x[0] > 0.0]
                total = 0.0
                for d, _ in ds:
                    total += d
                for d, r in ds:
                    fire(fl, engine, r, d / total, impl, contribs, fired, leak)
            elif name == "Threshold":
                import operator as op

                cmp = {"<": op.lt, "<=": op.le, "==": op.eq, "!=": op.ne, ">=": op.ge, ">": op.gt}[act.comparator.value]
                for r in loaded:
                    d = degree(r)
                    if cmp(d, act.threshold):
                        fire(fl, engine, r, d, impl, contribs, fired, leak)
            else:
                raise NotImplementedError(name)
        out = []
        for var in engine.output_variables:
            if not var.enabled:
                out.append(float(np.asarray(var.value, dtype=float).ravel()[-1]))
                continue
            if isinstance(var.defuzzifier, fl.WeightedDefuzzifier):
                z = weighted_value(fl, var, fired[id(var)])
            else:
                agg = fl.Aggregated(var.name, var.minimum, var.maximum, var.aggregation, [fl.Activated(t, d, i) for t, d, i in fired[id(var)]])
                z = float(np.asarray(var.defuzzifier.defuzzify(agg, var.minimum, var.maximum), dtype=float).ravel()[-1])
            if z != z and var.lock_previous:
                z = float(np.asarray(var.value, dtype=float).ravel()[-1])
            if z != z and not math.isnan(var.default_value):
                z = var.default_value
            if var.lock_range and z == z:
                z = min(max(z, var.minimum), var.maximum)
            out.append(z)
    return out, fired
