#!/bin/bash
# Independent re-check of every compiled property file (and everything they depend on) with coqchk, printing the axioms.
# About 2 minutes, 0.5 GB. Run ./setup.sh first (needs the .vo files).
cd "$(dirname "$0")/../coq" || exit 2
mods=$(ls Properties/*.v | sed 's|Properties/\(.*\)\.v|VF.Properties.\1|' | tr '\n' ' ')
timeout 6000 coqchk -silent -o -R . VF $mods
