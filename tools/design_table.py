#!/usr/bin/env python3
"""Prints a markdown table (property, theorems, axioms class, evaluations, wall) from /verif/evidence/*.json."""
import glob, json, re
print("| id | tier | theorems+examples | axioms reported by Print Assumptions | evaluations | distinct non-trivial | wall s |")
print("|---|---|---|---|---|---|---|")
for f in sorted(glob.glob("/verif/evidence/C*.json")):
    d = json.load(open(f)); c = d["coverage"]
    ax = next((t for t in c["trusted_base"] if t.startswith("Print Assumptions")), "")
    names = [a.strip() for a in ax.split(":", 1)[1].split(",")] if ":" in ax else []
    cls = []
    if any("Classical" in a or "FunctionalExtensionality" in a for a in names): cls.append("Reals/classical/funext")
    if any("FloatAxioms" in a for a in names): cls.append("FloatAxioms")
    if any(a.startswith("Prim") or "Uint63" in a for a in names): cls.append("float/int primitives")
    if not names or "closed" in ax: cls = cls or ["closed"]
    print(f"| {d['property_id']} | {d['tier']} | {c['obligations']} | {', '.join(cls) or 'closed'} | {c.get('evaluations')} | {c.get('distinct_nontrivial')} | {d['wall_s']} |")
