"""C08 — activation methods trigger exactly the rules their definition selects.

Correspondence: the REAL activation classes (fuzzylite/activation.py) are run on real `fl.RuleBlock`s whose
rules are `fl.Rule` objects with a logging subclass (every deactivate / activate_with / trigger call is recorded,
then forwarded to the real method).  Rule i is `if in_i is t then out is o_i` with `t = Rectangle(0, 1)` and
`in_i = 0.5`, so the antecedent degree is 1.0 and `rule.weight` alone sets the activation degree (any double,
NaN and infinities included).  The same block, method and parameters are evaluated by the Coq model
(`Activation.run` over `NumF true []`) and the whole call log (kind, position, degree at a trigger call) and
every rule's final `activation_degree` / `triggered` are compared exactly.

Direct oracle: the property's selections written independently in plain Python (sorted(), list slicing) on the
known degrees; it looks only at public observables: `OutputVariable.fuzzy.terms`, `Rule.triggered`,
`Rule.activation_degree`, and the exception raised for batches.
"""
from __future__ import annotations

import itertools
import math

import numpy as np

import vlib

COQ_TARGETS = ["Proofs/ActivationProofs.vo"]

MAXR = 8
GRID = [0.0, 0.25, 0.5, 1.0]  # degrees of the exhaustive part: ties and zeros
THRESHOLDS = [0.0, 0.125, 0.25, 0.375, 0.5, 0.75, 1.0]  # on and between the degrees
NS = [-1, 0, 1, 2, 3, 4, 5]
COMPARATORS = ["<", "<=", "==", "!=", ">=", ">"]
CMP_COQ = {"<": "CmpLt", "<=": "CmpLe", "==": "CmpEq", "!=": "CmpNe", ">=": "CmpGe", ">": "CmpGt"}
STALE_DEGREE = 0.75  # what every rule holds before activation (so that deactivate() is observable)

PRELUDE = """From VF Require Import Core Activation.
Import ListNotations.
Definition NF : Num float := NumF true [].
Definition mkr (l e : bool) (v : float) (sz : nat) : crule float :=
  {| cr_static := {| rs_loaded := l; rs_enabled := e; rs_value := v; rs_size := sz |};
     cr_degree := 0x1.8p-1%float; cr_triggered := true |}.
Definition eD (i : nat) : event float := EvDeactivate i.
Definition eE (i : nat) : event float := EvEval i.
Definition eT (i : nat) (x : float) : event float := EvTrigger i x.
Definition ev_eq (a b : event float) : bool :=
  match a, b with
  | EvDeactivate i, EvDeactivate j => Nat.eqb i j
  | EvEval i, EvEval j => Nat.eqb i j
  | EvTrigger i x, EvTrigger j y => Nat.eqb i j && feq x y
  | _, _ => false
  end.
Fixpoint list_eq {A B : Type} (eq : A -> B -> bool) (l1 : list A) (l2 : list B) : bool :=
  match l1, l2 with
  | [], [] => true
  | x :: l1', y :: l2' => eq x y && list_eq eq l1' l2'
  | _, _ => false
  end.
Definition fin_eq (r : crule float) (p : float * bool) : bool :=
  feq (cr_degree r) (fst p) && Bool.eqb (cr_triggered r) (snd p).
Definition chk (c : list (crule float) * activation float * option (list (float * bool) * list (event float))) : bool :=
  let '(b, m, expected) := c in
  match @run float NF m b, expected with
  | Ok s, Some (finals, evs) => list_eq fin_eq (cs_rules s) finals && list_eq ev_eq (cs_events s) evs
  | Err EValue, None => true
  | _, _ => false
  end.
"""
CASE_TYPE = "list (crule float) * activation float * option (list (float * bool) * list (event float))"


def fx(x: float) -> str:
    """Short exact Coq float literal."""
    x = float(x)
    if x != x or math.isinf(x):
        return vlib.fhex(x)
    h = x.hex()
    neg = h.startswith("-")
    if neg:
        h = h[1:]
    mant, exp = h.split("p")
    if "." in mant:
        mant = mant.rstrip("0").rstrip(".")
    s = f"{mant}p{exp}"
    return f"(-{s})%float" if neg else f"{s}%float"


# --------------------------------------------------------------------------- the bench: real engine, logged rules
class Bench:
    def __init__(self):
        import fuzzylite as fl

        self.fl = fl
        log = self.log = []

        class LoggedRule(fl.Rule):
            """fl.Rule whose three activation-time methods record the call and forward to the real method."""

            pos = -1

            def deactivate(self):
                log.append(("D", self.pos))
                return super().deactivate()

            def activate_with(self, conjunction, disjunction):
                log.append(("E", self.pos))
                return super().activate_with(conjunction, disjunction)

            def trigger(self, implication):
                log.append(("T", self.pos, self.activation_degree))
                return super().trigger(implication)

        self.inputs = [fl.InputVariable(name=f"in{j}", minimum=0.0, maximum=1.0, terms=[fl.Rectangle("t", 0.0, 1.0)]) for j in range(MAXR)]
        self.out = fl.OutputVariable(name="out", minimum=0.0, maximum=float(MAXR), aggregation=fl.Maximum(), defuzzifier=fl.Centroid(),
                                     terms=[fl.Constant(f"o{j}", float(j)) for j in range(MAXR)])
        self.rb = fl.RuleBlock(name="rb", conjunction=None, disjunction=None, implication=fl.Minimum(), activation=fl.General(), rules=[])
        self.engine = fl.Engine(name="c08", input_variables=self.inputs, output_variables=[self.out], rule_blocks=[self.rb])
        self.loaded, self.unloaded = [], []
        for j in range(MAXR):
            text = f"if in{j} is t then out is o{j}"
            a = LoggedRule()
            a.parse(text)
            a.load(self.engine)
            b = LoggedRule()
            b.parse(text)  # never loaded
            assert a.is_loaded() and not b.is_loaded()
            self.loaded.append(a)
            self.unloaded.append(b)

    def method(self, m):
        fl = self.fl
        kind = m[0]
        if kind == "General":
            return fl.General()
        if kind == "First":
            return fl.First(m[1], m[2])
        if kind == "Last":
            return fl.Last(m[1], m[2])
        if kind == "Highest":
            return fl.Highest(m[1])
        if kind == "Lowest":
            return fl.Lowest(m[1])
        if kind == "Proportional":
            return fl.Proportional()
        if kind == "Threshold":
            return fl.Threshold(m[1], m[2])
        raise KeyError(kind)

    def run(self, rules, m):
        """rules: [(loaded, enabled, degree, size)], m: method tuple.  Returns the observation dict."""
        from fuzzylite.library import array, scalar

        block = []
        for j, (ld, en, d, size) in enumerate(rules):
            r = (self.loaded if ld else self.unloaded)[j]
            r.pos = j
            r.enabled = en
            r.weight = d
            r.activation_degree = scalar(STALE_DEGREE)
            r.triggered = array(True)
            self.inputs[j].value = 0.5 if size == 1 else np.full(size, 0.5)
            block.append(r)
        self.rb.rules = block
        self.rb.activation = self.method(m)
        self.out.fuzzy.clear()
        del self.log[:]
        err = None
        with np.errstate(all="ignore"):
            try:
                self.rb.activate()
            except Exception as e:  # noqa: BLE001
                err = type(e).__name__
        obs = {"error": err, "events": list(self.log)}
        obs["finals"] = [(r.activation_degree, r.triggered) for r in block]
        obs["fuzzy"] = [(t.term.name, t.degree) for t in self.out.fuzzy.terms]
        return obs


def collapse(x):
    """A degree / flag as one Python value: arrays whose elements are all equal collapse to that element."""
    a = np.asarray(x).ravel()
    if a.size == 0:
        return None
    first = a[0]
    for y in a[1:]:
        if not (y == first or (y != y and first != first)):
            return None
    return first.item()


# --------------------------------------------------------------------------- the documented selections, in plain Python
def documented(m, loaded):
    """loaded: [(position, degree)] of the loaded rules in insertion order -> [(position, degree handed to trigger)]."""
    kind = m[0]
    pos = [(i, d) for i, d in loaded if d > 0.0]
    if kind == "General":
        return list(loaded)
    if kind in ("First", "Last"):
        n, t = m[1], m[2]
        seq = loaded if kind == "First" else loaded[::-1]
        ok = [(i, d) for i, d in seq if d > 0.0 and d >= t]
        return ok[: max(n, 0)]
    if kind == "Highest":
        return sorted(pos, key=lambda p: (-p[1], p[0]))[: max(m[1], 0)]
    if kind == "Lowest":
        return sorted(pos, key=lambda p: (p[1], p[0]))[: max(m[1], 0)]
    if kind == "Proportional":
        s = 0.0
        for _, d in pos:
            s += d
        return [(i, d / s) for i, d in pos]
    if kind == "Threshold":
        op, t = m[1], m[2]
        f = {"<": lambda a: a < t, "<=": lambda a: a <= t, "==": lambda a: a == t, "!=": lambda a: a != t, ">=": lambda a: a >= t, ">": lambda a: a > t}[op]
        return [(i, d) for i, d in loaded if f(d)]
    raise KeyError(kind)


def close(a, b):
    if a != a or b != b:
        return a != a and b != b
    if math.isinf(a) or math.isinf(b):
        return a == b
    return abs(a - b) <= 1e-12 * max(1.0, abs(a), abs(b))


def sanitized(d):
    if d != d or d == -math.inf:
        return 0.0
    if d == math.inf:
        return 1.0
    return d


def oracle(rules, m, obs, verdict):
    """The property on public observables.  Returns the number of violations reported."""
    kind = m[0]
    replay = {"rules": [[ld, en, repr(d), sz] for ld, en, d, sz in rules], "method": [repr(x) if isinstance(x, float) else x for x in m]}
    vector = any(ld and sz > 1 for ld, en, d, sz in rules)
    nv = 0
    if vector:
        if kind != "General" and obs["error"] != "ValueError":
            verdict.add_violation(f"{kind}:vector-not-rejected", f"{kind} on a block with a batch degree: expected ValueError, got {obs['error']}", replay)
            nv += 1
        if kind == "General" and obs["error"] is not None:
            verdict.add_violation("General:vector-raises", f"General raised {obs['error']} on a batch", replay)
            nv += 1
        return nv
    if obs["error"] is not None:
        verdict.add_violation(f"{kind}:raises", f"{kind}{m[1:]} raised {obs['error']} on scalar degrees {[r[2] for r in rules]}", replay)
        return 1
    loaded = [(i, d) for i, (ld, en, d, sz) in enumerate(rules) if ld]
    want = documented(m, loaded)
    want_pos = {i: d for i, d in want}
    # contributions to the fuzzy output: the selected enabled rules, nothing else
    contrib = sorted((f"o{i}", sanitized(d)) for i, d in want if rules[i][1])
    got = sorted((name, float(collapse(deg))) for name, deg in obs["fuzzy"])
    if len(contrib) != len(got) or any(a[0] != b[0] or not close(a[1], b[1]) for a, b in zip(contrib, got)):
        verdict.add_violation(f"{kind}:selection", f"{kind}{m[1:]} on degrees {[(r[2] if r[0] else None) for r in rules]} (None = unloaded), enabled {[r[1] for r in rules]}: "
                              f"contributions {got}, documented {contrib}", replay)
        nv += 1
    for i, (ld, en, d, sz) in enumerate(rules):
        deg, trig = collapse(obs["finals"][i][0]), collapse(obs["finals"][i][1])
        exp_deg = want_pos[i] if i in want_pos else (d if ld else 0.0)
        exp_trig = bool(i in want_pos and en and want_pos[i] > 0.0)
        if deg is None or not close(float(deg), exp_deg):
            verdict.add_violation(f"{kind}:degree", f"{kind}{m[1:]}: rule {i} holds activation_degree {deg}, expected {exp_deg}", replay)
            nv += 1
        if trig is None or bool(trig) != exp_trig:
            verdict.add_violation(f"{kind}:triggered-flag", f"{kind}{m[1:]}: rule {i} (degree {d}, loaded {ld}, enabled {en}) triggered={trig}, expected {exp_trig}", replay)
            nv += 1
    return nv


# --------------------------------------------------------------------------- case generation
def all_methods():
    ms = [("General",), ("Proportional",)]
    for n in NS:
        ms.append(("Highest", n))
        ms.append(("Lowest", n))
        for t in THRESHOLDS:
            ms.append(("First", n, t))
            ms.append(("Last", n, t))
    for c in COMPARATORS:
        for t in THRESHOLDS:
            ms.append(("Threshold", c, t))
    return ms


STATUS = [(True, True), (True, False), (False, True)]  # (loaded, enabled): enabled, disabled, unloaded


def exhaustive_blocks(k):
    per_rule = [(ld, en, d, 1) for (ld, en) in STATUS for d in GRID]
    return itertools.product(per_rule, repeat=k)


def random_method(rng, degrees, nrules):
    kind = rng.choice(["General", "First", "Last", "Highest", "Lowest", "Proportional", "Threshold"])

    def thr():
        k = rng.random()
        fin = [d for d in degrees if d == d and not math.isinf(d)]
        if fin and k < 0.45:
            return rng.choice(fin)  # exactly on a degree
        if fin and k < 0.6:
            return rng.choice(vlib.neighbours(rng.choice(fin)))  # one ulp off a degree
        if len(fin) >= 2 and k < 0.8:
            a, b = rng.sample(fin, 2)
            return (a + b) / 2
        if k < 0.9:
            return rng.uniform(-0.5, 1.5)
        return rng.choice([math.nan, math.inf, -math.inf, 0.0, -0.0])

    n = rng.randint(-1, nrules + 1)
    if kind in ("First", "Last"):
        return (kind, n, thr())
    if kind in ("Highest", "Lowest"):
        return (kind, n)
    if kind == "Threshold":
        return (kind, rng.choice(COMPARATORS), thr())
    return (kind,)


def random_block(rng, batch=False):
    k = rng.randint(1, MAXR)
    pool = [rng.random() for _ in range(rng.randint(1, 4))]  # few distinct values -> ties
    rules = []
    for _ in range(k):
        u = rng.random()
        if u < 0.45:
            d = rng.choice(pool)
        elif u < 0.6:
            d = rng.random()
        elif u < 0.7:
            d = 0.0
        elif u < 0.78:
            d = math.nan
        elif u < 0.84:
            d = rng.choice([math.inf, -math.inf, -0.0, 5e-324, 1e308, 1e-308])
        elif u < 0.92:
            d = -rng.random()
        else:
            d = rng.choice(vlib.neighbours(rng.choice(pool)))
        ld, en = rng.choice(STATUS + [(True, True)] * 3)
        size = 2 if (batch and rng.random() < 0.4) else 1
        rules.append((ld, en, d, size))
    return tuple(rules)


def generate(ctx):
    """-> list of (class, rules, method)"""
    rng = ctx.rng
    methods = all_methods()
    cases = []
    if ctx.tier == "thorough":
        for k in (1, 2, 3):  # full product
            for b in exhaustive_blocks(k):
                for m in methods:
                    cases.append(("exhaustive", b, m))
        blocks4 = list(exhaustive_blocks(4))
        for b in blocks4:  # every block of 4, three methods each
            for m in rng.sample(methods, 5):
                cases.append(("exhaustive4-sampled", b, m))
    else:
        per_rule = [(ld, en, d, 1) for (ld, en) in STATUS for d in GRID]
        for _ in range(ctx.n(5000, 25000)):  # uniform sample of the full product
            k = rng.choice([1, 2, 3, 3, 4, 4, 4])
            b = tuple(rng.choice(per_rule) for _ in range(k))
            cases.append(("exhaustive-sampled", b, rng.choice(methods)))
    for _ in range(ctx.n(1500, 30000)):
        b = random_block(rng)
        cases.append(("random", b, random_method(rng, [r[2] for r in b], len(b))))
    for _ in range(ctx.n(300, 3000)):
        b = random_block(rng, batch=True)
        cases.append(("batch", b, random_method(rng, [r[2] for r in b], len(b))))
    return cases


# --------------------------------------------------------------------------- Coq literals
def method_lit(m):
    kind = m[0]
    if kind == "General":
        return "AGeneral"
    if kind == "Proportional":
        return "AProportional"
    if kind in ("First", "Last"):
        return f"(A{kind} ({m[1]})%Z {fx(m[2])})"
    if kind in ("Highest", "Lowest"):
        return f"(A{kind} ({m[1]})%Z)"
    return f"(AThreshold {CMP_COQ[m[1]]} {fx(m[2])})"


def case_lit(rules, m, obs):
    b = vlib.coq_list(f"mkr {'true' if ld else 'false'} {'true' if en else 'false'} {fx(d)} {sz}" for ld, en, d, sz in rules)
    if obs["error"] is not None:
        exp = "None"
    else:
        finals = vlib.coq_list(f"({fx(collapse(deg))}, {'true' if collapse(trig) else 'false'})" for deg, trig in obs["finals"])
        evs = vlib.coq_list((f"eD {e[1]}" if e[0] == "D" else f"eE {e[1]}" if e[0] == "E" else f"eT {e[1]} {fx(collapse(e[2]))}") for e in obs["events"])
        exp = f"Some ({finals}, {evs})"
    return f"({b}, {method_lit(m)}, {exp})"


def classify(rules, m, obs):
    tags = []
    loaded = [(i, d) for i, (ld, en, d, sz) in enumerate(rules) if ld]
    ds = [d for _, d in loaded if d > 0.0]
    if len(set(ds)) < len(ds):
        tags.append("tie-among-positive-degrees")
    if any(d == 0.0 for _, d in loaded):
        tags.append("zero-degree")
    if any(d != d for _, d in loaded):
        tags.append("nan-degree")
    if any(not r[0] for r in rules):
        tags.append("unloaded-rule")
    if any(r[0] and not r[1] for r in rules):
        tags.append("disabled-rule")
    if m[0] in ("First", "Last", "Threshold") and any(d == m[2] for _, d in loaded):
        tags.append("threshold-equals-a-degree")
    if m[0] in ("First", "Last", "Highest", "Lowest"):
        elig = len(documented((m[0], 99) + tuple(m[2:]), loaded)) if not any(r[3] > 1 for r in rules) else 0
        if m[1] > elig:
            tags.append("n-exceeds-eligible")
        if m[1] <= 0:
            tags.append("n-not-positive")
    return tags


def run(ctx, build, verdict, ev):
    bench = Bench()
    fl = bench.fl
    # the comparator table of the source, read directly (the model's `cmp_apply` is hand-written)
    import operator

    table = {"<": operator.lt, "<=": operator.le, "==": operator.eq, "!=": operator.ne, ">=": operator.ge, ">": operator.gt}
    for c in fl.Threshold.Comparator:
        if c.operator is not table.get(c.value):
            verdict.add_violation("Threshold:comparator-table", f"Threshold.Comparator {c.name} ({c.value}) maps to {c.operator}", {"comparator": c.value})

    cases = generate(ctx)
    lits, index = [], []
    dist: dict[str, int] = {}
    nviol = 0
    harness_bad = 0
    nontrivial = set()
    for cls, rules, m in cases:
        obs = bench.run(rules, m)
        nviol += oracle(rules, m, obs, verdict)
        if obs["error"] is not None and obs["error"] != "ValueError":
            verdict.add_broken("correspondence", f"{m[0]}:unexpected-exception", f"{m} on {rules} raised {obs['error']}")
            harness_bad += 1
            continue
        if obs["error"] is None and (any(collapse(d) is None or collapse(t) is None for d, t in obs["finals"]) or any(e[0] == "T" and collapse(e[2]) is None for e in obs["events"])):
            verdict.add_broken("harness", "non-uniform-batch", f"{m} on {rules}: a batch degree with different elements")
            harness_bad += 1
            continue
        lits.append(case_lit(rules, m, obs))
        index.append((cls, rules, m, obs["error"]))
        for tag in [cls, "method:" + m[0], f"rules:{len(rules)}"] + classify(rules, m, obs) + (["raises-ValueError"] if obs["error"] else []):
            dist[tag] = dist.get(tag, 0) + 1
        if obs["error"] is None:
            ntrig = len({e[1] for e in obs["events"] if e[0] == "T"})
            if 0 < ntrig < len(rules):
                nontrivial.add((rules, m))
    bad, log = ([], "") if build.translation_errors else vlib.run_coq_cases(ctx.work, "c08", PRELUDE, [(CASE_TYPE, "chk", lits)], chunk=1500, timeout=1500)
    mism = []
    for i in bad:
        if i < 0:
            verdict.add_broken("correspondence", "C08:coq-evaluation", log)
            break
        mism.append(index[i])
    if mism:
        cls, rules, m, err = mism[0]
        verdict.add_broken("correspondence", f"activation {m[0]}", f"model and implementation differ on {len(mism)} cases, first: method {m} rules(loaded, enabled, degree, size) {rules} "
                           f"implementation: {bench.run(rules, m)}")
    c = ev["coverage"]
    c["evaluations"] = len(index)
    c["distinct_nontrivial"] = len(nontrivial)
    c["rule"] = ("real RuleBlock.activate() with each of the 7 activation classes on blocks of logged fl.Rule objects; "
                 + ("thorough: full product of blocks of 1-3 rules (degree in {0,.25,.5,1} x enabled/disabled/unloaded) x 156 method configurations "
                    "(n in -1..5, 7 thresholds on/between the degrees, 6 comparators), every block of 4 rules x 3 sampled configurations; "
                    if ctx.tier == "thorough" else "quick: cases sampled uniformly from that product (blocks of 1-4 rules); ")
                 + "random blocks of 1-8 rules with random doubles (ties, zeros, NaN, +-inf, negative, subnormal, 1-ulp neighbours), thresholds on / one ulp off / between degrees or NaN/inf; "
                 "batch blocks (some degrees are arrays of size 2). non-trivial = scalar case whose trigger calls are a non-empty proper subset of the block's rules")
    c["distribution"] = dict(sorted(dist.items()))
    c["correspondence_mismatches"] = len(mism) + harness_bad
    c["oracle_violations"] = nviol
    step = max(1, len(index) // 6)
    c["samples"] = [dict(kind=cls, method=list(m), rules=[list(r) for r in rules], error=err) for cls, rules, m, err in index[::step][:6]]
    ev["assumptions"] += [
        "heapq.heappush/heappop on (key, index) tuples pop in increasing tuple order (the model extracts the minimum under Python's tuple comparison)",
        "Highest/Lowest = documented sorted order is proved for numeric readings satisfying the order laws PosOrder; PosOrder is proved for R and for binary64 (from Coq's FloatAxioms: ltb_spec, eqb_spec, opp_spec)",
        "Threshold.Comparator.__operator__ is hand-modelled (cmp_apply); the table is compared with operator.lt/le/eq/ne/ge/gt on every run",
        "degrees are numpy.float64 scalars or arrays of size 2; a batch of size 1 (shape (1,)) is not modelled: Proportional rejects it through NumPy's in-place add, the other methods accept it",
    ]


def _unrepr(x):
    if isinstance(x, str):
        try:
            return float(x)
        except ValueError:
            return x
    return x


def replay(ctx, data):
    bench = Bench()
    for v in data.get("violations", []):
        print(v["what"])
        r = v["replay"]
        if "rules" in r:
            rules = tuple((ld, en, float(d), sz) for ld, en, d, sz in r["rules"])
            m = tuple(_unrepr(x) for x in r["method"])
            obs = bench.run(rules, m)
            print("  now: error", obs["error"], "fuzzy", obs["fuzzy"], "finals", [(collapse(a), collapse(b)) for a, b in obs["finals"]])
            print("  calls:", [(e[0], e[1]) + ((collapse(e[2]),) if e[0] == "T" else ()) for e in obs["events"]])
    for b in data.get("broken", []):
        print("BROKEN", b["kind"], b["name"], "\n", b["detail"][:1500])
    return 0
