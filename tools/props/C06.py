"""C06 — rule antecedents mean what the rule grammar says.

Rule weights are written in the rule text (`with w`, incl. 0, 0.0, 0.000, -0.0, values next to 1, huge and tiny ones, no `with`)
and `rule.weight` is compared exactly with the number written.  Every grammar rule is also evaluated THROUGH a rule block
(RuleBlock.activate with each of the 7 activation methods, benign parameters): rule.activation_degree must be
weight x documented antecedent value computed with the BLOCK's conjunction and disjunction.

Correspondence: random engines (1-3 variables: inputs and outputs with a pre-filled fuzzy output, + the consequent's output),
random antecedent trees to depth 4 (0-3 hedges, `any`, term names that collide with formula functions), written with
minimal / redundant / glued parentheses, x all 7x9 registered conjunction/disjunction pairs + the non-commutative lambda
operators x weights x input values.  The implementation (Antecedent.load, Antecedent.postfix, Rule.activate_with) and the Coq
model (Model/ShuntingYard.v + Model/Antecedent.v, run by vm_compute on binary64 floats) are compared exactly: postfix token
list, and the bits of the activation degree (or the class of the exception).  A few malformed / ambiguous-name cases are
included for the correspondence only.
Direct oracle: an independent evaluation of the grammar semantics on the generated tree (own recursion, own aggregated
activation, own postfix printer) against Rule.activate_with / Antecedent.postfix on the public API.
"""
from __future__ import annotations

import math

import numpy as np

import vlib

COQ_TARGETS = ["Proofs/AntecedentProofs.vo"]

TNORMS = ["AlgebraicProduct", "BoundedDifference", "DrasticProduct", "EinsteinProduct", "HamacherProduct", "Minimum", "NilpotentMinimum"]
SNORMS = ["AlgebraicSum", "BoundedSum", "DrasticSum", "EinsteinSum", "HamacherSum", "Maximum", "NilpotentMaximum", "NormalizedSum", "UnboundedSum"]
SHARP = "#sharp"
HEDGES = ["extremely", "not", "seldom", "somewhat", "very"]
VAR_NAMES = ["a", "b", "c", "Temp_1", "v2", "is_on"]
TERM_NAMES = ["lo", "mid", "hi", "max", "pi", "min", "abs", "NEAR_0", "pow"]  # max pi min abs pow: formula functions
ERR = {SyntaxError: "ESyntax", ValueError: "EValue", KeyError: "ELookup", RuntimeError: "ERuntime",
       TypeError: "EInternal", AttributeError: "EInternal", IndexError: "EInternal", RecursionError: "EInternal"}

IMPORTS = r"""From VF Require Import GenNorm GenHedge GenTerm GenOpTable Core ShuntingYard Antecedent.
Import ListNotations.
Local Open Scope string_scope.
Local Open Scope list_scope.
Definition c06_membership (tbl : oracle) (t : term float) (x : float) : result float :=
  match t with TShape _ s => Ok (@shape_membership float (NumF true tbl) s x) | _ => Err EInternal end.
Definition res_feq (a b : result float) : bool :=
  match a, b with Ok x, Ok y => feq x y | Err p, Err q => err_eqb p q | _, _ => false end.
Fixpoint toks_eqb (a b : list string) : bool :=
  match a, b with [], [] => true | x :: a', y :: b' => String.eqb x y && toks_eqb a' b' | _, _ => false end.
Definition c06_rule (w : float) (x : expr) : rule float :=
  {| r_enabled := true; r_weight := w; r_antecedent := Some x;
     r_consequent := [{| c_var := 0%nat; c_hedges := []; c_term := 0%nat |}]; r_degree := 0%float; r_triggered := false |}.
Definition c06_sy_case : Type := (string * list string * result (list string))%type.
Definition c06_sy_check (c : c06_sy_case) : bool :=
  let '(text, toks, pf) := c in
  toks_eqb (format_infix_tokens op_table KW_AND KW_OR text) toks &&
  match infix_to_postfix_text op_table KW_AND KW_OR text, pf with
  | Ok a, Ok b => toks_eqb a b
  | Err x, Err y => err_eqb x y
  | _, _ => false
  end.
Definition c06_case : Type :=
  (engine float * string * option tnormx * option snormx * float * result (list string * result float) * oracle)%type.
Definition c06_check (c : c06_case) : bool :=
  let '(e, text, cj, dj, w, expected, tbl) := c in
  match load_text e text, expected with
  | Ok x, Ok (pf, deg) =>
      match postfix_tokens e x with Ok p => toks_eqb p pf | Err _ => false end
      && res_feq (@rule_activate_with float (NumF true tbl) (c06_membership tbl) cj dj e (c06_rule w x)) deg
  | Err a, Err b => err_eqb a b
  | _, _ => false
  end.
"""


# --------------------------------------------------------------------------- worlds (engines as plain data)
def g8(rng):
    return rng.randrange(0, 9) / 8.0


def gen_term(rng, name):
    kind = rng.choice(["Triangle", "Triangle", "Trapezoid", "Rectangle", "Ramp"])
    h = rng.choice([1.0, 1.0, 1.0, 0.5, 0.75])
    if kind == "Triangle":
        p = sorted(rng.sample(range(0, 17), 3))
        ps = [x / 16.0 for x in p]
    elif kind == "Trapezoid":
        p = sorted(rng.sample(range(0, 17), 4))
        ps = [x / 16.0 for x in p]
    elif kind == "Rectangle":
        p = sorted(rng.sample(range(0, 17), 2))
        ps = [x / 16.0 for x in p]
    else:
        p = rng.sample(range(0, 17), 2)
        ps = [x / 16.0 for x in p]
    return {"kind": kind, "name": name, "params": ps, "height": h}


def gen_value(rng):
    k = rng.random()
    if k < 0.35:
        return rng.randrange(0, 33) / 32.0
    if k < 0.93:
        return rng.uniform(-0.05, 1.05)
    if k < 0.97:
        return math.nan
    return rng.choice([math.inf, -math.inf, 0.0, 1.0])


def gen_degree(rng):
    k = rng.random()
    if k < 0.85:
        return rng.random()
    return rng.choice([math.nan, math.inf, -math.inf, -0.25, 1.5, 0.0, 1.0])


def gen_world(rng, odd=False):
    nvars = rng.choice([1, 2, 2, 3, 3])
    names = rng.sample(VAR_NAMES, nvars)
    vs = []
    for n in names:
        kind = "out" if rng.random() < 0.3 else "in"
        nterms = rng.choice([1, 2, 3])
        terms = [gen_term(rng, tn) for tn in rng.sample(TERM_NAMES, nterms)]
        v = {"kind": kind, "name": n, "enabled": rng.random() > 0.12, "terms": terms}
        if kind == "in":
            v["value"] = gen_value(rng)
        else:
            v["fuzzy"] = [[rng.randrange(nterms), gen_degree(rng)] for _ in range(rng.choice([0, 1, 2, 3, 4]))]
            v["aggregation"] = rng.choice([None, None, SHARP, SHARP] + SNORMS)
        vs.append(v)
    if odd:  # ambiguous names / a variable without terms: correspondence only
        k = rng.random()
        if k < 0.4 and vs:
            d = dict(rng.choice(vs))
            d = {**d, "terms": [gen_term(rng, tn) for tn in rng.sample(TERM_NAMES, 2)]}
            if d["kind"] == "out":
                d["fuzzy"] = []
            vs.insert(rng.randrange(len(vs) + 1), d)
        elif k < 0.7 and vs:
            v = rng.choice(vs)
            t = dict(rng.choice(v["terms"]))
            t["params"] = list(reversed(t["params"])) if t["kind"] == "Ramp" else t["params"]
            t["height"] = 0.25
            v["terms"].insert(rng.randrange(len(v["terms"]) + 1), t)
            if v["kind"] == "out":
                v["fuzzy"] = []
        elif vs:
            v = rng.choice(vs)
            v["terms"] = []
            if v["kind"] == "out":
                v["fuzzy"] = []
    vs.append({"kind": "out", "name": "z", "enabled": True, "terms": [{"kind": "Rectangle", "name": "t", "params": [0.0, 1.0], "height": 1.0}],
               "fuzzy": [], "aggregation": None})
    return {"vars": vs}


def sharp_t():
    import fuzzylite as fl

    return fl.NormLambda(lambda a, b: a / 2 + b / 4 + 1 / 8)


def sharp_s():
    import fuzzylite as fl

    return fl.NormLambda(lambda a, b: a / 4 + b / 2 + 1 / 16)


def mk_norm(name, is_t):
    import fuzzylite as fl

    if name is None:
        return None
    if name == SHARP:
        return sharp_t() if is_t else sharp_s()
    return getattr(fl, name)()


def build_engine(world):
    import fuzzylite as fl

    ins, outs = [], []
    for v in world["vars"]:
        terms = [getattr(fl, t["kind"])(t["name"], *t["params"], t["height"]) for t in v["terms"]]
        if v["kind"] == "in":
            iv = fl.InputVariable(name=v["name"], enabled=v["enabled"], minimum=0.0, maximum=1.0, lock_range=False, terms=terms)
            iv.value = v["value"]
            ins.append(iv)
        else:
            ov = fl.OutputVariable(name=v["name"], enabled=v["enabled"], minimum=0.0, maximum=1.0, lock_range=False, lock_previous=False,
                                   default_value=math.nan, aggregation=mk_norm(v["aggregation"], False), defuzzifier=None, terms=terms)
            for k, d in v["fuzzy"]:
                with np.errstate(all="ignore"):
                    ov.fuzzy.terms.append(fl.Activated(terms[k], d, None))
            outs.append(ov)
    return fl.Engine(name="g", input_variables=ins, output_variables=outs, rule_blocks=[])


# --------------------------------------------------------------------------- Coq literals
SHAPE = {"Triangle": "Sh_Triangle", "Trapezoid": "Sh_Trapezoid", "Rectangle": "Sh_Rectangle", "Ramp": "Sh_Ramp"}


def coq_term(t):
    return f"TShape {vlib.coq_string(t.name)} ({SHAPE[type(t).__name__]} " + " ".join(vlib.fhex(float(p)) for p in term_params(t)) + ")"


def term_params(t):
    n = type(t).__name__
    if n == "Triangle":
        return [t.left, t.top, t.right, t.height]
    if n == "Trapezoid":
        return [t.bottom_left, t.top_left, t.top_right, t.bottom_right, t.height]
    return [t.start, t.end, t.height]


def coq_snormx(n):
    if n is None:
        return "None"
    return "(Some SSharp)" if n == SHARP else f"(Some (SN S_{n}))"


def coq_tnormx(n):
    if n is None:
        return "None"
    return "(Some TSharp)" if n == SHARP else f"(Some (TN T_{n}))"


def coq_bool(b):
    return "true" if b else "false"


def coq_engine(engine, world):
    """Literal of the engine as the implementation holds it (values read back from the objects)."""
    ins, outs = [], []
    aggs = [v["aggregation"] for v in world["vars"] if v["kind"] == "out"]
    for iv in engine.input_variables:
        ins.append("{| iv_name := %s; iv_enabled := %s; iv_min := %s; iv_max := %s; iv_lock_range := false; iv_terms := %s; iv_value := %s |}" % (
            vlib.coq_string(iv.name), coq_bool(iv.enabled), vlib.fhex(iv.minimum), vlib.fhex(iv.maximum),
            vlib.coq_list(coq_term(t) for t in iv.terms), vlib.fhex(float(iv.value))))
    for ov, agg in zip(engine.output_variables, aggs):
        fz = vlib.coq_list("{| a_term := %s; a_degree := %s; a_implication := None |}" % (coq_term(a.term), vlib.fhex(float(a.degree))) for a in ov.fuzzy.terms)
        outs.append("{| ov_name := %s; ov_enabled := %s; ov_min := %s; ov_max := %s; ov_lock_range := false; ov_lock_previous := false; "
                    "ov_default := PrimFloat.nan; ov_aggregation := %s; ov_defuzzifier := None; ov_terms := %s; ov_value := PrimFloat.nan; "
                    "ov_previous := PrimFloat.nan; ov_fuzzy := %s |}" % (
                        vlib.coq_string(ov.name), coq_bool(ov.enabled), vlib.fhex(ov.minimum), vlib.fhex(ov.maximum), coq_snormx(agg),
                        vlib.coq_list(coq_term(t) for t in ov.terms), fz))
    return "{| e_name := \"g\"; e_inputs := %s; e_outputs := %s; e_blocks := [] |}" % (vlib.coq_list(ins), vlib.coq_list(outs))


# --------------------------------------------------------------------------- antecedent trees and their spellings
def gen_prop(rng, world, allow_extremely=True):
    vs = [v for v in world["vars"] if v["name"] != "z"]
    v = rng.choice(vs)
    nh = rng.choice([0, 0, 0, 1, 1, 2, 3])
    pool = HEDGES if allow_extremely else [h for h in HEDGES if h != "extremely"]
    hs = [rng.choice(pool) for _ in range(nh)]
    if rng.random() < 0.15:
        return ["prop", v["name"], hs, None]
    return ["prop", v["name"], hs, rng.choice(v["terms"])["name"] if v["terms"] else rng.choice(TERM_NAMES)]


def gen_tree(rng, world, depth, allow_extremely=True):
    if depth == 0 or rng.random() < 0.22:
        return gen_prop(rng, world, allow_extremely)
    return [rng.choice(["and", "or"]), gen_tree(rng, world, depth - 1, allow_extremely), gen_tree(rng, world, depth - 1, allow_extremely)]


def tree_depth(t):
    return 0 if t[0] == "prop" else 1 + max(tree_depth(t[1]), tree_depth(t[2]))


def tree_leaves(t):
    return 1 if t[0] == "prop" else tree_leaves(t[1]) + tree_leaves(t[2])


def prop_tokens(p):
    return [p[1], "is"] + list(p[2]) + [p[3] if p[3] is not None else "any"]


def infix_tokens(rng, t, lvl, style):
    if t[0] == "prop":
        body, need = prop_tokens(t), False
    elif t[0] == "or":
        body, need = infix_tokens(rng, t[1], 0, style) + ["or"] + infix_tokens(rng, t[2], 1, style), lvl > 0
    else:
        body, need = infix_tokens(rng, t[1], 1, style) + ["and"] + infix_tokens(rng, t[2], 2, style), lvl > 1
    wraps = 1 if need else 0
    if style != "minimal":
        while rng.random() < (0.3 if style == "redundant" else 0.85) and wraps < 3:
            wraps += 1
    return ["("] * wraps + body + [")"] * wraps


def spell(rng, toks, glue):
    out = []
    for i, tk in enumerate(toks):
        if i:
            paren = tk in "()" or toks[i - 1] in "()"
            if paren and rng.random() < glue:
                sep = ""
            else:
                sep = rng.choice([" ", " ", " ", " ", "  ", "\t"])
            out.append(sep)
        out.append(tk)
    return "".join(out)


def postfix_tokens(t):
    if t[0] == "prop":
        return prop_tokens(t)
    return postfix_tokens(t[1]) + postfix_tokens(t[2]) + [t[0]]


# --------------------------------------------------------------------------- the reference semantics, in Python
def sanitize(x):
    x = float(x)
    if x != x or x == -math.inf:
        return 0.0
    if x == math.inf:
        return 1.0
    return x


def spec_value(t, engine, conj, disj, hedge_objs):
    """Value of the antecedent tree according to the documented grammar semantics."""
    if t[0] == "prop":
        _, vname, hs, tname = t
        var = engine.variable(vname)
        if not var.enabled:
            return 0.0
        if tname is None:
            x = 1.0
        else:
            term = var.term(tname)
            if var in engine.input_variables:
                x = term.membership(var.value)
            else:
                agg = var.fuzzy.aggregation
                acc = None
                for act in var.fuzzy.terms:
                    if act.term.name == tname:
                        if acc is None:
                            acc = sanitize(act.degree)
                        else:
                            acc = sanitize(agg.compute(acc, act.degree) if agg else acc + float(act.degree))
                x = 0.0 if acc is None else acc
        for h in reversed(hs):
            x = hedge_objs[h].hedge(x)
        return x
    a = spec_value(t[1], engine, conj, disj, hedge_objs)
    b = spec_value(t[2], engine, conj, disj, hedge_objs)
    return (conj if t[0] == "and" else disj).compute(a, b)


def close(a, b):
    a, b = float(a), float(b)
    return (a != a and b != b) or a == b or abs(a - b) <= 1e-12 * max(1.0, abs(a), abs(b))


# --------------------------------------------------------------------------- one case on the implementation
WEIGHT_TEXTS = ["1.0", "1", None, "0.0", "0", "0.000", "-0.0", "0.5", "0.25", "2.0", "0.9999999999999999", "1.0000000000000002",
                "0.999", "1.001", "1e300", "1.7e308", "1e-300", "5e-324", "123456.789", "1e-9"]


def gen_weight_text(rng):
    k = rng.random()
    if k < 0.3:
        return rng.choice(["1.0", "1", None])
    if k < 0.5:
        return rng.choice(["0.0", "0", "0.000", "-0.0"])
    if k < 0.75:
        return repr(rng.random())
    return rng.choice(WEIGHT_TEXTS)


def rule_text(atext, wtext):
    return f"if {atext} then z is t" + ("" if wtext is None else f" with {wtext}")


def run_impl(engine, atext, conj, disj, wtext):
    """-> ("ok", postfix string, ("ok", degree) | ("err", kind)) | ("err", kind); the Rule object is left in run_impl.rule"""
    import fuzzylite as fl

    run_impl.rule = None
    run_impl.weight_read = None
    ant = fl.Antecedent(atext)
    try:
        ant.load(engine)
    except Exception as ex:  # noqa: BLE001
        return ("err", ERR.get(type(ex), "EInternal:" + type(ex).__name__))
    pf = ant.postfix()
    try:
        rule = fl.Rule.create(rule_text(atext, wtext), engine)
    except Exception as ex:  # noqa: BLE001
        return ("rule-create-failed", f"{type(ex).__name__}: {ex}")
    if rule.antecedent.postfix() != pf:
        return ("rule-create-failed", f"Rule.create read the antecedent differently: {rule.antecedent.postfix()!r} vs {pf!r}")
    run_impl.rule = rule
    run_impl.weight_read = rule.weight
    try:
        with np.errstate(all="ignore"):
            d = float(rule.activate_with(conj, disj))
    except Exception as ex:  # noqa: BLE001
        return ("ok", pf, ("err", ERR.get(type(ex), "EInternal:" + type(ex).__name__)))
    if not vlib.same_float(d, float(rule.activation_degree)):
        return ("rule-create-failed", "activate_with did not store its result in activation_degree")
    return ("ok", pf, ("ok", d))


ACTIVATIONS = ["General", "First", "Last", "Highest", "Lowest", "Proportional", "Threshold"]


def mk_activation(name, n):
    import fuzzylite as fl

    if name in ("First", "Last"):
        return getattr(fl, name)(rules=n, threshold=0.0)
    if name in ("Highest", "Lowest"):
        return getattr(fl, name)(rules=n)
    if name == "Threshold":
        return fl.Threshold(">=", 0.0)
    return getattr(fl, name)()


def block_check(engine, members, tn, sn, act_name, hedges):
    """Evaluate the rules THROUGH a rule block (conjunction/disjunction taken from the block by the activation method) and
    compare every rule.activation_degree with weight x documented antecedent value (Proportional: normalised by the sum of
    the positive ones).  members: [(rule, tree, weight, rule text)].  -> list of (what, detail dict)"""
    import fuzzylite as fl

    conj, disj = mk_norm(tn, True), mk_norm(sn, False)
    rules = [m[0] for m in members]
    rb = fl.RuleBlock(name="rb", rules=rules, conjunction=conj, disjunction=disj, implication=fl.Minimum(), activation=mk_activation(act_name, len(rules)))
    z = engine.output_variable("z")
    out = []
    try:
        with np.errstate(all="ignore"):
            rb.activate()
            got = [float(r.activation_degree) for r in rules]
    except Exception as ex:  # noqa: BLE001
        z.fuzzy.clear()
        return [(f"rule block with activation {act_name} raised {type(ex).__name__}: {ex}", {})]
    z.fuzzy.clear()
    with np.errstate(all="ignore"):
        want = [m[2] * float(spec_value(m[1], engine, conj, disj, hedges)) for m in members]
        if act_name == "Proportional":
            total = 0.0
            for w in want:
                if w > 0.0:
                    total += w
            want = [(w / total if w > 0.0 else w) for w in want]
    for m, g, w in zip(members, got, want):
        if not close(g, w):
            out.append((f"rule {m[3]!r} activated through a rule block (conjunction {tn}, disjunction {sn}, activation {act_name}"
                        f"{', degrees normalised' if act_name == 'Proportional' else ''}) has activation degree {g}, the grammar semantics gives {w}",
                        {"rule": m[3], "got": g, "want": w}))
    return out


def expected_lit(res):
    if res[0] == "err":
        return f"(Err {res[1].split(':')[0]})"
    pf = vlib.coq_list(vlib.coq_string(s) for s in res[1].split(" "))
    deg = f"(Ok {vlib.fhex(res[2][1])})" if res[2][0] == "ok" else f"(Err {res[2][1].split(':')[0]})"
    return f"(Ok ({pf}, {deg}))"


def malformed(rng, toks):
    toks = list(toks)
    k = rng.random()
    if k < 0.25:
        del toks[rng.randrange(len(toks))]
    elif k < 0.45:
        toks = toks[: rng.randrange(1, len(toks) + 1)]
        if rng.random() < 0.5 and toks[-1] not in ("is", "(", ")"):
            toks.append(rng.choice(["is", "is very", "is not very"]))
    elif k < 0.6:
        toks.insert(rng.randrange(len(toks) + 1), rng.choice(["(", ")", "and", "or", "is", "very", "any", ",", "nothing"]))
    elif k < 0.75:
        i, j = rng.randrange(len(toks)), rng.randrange(len(toks))
        toks[i], toks[j] = toks[j], toks[i]
    elif k < 0.85:
        toks = [t for t in toks if t != "("] if rng.random() < 0.5 else [t for t in toks if t != ")"]
        if not toks:
            toks = ["("]
    else:
        toks = postfix_tokens_from_infix_guess(toks)
    return toks


def postfix_tokens_from_infix_guess(toks):
    # an antecedent written directly in postfix order (accepted by the code, outside the grammar)
    import fuzzylite as fl

    try:
        return fl.Function.infix_to_postfix(" ".join(toks)).split() or ["("]
    except Exception:  # noqa: BLE001
        return toks + [")"]


# --------------------------------------------------------------------------- tokeniser + shunting-yard on formula-like text
SY_WORDS = ["a", "b1", "x", "2", "0.5", "3e-1", "lo", "is", "very", "and", "or", "max", "min", "pi", "sin", "pow", "atan2", "abs",
            "+", "-", "*", "/", "%", "^", "**", ".-", ".+", "!", "~", "(", ")", ",", "(", ")"]
SY_CHARS = "ab1x .()*+-/,^%!~\t"


def gen_sy_text(rng):
    k = rng.random()
    if k < 0.25:  # character soup
        return "".join(rng.choice(SY_CHARS) for _ in range(rng.randrange(0, 14)))
    if k < 0.55:  # token soup
        toks = [rng.choice(SY_WORDS) for _ in range(rng.randrange(1, 10))]
    else:  # a well-formed formula, sometimes damaged
        toks = gen_formula(rng, rng.randrange(0, 4))
        if rng.random() < 0.25 and toks:
            if rng.random() < 0.5:
                del toks[rng.randrange(len(toks))]
            else:
                toks.insert(rng.randrange(len(toks) + 1), rng.choice(["(", ")", ",", "+", "max"]))
    return "".join(t + rng.choice(["", "", " ", " ", "  "]) if (t[0] in "+-*/%^.!~(),") else t + rng.choice([" ", " ", "\t"]) for t in toks)


def gen_formula(rng, depth):
    k = rng.random()
    if depth == 0 or k < 0.2:
        return [rng.choice(["a", "b1", "2", "0.5", "pi", "x"])]
    if k < 0.55:
        op = rng.choice(["+", "-", "*", "/", "%", "^", "**", "and", "or"])
        return gen_formula(rng, depth - 1) + [op] + gen_formula(rng, depth - 1)
    if k < 0.65:
        return [rng.choice(["~", "!", ".-", ".+"])] + gen_formula(rng, depth - 1)
    if k < 0.8:
        return ["("] + gen_formula(rng, depth - 1) + [")"]
    if k < 0.9:
        return [rng.choice(["sin", "abs", "sqrt"]), "("] + gen_formula(rng, depth - 1) + [")"]
    return [rng.choice(["max", "pow", "atan2"]), "("] + gen_formula(rng, depth - 1) + [","] + gen_formula(rng, depth - 1) + [")"]


def sy_cases(ctx):
    import fuzzylite as fl

    lits, index = [], []
    seen = set()
    outcomes = {}
    for _ in range(ctx.n(600, 12000)):
        text = gen_sy_text(ctx.rng)
        if text in seen:
            continue
        seen.add(text)
        toks = fl.Function.format_infix(text).split()
        try:
            pf = fl.Function.infix_to_postfix(text).split()
            plit = "(Ok %s)" % vlib.coq_list(vlib.coq_string(t) for t in pf)
            oc = "ok"
        except Exception as ex:  # noqa: BLE001
            oc = ERR.get(type(ex), "EInternal:" + type(ex).__name__)
            plit = f"(Err {oc.split(':')[0]})"
            pf = oc
        outcomes[oc] = outcomes.get(oc, 0) + 1
        lits.append(f"({vlib.coq_string(text)}, {vlib.coq_list(vlib.coq_string(t) for t in toks)}, {plit})")
        index.append({"text": text, "format_infix": toks, "infix_to_postfix": pf})
    return lits, index, outcomes


# --------------------------------------------------------------------------- main
def run(ctx, build, verdict, ev):
    import fuzzylite as fl

    rng = ctx.rng
    obs = vlib.observed_module("hedge")
    real_hedges = {h: fl.settings.factory_manager.hedge.construct(h) for h in HEDGES}
    clone_hedges = {h: getattr(obs, h.capitalize())() for h in HEDGES}
    pairs = [(t, s) for t in TNORMS for s in SNORMS] + [(SHARP, SHARP)] * 12 + [(SHARP, s) for s in SNORMS[:3]] + [(t, SHARP) for t in TNORMS[:3]]
    n_rules = ctx.n(1500, 40000)
    n_worlds = ctx.n(150, 3000)
    lits, index, samples = [], [], []
    dist = {"depth": {}, "style": {}, "ops": {"registered": 0, "sharp": 0, "missing": 0}, "kind": {"grammar": 0, "malformed": 0, "odd-names": 0},
            "outcome": {}, "weights": {"zero": 0, "one": 0, "other": 0}, "block_checks": {}, "leaves>=4": 0, "with_output_variable": 0, "with_any": 0, "with_hedges": 0, "with_function_named_term": 0, "disabled_variable": 0}
    nontrivial = set()
    oracle_violations = 0
    clone_diff = 0
    oracle_entries = 0
    per_world = max(1, n_rules // n_worlds)
    pair_i = 0
    block_i = 0
    block_rules = 0
    case_no = 0
    while case_no < n_rules:
        odd = rng.random() < 0.06
        world = gen_world(rng, odd)
        engine = build_engine(world)
        elit = coq_engine(engine, world)
        world_rules = []
        for _ in range(per_world):
            if case_no >= n_rules:
                break
            case_no += 1
            depth = rng.choice([0, 1, 1, 2, 2, 3, 3, 4, 4])
            tree = gen_tree(rng, world, depth, allow_extremely=not odd)
            style = rng.choice(["minimal", "minimal", "redundant", "redundant", "full"])
            toks = infix_tokens(rng, tree, 0, style)
            kind = "odd-names" if odd else "grammar"
            if not odd and rng.random() < 0.06:
                kind = "malformed"
                toks = malformed(rng, toks)
            atext = spell(rng, toks, rng.choice([0.0, 0.5, 1.0]))
            tn, sn = pairs[pair_i % len(pairs)]
            pair_i += 1
            r = rng.random()
            if r < 0.02:
                tn = None
            elif r < 0.04:
                sn = None
            wtext = gen_weight_text(rng)
            weight = 1.0 if wtext is None else float(wtext)
            conj, disj = mk_norm(tn, True), mk_norm(sn, False)
            res = run_impl(engine, atext, conj, disj, wtext)
            replay = {"world": world, "antecedent": atext, "conjunction": tn, "disjunction": sn, "weight": weight, "weight_text": wtext,
                      "tree": tree if kind == "grammar" else None}
            if res[0] == "rule-create-failed":
                if kind == "grammar":
                    verdict.add_violation("rule:create", f"rule {rule_text(atext, wtext)!r} of the grammar could not be created: {res[1]}", replay)
                    oracle_violations += 1
                continue
            if run_impl.rule is not None:
                wr = run_impl.weight_read
                dist["weights"]["zero" if weight == 0.0 else ("one" if weight == 1.0 else "other")] += 1
                if not (isinstance(wr, float) and (wr == weight or (wr != wr and weight != weight))):
                    verdict.add_violation("rule:weight", f"rule {rule_text(atext, wtext)!r} has weight {wr!r}; the text says {weight!r}", replay)
                    oracle_violations += 1
            # ---- oracle table (libm pow of the hedge `extremely`) + the direct oracle
            tbl = []
            if kind == "grammar":
                want_pf = " ".join(postfix_tokens(tree))
                if res[0] != "ok":
                    verdict.add_violation("antecedent:load-rejected", f"antecedent {atext!r} of the grammar was rejected ({res[1]})", replay)
                    oracle_violations += 1
                else:
                    if res[1] != want_pf:
                        verdict.add_violation("antecedent:parse-tree", f"antecedent {atext!r} was read as {res[1]!r}, the grammar says {want_pf!r}", replay)
                        oracle_violations += 1
                    if tn is not None and sn is not None:
                        vlib.RECORDER.reset()
                        with np.errstate(all="ignore"):
                            want = weight * float(spec_value(tree, engine, conj, disj, clone_hedges))
                            tbl = vlib.RECORDER.take()
                            again = weight * float(spec_value(tree, engine, conj, disj, real_hedges))
                        if not vlib.same_float(want, again):
                            clone_diff += 1
                        if res[2][0] != "ok" or not close(res[2][1], want):
                            got = res[2][1]
                            verdict.add_violation("antecedent:degree", f"rule {rule_text(atext, wtext)!r} (conjunction {tn}, disjunction {sn}) "
                                                  f"activates with {got}, the grammar semantics gives {want}", {**replay, "got": str(got), "want": want})
                            oracle_violations += 1
                    if tn is not None and sn is not None and run_impl.rule is not None:
                        members = (world_rules[-2:] if rng.random() < 0.6 else []) + [(run_impl.rule, tree, weight, rule_text(atext, wtext))]
                        act_name = ACTIVATIONS[block_i % len(ACTIVATIONS)]
                        block_i += 1
                        dist["block_checks"][act_name] = dist["block_checks"].get(act_name, 0) + len(members)
                        block_rules += len(members)
                        for what, det in block_check(engine, members, tn, sn, act_name, real_hedges):
                            verdict.add_violation(f"block:{act_name}:degree", what,
                                                  {"block": {"world": world, "conjunction": tn, "disjunction": sn, "activation": act_name,
                                                             "rules": [[m[3], m[1], m[2]] for m in members]}, **det})
                            oracle_violations += 1
                        world_rules.append((run_impl.rule, tree, weight, rule_text(atext, wtext)))
                    elif res[2][0] == "ok":  # evaluated although an operator is missing: fine iff the tree does not need it
                        vlib.RECORDER.reset()
                        with np.errstate(all="ignore"):
                            try:
                                spec_value(tree, engine, conj or sharp_t(), disj or sharp_s(), clone_hedges)
                            except Exception:  # noqa: BLE001
                                pass
                        tbl = vlib.RECORDER.take()
            elif res[0] == "ok" and res[2][0] == "ok":
                # malformed text that still loads (e.g. postfix order): table from the loaded expression itself
                vlib.RECORDER.reset()
                with np.errstate(all="ignore"):
                    try:
                        for h in ("extremely",):
                            for x in collect_hedge_args(engine, atext, conj, disj):
                                clone_hedges[h].hedge(x)
                    except Exception:  # noqa: BLE001
                        pass
                tbl = vlib.RECORDER.take()
            oracle_entries += len(tbl)
            lits.append(f"({elit}, {vlib.coq_string(atext)}, {coq_tnormx(tn)}, {coq_snormx(sn)}, {vlib.fhex(weight)}, {expected_lit(res)}, {vlib.oracle_lit(tbl)})")
            index.append({"antecedent": atext, "conjunction": tn, "disjunction": sn, "weight": weight, "kind": kind, "impl": str(res[1:]), "replay": replay})
            # ---- statistics
            dist["kind"][kind] += 1
            dist["style"][style] = dist["style"].get(style, 0) + 1
            dist["depth"][str(tree_depth(tree))] = dist["depth"].get(str(tree_depth(tree)), 0) + 1
            dist["ops"]["missing" if tn is None or sn is None else ("sharp" if SHARP in (tn, sn) else "registered")] += 1
            oc = res[0] if res[0] != "ok" else ("loaded+" + res[2][0])
            if res[0] == "err":
                oc = "load:" + res[1]
            elif res[2][0] == "err":
                oc = "eval:" + res[2][1]
            dist["outcome"][oc] = dist["outcome"].get(oc, 0) + 1
            if kind == "grammar":
                props = all_props(tree)
                outs = {v["name"] for v in world["vars"] if v["kind"] == "out"}
                dis = {v["name"] for v in world["vars"] if not v["enabled"]}
                dist["leaves>=4"] += tree_leaves(tree) >= 4
                dist["with_output_variable"] += any(p[1] in outs for p in props)
                dist["with_any"] += any(p[3] is None for p in props)
                dist["with_hedges"] += any(p[2] for p in props)
                dist["with_function_named_term"] += any(p[3] in ("max", "pi", "min", "abs", "pow") for p in props)
                dist["disabled_variable"] += any(p[1] in dis for p in props)
                if res[0] == "ok" and res[2][0] == "ok":
                    d = res[2][1]
                    if d == d and 0.0 < d < math.inf and (tree[0] != "prop" or tree[2]):
                        nontrivial.add((atext, tn, sn, weight, elit))
            if len(samples) < 6 and case_no % max(1, n_rules // 6) == 1:
                samples.append({"antecedent": atext, "conjunction": tn, "disjunction": sn, "weight": weight, "implementation": str(res[1:])})
    if clone_diff:
        verdict.add_broken("harness", "observer-clone", f"observer clone of hedge.py disagrees with the real hedges on {clone_diff} antecedents")
    sy_lits, sy_index, sy_outcomes = sy_cases(ctx)
    bad, log = ([], "") if build.translation_errors else vlib.run_coq_cases(
        ctx.work, "c06", IMPORTS, [("c06_case", "c06_check", lits), ("c06_sy_case", "c06_sy_check", sy_lits)], chunk=ctx.n(100, 250))
    mism, sy_mism = [], []
    for i in bad:
        if i < 0:
            verdict.add_broken("correspondence", "C06:coq-evaluation", log)
            break
        if i < len(index):
            mism.append(index[i])
        else:
            sy_mism.append(sy_index[i - len(index)])
    if sy_mism:
        verdict.add_broken("correspondence", "C06:shunting-yard-model",
                           f"Function.format_infix / infix_to_postfix and Model/ShuntingYard.v differ on {len(sy_mism)} of {len(sy_index)} texts; first: {sy_mism[:3]}")
    if mism:
        m = mism[0]
        verdict.add_broken("correspondence", "C06:antecedent-model",
                           f"model and implementation differ on {len(mism)} of {len(index)} cases; first: antecedent {m['antecedent']!r} "
                           f"conjunction {m['conjunction']} disjunction {m['disjunction']} weight {m['weight']} ({m['kind']}): implementation gives {m['impl']}; "
                           f"replay data: {m['replay']}")
    c = ev["coverage"]
    c["evaluations"] = len(index) + len(sy_index)
    c["rule_block_activations"] = block_rules
    c["shunting_yard_texts"] = {"count": len(sy_index), "outcomes": sy_outcomes}
    c["distinct_nontrivial"] = len(nontrivial)
    c["rule"] = ("random engines (1-3 variables, inputs and outputs with a pre-filled fuzzy output, Triangle/Trapezoid/Rectangle/Ramp terms, "
                 "term names incl. max/pi/min/abs/pow) x random antecedent trees of depth 0-4 (0-3 hedges, any) written with minimal/redundant/full "
                 "parentheses, glued or spaced x all 7x9 registered operator pairs + non-commutative lambda operators x weights; "
                 "non-trivial = distinct (engine, text, operators, weight) of the grammar with a finite activation degree > 0 and at least one connective or hedge")
    c["distribution"] = dist
    c["oracle_entries"] = oracle_entries
    c["correspondence_mismatches"] = len(mism) + len(sy_mism)
    c["oracle_violations"] = oracle_violations
    c["samples"] = samples
    ev["assumptions"] += [
        "antecedent text is ASCII; libm pow(x, 2) of the hedge `extremely` is taken from the implementation (oracle table)",
        "term membership kernels (Triangle/Trapezoid/Rectangle/Ramp) are the generated ones (property C03); norm and hedge kernels are the generated ones (C04, C05)",
        "names in the theorems: variables are not formula-table keys, names are unambiguous, terms are not named like hedges (names_ok)",
    ]


def all_props(t):
    return [t] if t[0] == "prop" else all_props(t[1]) + all_props(t[2])


def collect_hedge_args(engine, atext, conj, disj):
    """Arguments the hedge `extremely` may receive while the implementation evaluates a loaded (non-grammar) antecedent:
    replays the loaded expression tree bottom-up with the real hedge objects."""
    import fuzzylite as fl

    ant = fl.Antecedent(atext)
    ant.load(engine)
    args = []

    def walk(node):
        if isinstance(node, fl.Proposition):
            if not node.variable.enabled:
                return
            if node.hedges and isinstance(node.hedges[-1], fl.Any):
                x = math.nan
            elif isinstance(node.variable, fl.InputVariable):
                x = node.term.membership(node.variable.value)
            else:
                x = node.variable.fuzzy.activation_degree(node.term)
            for h in reversed(node.hedges):
                if h.name == "extremely":
                    args.append(x)
                x = h.hedge(x)
        else:
            walk(node.left)
            walk(node.right)

    walk(ant.expression)
    return args


def replay(ctx, data):
    import fuzzylite as fl

    hs = {h: fl.settings.factory_manager.hedge.construct(h) for h in HEDGES}
    for v in data.get("violations", []):
        print(v["what"])
        r = v["replay"]
        if "block" in r:
            b = r["block"]
            engine = build_engine(b["world"])
            members = [(fl.Rule.create(text, engine), tree, weight, text) for text, tree, weight in b["rules"]]
            now = block_check(engine, members, b["conjunction"], b["disjunction"], b["activation"], hs)
            print("  now:", [w for w, _ in now] or "agrees with the grammar semantics")
        elif "world" in r:
            engine = build_engine(r["world"])
            conj, disj = mk_norm(r["conjunction"], True), mk_norm(r["disjunction"], False)
            wtext = r.get("weight_text", repr(r["weight"]))
            res = run_impl(engine, r["antecedent"], conj, disj, wtext)
            print("  now:", res, " rule.weight =", run_impl.weight_read, " (text says", r["weight"], ")")
            if r.get("tree") and conj is not None and disj is not None:
                with np.errstate(all="ignore"):
                    print("  grammar semantics:", r["weight"] * float(spec_value(r["tree"], engine, conj, disj, hs)), " postfix:", " ".join(postfix_tokens(r["tree"])))
    for b in data.get("broken", []):
        print("BROKEN", b["kind"], b["name"], "\n", b["detail"][:3000])
    return 0
