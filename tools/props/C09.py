"""C09 — integral defuzzifiers return the defined point of the sampled fuzzy set.

Correspondence: the REAL Bisector/Centroid/LargestOfMaximum/MeanOfMaximum/SmallestOfMaximum.defuzzify are driven
(a) with a harness Term whose membership() returns a prepared sample matrix and (b) with real Aggregated sets of 0-5
Activated algebraic terms; the implementation's own membership samples are handed to the Coq model
(Model/NpSum.v + Model/Defuzz.v read over binary64) and the results are compared bit for bit (NaN = NaN, -0 = +0).
Direct oracle: exact rational closed forms, range, SOM <= MOM <= LOM, NaN <=> all samples zero, translation of the
centroid, batch = rows, stated on the public API with a tolerance relative to the range.
"""
from __future__ import annotations

import math
import warnings
from fractions import Fraction

import numpy as np

import vlib

COQ_TARGETS = ["Proofs/DefuzzProofs.vo"]
KINDS = ["Bisector", "Centroid", "LargestOfMaximum", "MeanOfMaximum", "SmallestOfMaximum"]  # order of Core.integral_kind
TNORMS = ["AlgebraicProduct", "BoundedDifference", "DrasticProduct", "EinsteinProduct", "HamacherProduct", "Minimum", "NilpotentMinimum"]
SNORMS = ["AlgebraicSum", "BoundedSum", "DrasticSum", "EinsteinSum", "HamacherSum", "Maximum", "NilpotentMaximum", "NormalizedSum", "UnboundedSum"]

IMPORTS = """From VF Require Import Core NpSum Defuzz.
Import ListNotations.
Definition NF : Num float := NumF true [].
Definition kind_of (k : Z) : integral_kind :=
  match k with 0%Z => Bisector | 1%Z => Centroid | 2%Z => LargestOfMaximum | 3%Z => MeanOfMaximum | _ => SmallestOfMaximum end.
Fixpoint lfeq (a b : list float) : bool :=
  match a, b with [] , [] => true | x :: a', y :: b' => feq x y && lfeq a' b' | _, _ => false end.
Definition check_row (r : Z) (lo hi : float) (ys : list float) (es : list (Z * float)) : bool :=
  match @midpoints float NF lo hi (Z.to_nat r) with
  | Ok xs => forallb (fun ke => match @defuzzify_samples float NF (kind_of (fst ke)) xs ys with
                                | Ok z => feq z (snd ke) | Err _ => false end) es
  | Err _ => false
  end.
Definition fopt (o : result float) : float := match o with Ok z => z | Err _ => 0x1.deadbeefp-900%float end."""

ROW_T = "Z * float * float * list float * list (Z * float)"
ROW_CHECK = "fun c => let '(r, lo, hi, ys, es) := c in check_row r lo hi ys es"
MID_T = "Z * float * float * list float"
MID_CHECK = "fun c => let '(r, lo, hi, xs) := c in match @midpoints float NF lo hi (Z.to_nat r) with Ok m => lfeq m xs | Err _ => false end"
RED_T = "list float * list float"
RED_CHECK = ("fun c => let '(ys, es) := c in lfeq [ @np_sum float NF ys; @nanmean float NF ys; fopt (@last_elem float (@nancumsum float NF ys)); "
             "fopt (@amin float NF ys); fopt (@amax float NF ys); fopt (@nanmin float NF ys); fopt (@nanmax float NF ys) ] es")


def flist(v) -> str:
    return vlib.coq_list([vlib.fhex(float(x)) for x in v])


# --------------------------------------------------------------------------- the harness terms
def make_samples_term(fl, ys):
    """A Term whose membership() returns the prepared sample matrix `ys` ((r,) or (k, r)).  It records every x it is
    called with; when it is asked for a different number of sample points than it was prepared for (a defuzzifier that
    ignores its resolution) it answers with zeros of the matching shape, so that the run continues."""

    class Samples(fl.Term):
        def __init__(self, values):
            super().__init__("samples")
            self.values = np.asarray(values, dtype=float)
            self.seen = []

        def membership(self, x):
            x = np.array(x, dtype=float, copy=True)
            self.seen.append(x)
            n = x.shape[-1] if x.ndim else 1
            if n != self.values.shape[-1]:
                return np.zeros(self.values.shape[:-1] + (n,))
            return self.values

    return Samples(ys)


def make_spy_term(fl, inner):
    """Delegates membership() to the real term and records every x it is called with."""

    class Spy(fl.Term):
        def __init__(self):
            super().__init__("spy")
            self.inner = inner
            self.seen = []

        def membership(self, x):
            self.seen.append(np.array(x, dtype=float, copy=True))
            return self.inner.membership(x)

    return Spy()


class Run:
    """What the five real defuzzifiers did on one term: values[kind] (1-d array, [nan] when the call failed),
    bad[kind] = (signature, what) for a call that raised or sampled the set at another resolution, xs[kind] = last x."""

    def __init__(self):
        self.values, self.bad, self.xs = {}, {}, {}

    def __getitem__(self, kind):
        return self.values[kind]


def defuzz_all(fl, term, lo, hi, r, kinds=None):
    run = Run()
    with warnings.catch_warnings(), np.errstate(all="ignore"):
        warnings.simplefilter("ignore")
        for kind in kinds or KINDS:
            if hasattr(term, "seen"):
                term.seen = []
            try:
                run.values[kind] = np.atleast_1d(np.asarray(getattr(fl, kind)(r).defuzzify(term, lo, hi), dtype=float))
            except Exception as e:  # an unexpected exception is a failing input of this case, not a crash of the run
                run.values[kind] = np.array([math.nan])
                run.bad[kind] = (f"{kind}:exception", f"{kind}({r}).defuzzify on [{lo},{hi}] raised {type(e).__name__}: {e}")
                continue
            seen = getattr(term, "seen", None)
            if seen is not None:
                lengths = [int(x.shape[-1]) if x.ndim else 1 for x in seen]
                run.xs[kind] = seen[-1] if seen else None
                if not seen or any(n != r for n in lengths):
                    run.bad[kind] = (f"{kind}:resolution-ignored",
                                     f"{kind}({r}).defuzzify on [{lo},{hi}] sampled the set at {lengths} points instead of its resolution {r}")
    return run


def own_midpoints(lo, hi, r):
    """The documented sample points, computed here (not by Op.midpoints): lo + (i + 1/2) (hi - lo) / r."""
    return lo + (np.arange(r, dtype=float) + 0.5) * ((hi - lo) / r)


# --------------------------------------------------------------------------- generators
PATTERNS = ["random", "levels", "plateau", "multimax", "zeros", "spike", "sparse", "clipped", "symmetric", "tiny", "big", "signed_zero", "special"]


def gen_row(rng, r, pattern):
    if pattern == "random":
        return [rng.random() for _ in range(r)]
    if pattern == "levels":
        lv = rng.choice([[0.0, 0.25, 0.5, 1.0], [0.0, 1.0], [0.1, 0.2], [0.0, 0.3, 0.3, 0.7]])
        return [rng.choice(lv) for _ in range(r)]
    if pattern == "plateau":
        ys, v = [], rng.random()
        for _ in range(r):
            if rng.random() < 0.15:
                v = rng.choice([0.0, rng.random(), 1.0])
            ys.append(v)
        return ys
    if pattern == "multimax":
        top = rng.choice([1.0, rng.random() * 0.9 + 0.1])
        ys = [top * rng.random() * 0.999 for _ in range(r)]
        for _ in range(rng.randint(1, max(1, min(6, r)))):
            ys[rng.randrange(r)] = top
        return ys
    if pattern == "zeros":
        return [0.0] * r
    if pattern == "spike":
        ys = [0.0] * r
        ys[rng.choice([0, r - 1, rng.randrange(r)])] = rng.choice([1.0, rng.random(), 5e-324])
        return ys
    if pattern == "sparse":
        return [rng.random() if rng.random() < 0.1 else 0.0 for _ in range(r)]
    if pattern == "clipped":
        a, b = sorted((rng.uniform(-0.5, 1.5), rng.uniform(-0.5, 1.5)))
        w = max(b - a, 1e-3)
        h = rng.choice([1.0, rng.random()])
        return [h * min(1.0, max(0.0, min((i / r - a) / w * 3, (b - i / r) / w * 3))) for i in range(r)]
    if pattern == "symmetric":
        half = [rng.choice([0.0, 0.5, 1.0, rng.random()]) for _ in range((r + 1) // 2)]
        return (half + half[::-1][r % 2:])[:r]
    if pattern == "tiny":
        return [rng.random() * 10.0 ** rng.randint(-320, -290) for _ in range(r)]
    if pattern == "big":
        return [rng.random() * rng.choice([1.0, 5.0, 1e3]) for _ in range(r)]
    if pattern == "signed_zero":
        return [rng.choice([0.0, -0.0, 0.0, rng.random() if rng.random() < 0.3 else -0.0]) for _ in range(r)]
    if pattern == "special":  # outside the property's domain (memberships are numbers >= 0): correspondence only
        return [rng.choice([rng.random(), 0.0, math.nan, math.inf, -1.0, -math.inf]) if rng.random() < 0.2 else rng.random() for _ in range(r)]
    raise KeyError(pattern)


def gen_range(rng):
    k = rng.randrange(12)
    if k == 0:
        return 0.0, 1.0
    if k == 1:
        return -1.0, 1.0
    if k == 2:
        a = rng.uniform(-100, 100)
        return a, a + rng.uniform(0.1, 50)
    if k == 3:
        a = -rng.uniform(1, 1000)
        return a, a / 2
    if k == 4:  # tiny width
        a = rng.uniform(-1, 1)
        return a, a + rng.random() * 10.0 ** rng.randint(-12, -6)
    if k == 5:  # huge
        a = rng.uniform(-1, 1) * 10.0 ** rng.randint(6, 300)
        return a, a + abs(a) * rng.uniform(0.5, 3)
    if k == 6:  # far from the origin, narrow
        a = rng.choice([-1, 1]) * 10.0 ** rng.randint(3, 9)
        return a, a + rng.uniform(0.5, 10)
    if k == 7:  # around zero, sub-normal scale
        return -rng.random() * 1e-300, rng.random() * 1e-300
    if k == 8:  # dyadic
        a = rng.randint(-64, 64) / 8
        return a, a + rng.randint(1, 64) / 8
    if k == 9:  # degenerate
        a = rng.uniform(-10, 10)
        return a, a
    a, b = sorted((rng.uniform(-10, 10), rng.uniform(-10, 10)))
    return a, b


def resolutions(ctx):
    rng = ctx.rng
    small = list(range(1, 65))
    edges = [65, 71, 72, 127, 128, 129, 135, 136, 137, 143, 144, 255, 256, 257, 263, 264, 265, 511, 512, 513, 1000]
    sampled = [rng.randrange(65, 1001) for _ in range(ctx.n(24, 400))]
    return small, edges + sampled


ALGEBRAIC = ["Triangle", "Trapezoid", "Rectangle", "Ramp"]


def gen_aggregated_spec(rng, batch):
    """A JSON-able description of an Aggregated set of 0-5 activated algebraic terms over a moderate range."""
    lo = rng.choice([0.0, -1.0, rng.uniform(-50, 50), rng.randint(-640, 640) / 64])
    w = rng.choice([1.0, 2.0, rng.uniform(0.5, 20), rng.randint(1, 640) / 64])
    hi = lo + w
    n = rng.choice([0, 1, 1, 2, 2, 3, 4, 5])
    k = rng.choice([2, 3, 4]) if batch else 1
    terms = []
    for _ in range(n):
        cls = rng.choice(ALGEBRAIC)
        pts = sorted(lo + w * rng.uniform(-0.2, 1.2) for _ in range(4))
        if rng.random() < 0.3:  # dyadic vertices (exact translation)
            pts = sorted(lo + rng.randint(-13, 77) * w / 64 for _ in range(4))
        if cls == "Triangle":
            params = pts[:3]
        elif cls == "Trapezoid":
            params = pts
        elif cls == "Rectangle":
            params = [pts[0], pts[2]]
        else:
            params = [pts[0], pts[2]] if rng.random() < 0.5 else [pts[2], pts[0]]
        if params[0] == params[-1]:
            params[-1] = params[0] + w / 8
        height = rng.choice([1.0, 1.0, rng.uniform(0.1, 1.0)])
        if batch and rng.random() < 0.8:
            degree = [rng.choice([0.0, 1.0, rng.random(), rng.random()]) for _ in range(k)]
        else:
            degree = rng.choice([0.0, 1.0, rng.random(), rng.random(), rng.random()])
        terms.append({"cls": cls, "params": params, "height": height, "degree": degree, "implication": rng.choice(TNORMS)})
    if batch and terms and not any(isinstance(t["degree"], list) for t in terms):
        terms[0]["degree"] = [rng.random() for _ in range(k)]
    return {"lo": lo, "hi": hi, "aggregation": rng.choice(SNORMS), "terms": terms, "k": k if any(isinstance(t["degree"], list) for t in terms) else 1}


def build_aggregated(fl, spec, shift=0.0, row=None):
    terms = []
    for t in spec["terms"]:
        term = getattr(fl, t["cls"])("t", *[p + shift for p in t["params"]], height=t["height"])
        d = t["degree"]
        if isinstance(d, list):
            d = np.array(d) if row is None else float(d[row])
        terms.append(fl.Activated(term, d, getattr(fl, t["implication"])()))
    return fl.Aggregated("agg", spec["lo"] + shift, spec["hi"] + shift, getattr(fl, spec["aggregation"])(), terms)


# --------------------------------------------------------------------------- exact reference (direct oracle)
def exact_reference(lo, hi, r, ys):
    """Closed forms in rational arithmetic from the float samples ys (>= 0, finite) at the exact midpoints."""
    F = Fraction
    flo, fhi = F(lo), F(hi)
    xs = [flo + (fhi - flo) * F(2 * i + 1, 2 * r) for i in range(r)]
    fy = [F(float(y)) for y in ys]
    tot = sum(fy)
    ref = {}
    if tot == 0:
        return {k: None for k in KINDS}, xs
    ref["Centroid"] = sum(x * y for x, y in zip(xs, fy)) / tot
    m = max(fy)
    arg = [x for x, y in zip(xs, fy) if y == m and y > 0]
    ref["SmallestOfMaximum"] = min(arg)
    ref["LargestOfMaximum"] = max(arg)
    ref["MeanOfMaximum"] = sum(arg) / len(arg)
    acc, dist = F(0), []
    for y in fy:
        acc += y
        dist.append(abs(acc / tot - F(1, 2)))
    dmin = min(dist)
    near = [x for x, d in zip(xs, dist) if d <= dmin + F(1, 10**9)]
    strict = [x for x, d in zip(xs, dist) if d == dmin]
    # a tie between best-halving points survives binary64 only if every normalised cumulative sum C_i / C_r is a
    # binary64 number (then |C_i/C_r - 1/2| is computed exactly); otherwise rounding may legitimately break the tie and
    # the implementation returns the mean of SOME of the tied points
    acc, exact = F(0), True
    for y in fy:
        acc += y
        q = acc / tot
        exact = exact and F(float(acc)) == acc and F(float(q)) == q
    ref["Bisector"] = (near, sum(strict) / len(strict), exact and len(near) == len(strict))
    return ref, xs


def is_subset_mean(z, pts, tol):
    """z is the mean of a non-empty subset of pts (pts sorted ascending, few)."""
    pts = [float(p) for p in pts]
    if len(pts) > 12:
        return pts[0] - tol <= z <= pts[-1] + tol
    n = len(pts)
    for mask in range(1, 1 << n):
        sel = [pts[i] for i in range(n) if mask >> i & 1]
        if abs(sum(sel) / len(sel) - z) <= tol:
            return True
    return False


def tolerance(lo, hi):
    return 1e-9 * abs(hi - lo) + 1e-12 * max(abs(lo), abs(hi)) + 1e-300


class Oracle:
    def __init__(self, verdict):
        self.verdict = verdict
        self.n = 0
        self.checks = 0

    def fail(self, sig, what, replay):
        self.n += 1
        self.verdict.add_violation(sig, what, replay)

    def report(self, run, replay):
        """the calls that raised or ignored the resolution are violations with this case as replay"""
        for kind, (sig, what) in run.bad.items():
            self.fail(sig, what, dict(replay, kind=kind))

    def check_row(self, lo, hi, r, ys, res, replay, skip=()):
        """res: {kind: float} results of the real defuzzifiers for one set with samples ys (all finite, >= 0)."""
        tol = tolerance(lo, hi)
        ref, _ = exact_reference(lo, hi, r, ys)
        allzero = all(float(y) == 0.0 for y in ys)
        for kind in KINDS:
            if kind in skip:
                continue
            z = res[kind]
            self.checks += 1
            rp = dict(replay, kind=kind)
            if (z != z) != allzero:
                self.fail(f"{kind}:nan-iff-zero", f"{kind}({r}) on [{lo},{hi}] = {z} while the samples are {'all zero' if allzero else 'not all zero'}", rp)
                continue
            if allzero:
                continue
            if not (lo - tol <= z <= hi + tol):
                self.fail(f"{kind}:range", f"{kind}({r}) = {z} outside [{lo},{hi}]", rp)
            want = ref[kind]
            if kind == "Bisector":
                near, mean_strict, robust = want
                ok = abs(z - float(mean_strict)) <= tol if robust else is_subset_mean(z, near, tol)
                if not ok:
                    self.fail("Bisector:formula", f"Bisector({r}) on [{lo},{hi}] = {z}, the best halving points are {[float(p) for p in near][:6]} "
                              f"(mean of the exact ties {float(mean_strict)}, ties {'exact in binary64' if robust else 'subject to rounding'})", rp)
            elif abs(z - float(want)) > tol:
                self.fail(f"{kind}:formula", f"{kind}({r}) on [{lo},{hi}] = {z}, defined value {float(want)}", rp)
        if not allzero and not {"SmallestOfMaximum", "MeanOfMaximum", "LargestOfMaximum"} & set(skip):
            s, m, l = res["SmallestOfMaximum"], res["MeanOfMaximum"], res["LargestOfMaximum"]
            if not (s <= m + tol and m <= l + tol):
                self.fail("maxima:order", f"SOM <= MOM <= LOM fails at resolution {r} on [{lo},{hi}]: {s}, {m}, {l}", dict(replay, kind="MeanOfMaximum"))


# --------------------------------------------------------------------------- the run
def run(ctx, build, verdict, ev):
    import fuzzylite as fl

    rng = ctx.rng
    oracle = Oracle(verdict)
    small_cases, large_cases, index = [], [], {}
    mids, reds = [], []
    dist = {p: 0 for p in PATTERNS}
    dist.update({"rows_scalar": 0, "rows_batch": 0, "aggregated_scalar": 0, "aggregated_batch": 0, "aggregated_empty": 0,
                 "midpoint_vectors": 0, "reduction_vectors": 0, "translation_checks": 0, "batch_row_checks": 0})
    nontrivial = set()
    samples_out = []
    evaluations = 0

    def add_case(r, lo, hi, ys, results, info, skip=()):
        nonlocal evaluations
        kinds = [(i, k) for i, k in enumerate(KINDS) if k not in skip]   # calls that failed are reported, not compared
        if not kinds:
            return
        es = vlib.coq_list([f"({i}%Z, {vlib.fhex(results[k])})" for i, k in kinds])
        lit = f"({r}%Z, {vlib.fhex(lo)}, {vlib.fhex(hi)}, {flist(ys)}, {es})"
        (small_cases if r <= 64 else large_cases).append((lit, dict(info, r=r, lo=lo, hi=hi, ys=[float(y) for y in ys], results={k: float(results[k]) for k in KINDS})))
        evaluations += len(kinds)
        pos = sum(1 for y in ys if y > 0)
        for _, k in kinds:
            z = results[k]
            if z == z and pos >= 2:
                nontrivial.add((k, r, lo, hi, hash(tuple(float(y) for y in ys))))

    def guarded(case_fn, replay, what):
        """an unexpected exception of the implementation (or of the harness) fails this case, not the whole run"""
        try:
            case_fn()
        except Exception as e:
            import traceback
            oracle.fail("case:exception", f"{what}: unexpected {type(e).__name__}: {e} at {traceback.format_exc().strip().splitlines()[-3].strip()}", replay)

    # ---- (a) prepared sample vectors through the harness term
    def case_samples(r, pattern, lo, hi, k, rows):
        replay = {"mode": "samples", "r": r, "lo": lo, "hi": hi, "rows": rows}
        Y = np.array(rows[0]) if k == 1 else np.array(rows)
        assert Y.flags["C_CONTIGUOUS"]
        term = make_samples_term(fl, Y)
        res = defuzz_all(fl, term, lo, hi, r)
        oracle.report(res, replay)
        skip = set(res.bad)
        x_impl = np.asarray(fl.Op.midpoints(lo, hi, r), dtype=float)
        for kind in KINDS:
            x_seen = res.xs.get(kind)
            if kind not in skip and not (x_seen.shape == (1, r) and all(vlib.same_float(a, b) for a, b in zip(x_seen[0], x_impl))):
                oracle.fail(f"{kind}:sample-points", f"{kind}({r}).defuzzify on [{lo},{hi}] did not sample the set at atleast_2d(Op.midpoints(min, max, r))", dict(replay, kind=kind))
                skip.add(kind)
        if x_impl.shape == (r,) and (r <= 64 or rng.random() < 0.25):
            mids.append((f"({r}%Z, {vlib.fhex(lo)}, {vlib.fhex(hi)}, {flist(x_impl)})", dict(r=r, lo=lo, hi=hi)))
            dist["midpoint_vectors"] += 1
        for kind in KINDS:
            if kind not in skip and res[kind].shape != (k,):
                oracle.fail("batch:shape", f"{kind}({r}) of {k} sets returned shape {res[kind].shape}", dict(replay, kind=kind))
                skip.add(kind)
        clean = pattern != "special"
        for j, row in enumerate(rows):
            results = {kind: float(res[kind][j]) if kind not in skip else math.nan for kind in KINDS}
            add_case(r, lo, hi, row, results, {"mode": "samples", "pattern": pattern, "batch": k, "row": j}, skip)
            dist["rows_batch" if k > 1 else "rows_scalar"] += 1
            if k > 1:  # batch = rows inside the implementation, bit for bit (same samples)
                single = defuzz_all(fl, make_samples_term(fl, np.array(row)), lo, hi, r, [kind for kind in KINDS if kind not in skip])
                dist["batch_row_checks"] += 1
                for kind in KINDS:
                    if kind not in skip and kind not in single.bad and not vlib.same_float(single[kind][0], results[kind]):
                        oracle.fail("batch:rows", f"{kind}({r}): row {j} of a batch of {k} sets gives {results[kind]}, the set alone gives {single[kind][0]}",
                                    dict(replay, kind=kind, row=j))
            # the tolerance oracle needs samples whose products with x do not underflow (sub-normal samples are
            # covered by the bit-exact correspondence only)
            row_ok = clean and all(math.isfinite(y) and (y == 0 or y >= 1e-280) for y in row)
            if row_ok and lo < hi and math.isfinite(hi - lo) and (hi - lo) > 1e-200 and r <= ctx.n(300, 1000):
                oracle.check_row(lo, hi, r, row, results, {"mode": "samples", "r": r, "lo": lo, "hi": hi, "rows": [row]}, skip)
        if len(samples_out) < 3 and r in (5, 40, 300 if r >= 300 else -1):
            samples_out.append({"mode": "samples", "pattern": pattern, "r": r, "lo": lo, "hi": hi, "batch": k, "first_samples": rows[0][:6],
                                "results_row0": {kind: float(res[kind][0]) for kind in KINDS}})
        if r <= 300 and rng.random() < 0.15 and all(math.isfinite(v) or v != v for v in rows[0]):
            ys = rows[0]
            with warnings.catch_warnings(), np.errstate(all="ignore"):
                warnings.simplefilter("ignore")
                a2 = np.atleast_2d(np.array(ys))
                several = np.array([ys, ys[::-1], ys])
                e = [a2.sum(axis=1)[0], np.nanmean(a2, axis=1)[0], np.nancumsum(a2, axis=1)[0, -1], a2.min(axis=1)[0], a2.max(axis=1)[0],
                     np.nanmin(a2, axis=1)[0], np.nanmax(a2, axis=1)[0]]
                if not (vlib.same_float(several.sum(axis=1)[0], e[0]) and vlib.same_float(several.sum(axis=1)[2], e[0])):
                    verdict.add_broken("harness", "numpy-sum-rows", f"ndarray.sum(axis=1) of a (3, {r}) array differs from the one-row sum")
            reds.append((f"({flist(ys)}, {flist(e)})", dict(r=r, ys=ys)))
            dist["reduction_vectors"] += 1

    small, large = resolutions(ctx)
    plan = [(r, ctx.n(9, 40)) for r in small] + [(r, ctx.n(3, 6)) for r in large]
    for r, count in plan:
        pats = [rng.choice(PATTERNS) for _ in range(count)]
        if r in (1, 2, 3, 7, 8, 9, 16, 64, 128, 129, 1000):
            pats = list(dict.fromkeys(pats + ["zeros", "spike", "multimax", "symmetric"]))
        for pattern in pats:
            lo, hi = gen_range(rng)
            k = rng.choice([1, 1, 1, 2, 3, 5]) if r <= 200 else rng.choice([1, 1, 2])
            rows = [gen_row(rng, r, pattern if j == 0 else rng.choice([pattern, "random", "zeros"])) for j in range(k)]
            dist[pattern] += 1
            guarded(lambda: case_samples(r, pattern, lo, hi, k, rows), {"mode": "samples", "r": r, "lo": lo, "hi": hi, "rows": rows},
                    f"prepared samples ({pattern}) at resolution {r} on [{lo},{hi}]")

    # ---- (b) real Aggregated sets of 0-5 activated algebraic terms
    #      correspondence: the samples the defuzzifier itself obtains (Op.midpoints at its resolution) go to the model;
    #      direct oracle: the documented value is computed from this module's OWN midpoints at the defuzzifier's resolution
    def case_aggregated(spec, replay):
        r, lo, hi, k = spec["r"], spec["lo"], spec["hi"], spec["k"]
        agg = build_aggregated(fl, spec)
        res = defuzz_all(fl, make_spy_term(fl, agg), lo, hi, r)
        oracle.report(res, replay)
        failed = {kind for kind, (sig, _) in res.bad.items() if sig.endswith(":exception")}
        skip = set(res.bad)
        x_impl = np.atleast_2d(fl.Op.midpoints(lo, hi, r))
        x_own = np.atleast_2d(own_midpoints(lo, hi, r))
        with np.errstate(all="ignore"):
            Y = np.atleast_2d(np.asarray(agg.membership(x_impl), dtype=float))
            Y_own = np.atleast_2d(np.asarray(agg.membership(x_own), dtype=float))
        if not spec["terms"]:
            dist["aggregated_empty"] += 1
            Y = np.zeros((1, r))  # Aggregated.membership of the empty set is the scalar 0.0, which broadcasts
            Y_own = np.zeros((1, r))
        if k > 1 and r == 1:
            # (k,1) memberships are squeezed to (k,) by Activated.membership and read as ONE row of k samples
            rows_alone = [defuzz_all(fl, build_aggregated(fl, spec, row=j), lo, hi, r) for j in range(k)]
            for kind in KINDS:
                if kind in failed:
                    continue
                want = [float(rows_alone[j][kind][0]) for j in range(k)]
                got = res[kind]
                if got.shape != (k,) or not all(vlib.same_float(a, b) for a, b in zip(got, want)):
                    oracle.fail("batch:resolution-1", f"{kind}(1) of a batch of {k} sets returns {got.tolist()}, the sets one by one give {want}", dict(replay, kind=kind))
            return
        if Y.shape != (k, r) or Y_own.shape != (k, r):
            verdict.add_broken("harness", "aggregated-shape", f"membership shapes {Y.shape}, {Y_own.shape}, expected {(k, r)}: {spec}")
            return
        dist["aggregated_batch" if k > 1 else "aggregated_scalar"] += 1
        for kind in KINDS:
            if kind not in failed and res[kind].shape != (k,):
                oracle.fail("batch:shape", f"{kind}({r}) of {k} aggregated sets returned shape {res[kind].shape}", dict(replay, kind=kind))
                failed.add(kind)
                skip.add(kind)
        for j in range(k):
            results = {kind: float(res[kind][j]) if kind not in failed else math.nan for kind in KINDS}
            add_case(r, lo, hi, Y[j], results, {"mode": "aggregated", "spec": spec, "row": j}, skip)
            if r <= ctx.n(300, 1000):
                # a defuzzifier that ignored its resolution is still held to the value defined at its resolution
                oracle.check_row(lo, hi, r, Y_own[j], results, replay, failed)
            if k > 1:  # batch = rows on the public API: the j-th set alone
                alone = defuzz_all(fl, build_aggregated(fl, spec, row=j), lo, hi, r, [kind for kind in KINDS if kind not in failed])
                dist["batch_row_checks"] += 1
                tol = tolerance(lo, hi)
                for kind in KINDS:
                    if kind in failed or kind in alone.bad:
                        continue
                    a, b = float(alone[kind][0]), results[kind]
                    if (a != a) != (b != b) or (a == a and abs(a - b) > tol):
                        oracle.fail("batch:rows", f"{kind}({r}): set {j} of a batch of {k} gives {b}, alone it gives {a}", dict(replay, kind=kind, row=j))
        # translation of the centroid: shift every vertex and the range by c
        if k == 1 and spec["terms"] and r <= 200 and "Centroid" not in failed:
            c = rng.choice([1.0, -3.0, rng.randint(-640, 640) / 64, rng.uniform(-20, 20)])
            w = hi - lo
            edges = [p for t in spec["terms"] if t["cls"] == "Rectangle" for p in t["params"]]
            if all(abs(x - e) > 1e-6 * w for x in x_own[0] for e in edges):
                z0 = float(res["Centroid"][0])
                moved = defuzz_all(fl, build_aggregated(fl, spec, shift=c), lo + c, hi + c, r, ["Centroid"])
                oracle.report(moved, dict(replay, shift=c))
                if "Centroid" not in moved.bad:
                    z1 = float(moved["Centroid"][0])
                    dist["translation_checks"] += 1
                    tol = 1e-9 * w + 1e-12 * max(abs(lo), abs(hi), abs(lo + c), abs(hi + c))
                    if (z0 != z0) != (z1 != z1) or (z0 == z0 and abs((z1 - c) - z0) > tol):
                        oracle.fail("Centroid:translation", f"Centroid({r}) = {z0} on [{lo},{hi}] but {z1} after translating set and range by {c}", dict(replay, kind="Centroid", shift=c))
        if len(samples_out) < 6 and spec["terms"] and rng.random() < 0.05:
            samples_out.append({"mode": "aggregated", "spec": spec, "results_row0": {kind: float(res[kind][0]) for kind in KINDS}})

    agg_res = [1, 2, 3, 4, 5, 7, 8, 9, 10, 16, 31, 32, 33, 50, 64, 100, 128, 129, 200, 500, 1000]
    for _ in range(ctx.n(260, 6000)):
        batch = rng.random() < 0.4
        spec = gen_aggregated_spec(rng, batch)
        r = rng.choice(agg_res) if rng.random() < 0.7 else rng.randrange(1, 1001)
        if r > 200 and rng.random() < 0.6:
            r = rng.randrange(1, 65)
        spec["r"] = r
        replay = {"mode": "aggregated", "spec": spec}
        guarded(lambda: case_aggregated(spec, replay), replay, f"aggregated set at resolution {r}")

    # ---- evaluate the model inside Coq
    mism = []
    nmid = nred = 0
    if not build.translation_errors:
        all_cases = small_cases + large_cases
        bad, log = vlib.run_coq_cases(ctx.work, "c09s", IMPORTS, [(ROW_T, ROW_CHECK, [c[0] for c in small_cases]), (MID_T, MID_CHECK, [m[0] for m in mids if m[1]["r"] <= 64]),
                                                                 (RED_T, RED_CHECK, [q[0] for q in reds if q[1]["r"] <= 64])], chunk=150)
        bad2, log2 = vlib.run_coq_cases(ctx.work, "c09l", IMPORTS, [(ROW_T, ROW_CHECK, [c[0] for c in large_cases]), (MID_T, MID_CHECK, [m[0] for m in mids if m[1]["r"] > 64]),
                                                                    (RED_T, RED_CHECK, [q[0] for q in reds if q[1]["r"] > 64])], chunk=10)
        if -1 in bad or -1 in bad2:
            verdict.add_broken("correspondence", "C09:coq-evaluation", (log + log2)[-3000:])
        ms = [m for m in mids if m[1]["r"] <= 64]
        rs = [q for q in reds if q[1]["r"] <= 64]
        ml = [m for m in mids if m[1]["r"] > 64]
        rl = [q for q in reds if q[1]["r"] > 64]
        for i in bad:
            if i < 0:
                continue
            if i < len(small_cases):
                mism.append(small_cases[i][1])
            elif i < len(small_cases) + len(ms):
                nmid += 1
                verdict.add_broken("correspondence", "Op.midpoints", f"model and implementation differ: {ms[i - len(small_cases)][1]}")
            else:
                nred += 1
                verdict.add_broken("correspondence", "numpy reductions (sum, nanmean, nancumsum, min, max, nanmin, nanmax)", f"model and NumPy differ on {rs[i - len(small_cases) - len(ms)][1]}")
        for i in bad2:
            if i < 0:
                continue
            if i < len(large_cases):
                mism.append(large_cases[i][1])
            elif i < len(large_cases) + len(ml):
                nmid += 1
                verdict.add_broken("correspondence", "Op.midpoints", f"model and implementation differ: {ml[i - len(large_cases)][1]}")
            else:
                nred += 1
                verdict.add_broken("correspondence", "numpy reductions (sum, nanmean, nancumsum, min, max, nanmin, nanmax)", f"model and NumPy differ on {rl[i - len(large_cases) - len(ml)][1]}")
        if mism:
            # which defuzzifier? one more tiny Coq run, one kind per case
            detail = []
            lits, who = [], []
            for c in mism[:8]:
                for i, kind in enumerate(KINDS):
                    lits.append(f"({c['r']}%Z, {vlib.fhex(c['lo'])}, {vlib.fhex(c['hi'])}, {flist(c['ys'])}, [({i}%Z, {vlib.fhex(c['results'][kind])})])")
                    who.append((kind, c))
            bad3, _ = vlib.run_coq_cases(ctx.work, "c09d", IMPORTS, [(ROW_T, ROW_CHECK, lits)], chunk=5)
            for i in bad3:
                if i >= 0:
                    kind, c = who[i]
                    detail.append({"kind": kind, "r": c["r"], "lo": c["lo"], "hi": c["hi"], "mode": c["mode"], "implementation": c["results"][kind], "samples_head": c["ys"][:8]})
            verdict.add_broken("correspondence", "integral defuzzifier " + (detail[0]["kind"] if detail else "?"),
                               f"model and implementation differ on {len(mism)} sample rows; first: {detail[:5]}")

    c = ev["coverage"]
    c["evaluations"] = evaluations + len(mids) + len(reds)
    c["distinct_nontrivial"] = len(nontrivial)
    c["rule"] = ("(a) harness Term returning prepared sample rows (patterns: " + ", ".join(PATTERNS) + "), every resolution 1..64, the pairwise-sum block edges "
                 "(127..137, 255..265, 511..513, 1000) and random resolutions up to 1000, ranges incl. negative, tiny, huge, sub-normal, degenerate, scalar and batch (2-5 rows); "
                 "(b) real Aggregated sets of 0-5 Activated Triangle/Trapezoid/Rectangle/Ramp terms with any implication and aggregation, scalar and batch degrees, whose own "
                 "membership samples are passed to the model; each row is checked for all five defuzzifiers bit for bit inside Coq. "
                 "non-trivial = distinct (kind, resolution, range, sample row) with a numeric (non-NaN) result and at least two positive samples")
    c["distribution"] = dist
    c["sample_rows"] = len(small_cases) + len(large_cases)
    c["correspondence_mismatches"] = len(mism) + nmid + nred
    c["oracle_checks"] = oracle.checks
    c["oracle_violations"] = len(verdict.violations)            # concrete inputs contradicting the property, known findings excluded
    c["known_finding_hits"] = dict(verdict.known_hits)         # e.g. batch:resolution-1
    c["samples"] = samples_out
    ev["assumptions"] += [
        "membership samples are taken from the implementation (the model under test is the defuzzifier, not the terms): the row handed to the Coq model is "
        "np.atleast_2d(term.membership(np.atleast_2d(Op.midpoints(min, max, r)))) of the very term being defuzzified",
        "NumPy reductions are modelled for C-contiguous rows (measured each run: ndarray.sum(axis=1) of a one-row and of a several-row array agree with the model bit for bit); "
        "an F-ordered membership matrix would be summed sequentially by NumPy and is not modelled",
        "the Python value kind of the result (0-d ndarray / numpy.float64), warnings and the broadcasting of the empty Aggregated's scalar 0.0 membership are not modelled "
        "(the empty set is compared against the all-zero row: both NaN)",
        "proofs are over exact reals with IEEE special values (NumER): rounding is covered only by the bit-exact correspondence and the tolerance oracle (1e-9 of the range)",
    ]


# --------------------------------------------------------------------------- replay
def replay(ctx, data):
    import fuzzylite as fl

    for v in data.get("violations", []):
        print(v["what"])
        r = v["replay"]
        try:
            if r.get("mode") == "samples":
                rows = r["rows"]
                Y = np.array(rows[0]) if len(rows) == 1 else np.array(rows)
                res = defuzz_all(fl, make_samples_term(fl, Y), r["lo"], r["hi"], r["r"])
                print("  now:", {k: res[k].tolist() for k in KINDS if k == r.get("kind", k)})
            elif r.get("mode") == "aggregated":
                spec = r["spec"]
                res = defuzz_all(fl, build_aggregated(fl, spec), spec["lo"], spec["hi"], spec["r"])
                print("  set:", build_aggregated(fl, spec).parameters(), "range", (spec["lo"], spec["hi"]), "resolution", spec["r"])
                print("  now:", {k: res[k].tolist() for k in KINDS if k == r.get("kind", k)})
                if spec.get("k", 1) > 1:
                    for j in range(spec["k"]):
                        one = defuzz_all(fl, build_aggregated(fl, spec, row=j), spec["lo"], spec["hi"], spec["r"])
                        print(f"  set {j} alone:", {k: one[k].tolist() for k in KINDS if k == r.get("kind", k)})
        except Exception as e:  # the replay must not hide the record
            print("  replay failed:", type(e).__name__, e)
    for b in data.get("broken", []):
        print("BROKEN", b["kind"], b["name"], "\n", b["detail"][:1500])
    return 0
