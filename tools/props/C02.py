"""C02 — batch (vectorised) processing equals row-by-row float processing.

Three runs of every (engine, batch):
  (a) the implementation in batch mode (input arrays, ONE Engine.process),
  (b) the implementation row by row with plain Python floats from the same starting state,
  (c) the Coq models: `process_rows` (Model/Batch.v over Model/Engine.v, scalar-mode floats `NumF true`) against (b), and
      the vectorised model `process_batch` / `process_batch_vars` (`NumF false`) against (a), shapes included.
DIRECT ORACLE = (a) versus (b): output values (`Engine.output_values`, row for row), `fuzzy_value()` strings, exceptions,
compared exactly (bit-equal floats, NaN = NaN).
"""
from __future__ import annotations

import math
import warnings

import numpy as np

import enginelib as E
import vlib
from props.C01 import err_code, last, observe_lit

COQ_TARGETS = ["Model/Engine.vo", "Model/Observe.vo", "Model/NpLite.vo", "Model/Batch.vo", "Proofs/BatchProofs.vo"]

# ------------------------------------------------------------------------------------------------ Gallina side
IMPORTS = r"""From VF Require Import GenNorm GenHedge GenTerm Core Cascade Engine Observe NpLite Batch.
Definition arr_eqb {X : Type} (eq : X -> X -> bool) (a b : arr X) : bool :=
  match a, b with
  | Sc x, Sc y => eq x y
  | Vec l, Vec m => list_eqb eq l m
  | Mat r, Mat s => list_eqb (list_eqb eq) r s
  | _, _ => false
  end.
(* per output: value, previous value, fuzzy terms (name, degree); per block: rules (degree, triggered); output_values *)
Definition bobs : Type := (list (arr float * float * list (string * arr float)) * list (list (arr float * arr bool)) * (arr float + nat))%type.
Definition bobserve {N : Num float} (st : bstate float) : bobs :=
  (map (fun bo => (bo_value bo, bo_previous bo, map (fun a => (bact_name a, ba_degree a)) (bo_fuzzy bo))) (bs_outputs st),
   map (map (fun r => (br_degree r, br_triggered r))) (bs_rules st),
   match output_values_get st with Ok m => inl m | Err x => inr (err_code x) end).
Definition bobs_eqb (a b : bobs) : bool :=
  let '(o1, r1, m1) := a in
  let '(o2, r2, m2) := b in
  list_eqb (fun p q => arr_eqb feq (fst (fst p)) (fst (fst q)) && feq (snd (fst p)) (snd (fst q))
                       && list_eqb (fun u v => String.eqb (fst u) (fst v) && arr_eqb feq (snd u) (snd v)) (snd p) (snd q)) o1 o2
  && list_eqb (list_eqb (fun p q => arr_eqb feq (fst p) (fst q) && arr_eqb Bool.eqb (snd p) (snd q))) r1 r2
  && match m1, m2 with inl x, inl y => arr_eqb feq x y | inr x, inr y => Nat.eqb x y | _, _ => false end.
Definition check_batch (c : engine float * (arr float + list (arr float)) * (bobs + nat) * oracle) : bool :=
  let '(e, inp, expected, tbl) := c in
  let r := match inp with
           | inl values => @process_batch float (NumF false tbl) e values
           | inr vs => @process_batch_vars float (NumF false tbl) e vs
           end in
  match r, expected with
  | Ok st, inl o => bobs_eqb (@bobserve (NumF false tbl) st) o
  | Err x, inr c => Nat.eqb (err_code x) c
  | _, _ => false
  end.
(* the engine after every row (Observe.obs), or the exception of the first row that raises *)
Definition check_rows (c : engine float * list (list float) * (list obs + nat) * oracle) : bool :=
  let '(e, rows, expected, tbl) := c in
  match @process_rows float (NumF true tbl) e rows, expected with
  | Ok es, inl os => list_eqb obs_eqb (map observe es) os
  | Err x, inr c => Nat.eqb (err_code x) c
  | _, _ => false
  end.
(* Engine.input_values setter then getter *)
Definition check_setter (c : engine float * arr float * (list (arr float) * (arr float + nat) + nat)) : bool :=
  let '(e, values, expected) := c in
  let nf := NumF false nil in
  match @input_values_set float nf e values, expected with
  | Ok ins, inl (vs, g) =>
      list_eqb (arr_eqb feq) ins vs &&
      match @stack_values float ins, g with Ok m, inl m' => arr_eqb feq m m' | Err x, inr c => Nat.eqb (err_code x) c | _, _ => false end
  | Err x, inr c => Nat.eqb (err_code x) c
  | _, _ => false
  end.
"""
T_BATCH = "engine float * (arr float + list (arr float)) * (bobs + nat) * oracle"
T_ROWS = "engine float * list (list float) * (list obs + nat) * oracle"
T_SETTER = "engine float * arr float * (list (arr float) * (arr float + nat) + nat)"


def arr_lit(x, item=vlib.fhex, dtype=float):
    a = np.asarray(x, dtype=dtype)
    if a.ndim == 0:
        return f"(Sc {item(a[()])})"
    if a.ndim == 1:
        return f"(Vec {vlib.coq_list(item(v) for v in a)})"
    if a.ndim == 2:
        return f"(Mat {vlib.coq_list(vlib.coq_list(item(v) for v in row) for row in a)})"
    raise ValueError(f"{a.ndim}-d array")


def bool_lit(b):
    return "true" if bool(b) else "false"


def bobserve_lit(engine):
    outs = []
    for ov in engine.output_variables:
        fz = vlib.coq_list(f"({vlib.coq_string(a.term.name)}, {arr_lit(a.degree)})" for a in ov.fuzzy.terms)
        outs.append(f"({arr_lit(ov.value)}, {vlib.fhex(last(ov.previous_value))}, {fz})")
    rules = vlib.coq_list(vlib.coq_list(f"({arr_lit(r.activation_degree)}, {arr_lit(r.triggered, bool_lit, bool)})" for r in rb.rules) for rb in engine.rule_blocks)
    try:
        with np.errstate(all="ignore"):
            m = f"(inl {arr_lit(engine.output_values)})"
    except Exception as ex:  # noqa
        m = f"(inr {err_code(ex)})"
    return f"(inl ({vlib.coq_list(outs)}, {rules}, {m}))"


# ------------------------------------------------------------------------------------------------ engines
_orig_build_term = E.build_term
_orig_lit_term = E.lit_term


def _build_term(fl, t, mod=None):
    if t["class"] == "Linear":
        return fl.Linear(t["name"], [float(c) for c in t["params"]["coefficients"]])
    return _orig_build_term(fl, t, mod)


def _lit_term(fl, t):
    if t["class"] == "Linear":
        return f"(TLinear {vlib.coq_string(t['name'])} {vlib.coq_list(vlib.fhex(c) for c in t['params']['coefficients'])})"
    return _orig_lit_term(fl, t)


class linear_terms:
    """enginelib does not know Linear terms: while active its builder / literal printer accept them."""

    def __enter__(self):
        E.build_term, E.lit_term = _build_term, _lit_term

    def __exit__(self, *exc):
        E.build_term, E.lit_term = _orig_build_term, _orig_lit_term
        return False


def gen_engine(rng):
    """enginelib's generator restricted to General activation; some Takagi-Sugeno outputs get Linear terms."""
    profile = rng.choice(["algebraic", "algebraic", "mixed"])
    desc = E.gen_engine(rng, profile=profile, activations=("General",), weighted=True)
    n = len(desc["inputs"])
    if rng.random() < 0.15:  # Larsen: the algebraic product as implication
        for b in desc["blocks"]:
            if b["implication"] != "Sharp":
                b["implication"] = "AlgebraicProduct"
    if rng.random() < 0.08:  # a configuration that makes Engine.process raise (in both modes)
        what = rng.choice(["conjunction", "disjunction", "implication", "aggregation", "defuzzifier"])
        if what in ("aggregation", "defuzzifier"):
            rng.choice(desc["outputs"])[what] = None
        else:
            rng.choice(desc["blocks"])[what] = None
    for o in desc["outputs"]:
        if o["defuzzifier"] is None:
            continue
        if o["defuzzifier"][0] in ("WeightedAverage", "WeightedSum") and all(t["class"] == "Constant" for t in o["terms"]) and rng.random() < 0.5:
            for t in o["terms"]:
                if rng.random() < 0.7:
                    m = rng.choice([n, n + 1])
                    t["class"], t["params"] = "Linear", {"coefficients": [rng.choice([0.0, 1.0, -0.5, round(rng.uniform(-2, 2), 2), rng.uniform(-2, 2)]) for _ in range(m)]}
    return desc, profile


def classify(desc):
    kinds = set()
    for o in desc["outputs"]:
        d = o["defuzzifier"]
        if d is None:
            kinds.add("no-defuzzifier")
        elif d[0] in E.INTEGRAL:
            imps = {b["implication"] for b in desc["blocks"]}
            kinds.add("larsen" if imps == {"AlgebraicProduct"} else "mamdani")
        elif any(t["class"] in ("Constant", "Linear") for t in o["terms"]):
            kinds.add("takagi-sugeno")
        else:
            kinds.add("tsukamoto")
    return "hybrid" if len(kinds) > 1 else kinds.pop()


def gen_rows(rng, desc, k):
    rows = [E.gen_row(rng, desc) for _ in range(k)]
    if k >= 2 and rng.random() < 0.3:  # a whole row of NaN / +-inf
        rows[rng.randrange(k)] = [rng.choice([math.nan, math.inf, -math.inf])] * len(desc["inputs"])
    if k >= 2 and rng.random() < 0.2:  # a repeated row (fill-forward from an identical predecessor)
        rows[rng.randrange(1, k)] = list(rows[0])
    return rows


# ------------------------------------------------------------------------------------------------ the three runs
def feq(a, b):
    a, b = float(a), float(b)
    return (a != a and b != b) or a == b


def set_batch(engine, mode, rows):
    n = len(engine.input_variables)
    m = np.array(rows, dtype=float).reshape(len(rows), n)
    if mode == "matrix":
        engine.input_values = m
    elif mode == "vars":
        for i, iv in enumerate(engine.input_variables):
            iv.value = m[:, i].copy()
    elif mode == "1d":  # one input variable: a column; several: one row
        engine.input_values = m[:, 0].copy() if n == 1 else m[0].copy()
    elif mode == "0d":
        engine.input_values = np.array(m[0, 0])
    else:
        raise AssertionError(mode)


def input_lit(mode, rows, n):
    m = np.array(rows, dtype=float).reshape(len(rows), n)
    if mode == "matrix":
        return f"(inl {arr_lit(m)})"
    if mode == "vars":
        return f"(inr {vlib.coq_list(arr_lit(m[:, i]) for i in range(n))})"
    if mode == "1d":
        return f"(inl {arr_lit(m[:, 0] if n == 1 else m[0])})"
    return f"(inl {arr_lit(m[0, 0])})"


def run_batch(engine, mode, rows):
    """(a): returns (exception | None, oracle table)."""
    raised = None
    with vlib.patch_observed():
        vlib.RECORDER.reset()
        try:
            with np.errstate(all="ignore"):
                set_batch(engine, mode, rows)
                engine.process()
        except Exception as ex:  # noqa
            raised = ex
        tbl = vlib.RECORDER.take()
    return raised, tbl


def run_rows(engine, rows, observe=True):
    """(b): plain Python floats, one row after the other.  Returns (exception | None, row index of the exception,
    per-row [(values, fuzzy strings)], per-row Observe literals, oracle table)."""
    per_row, lits, raised, at = [], [], None, None
    with vlib.patch_observed():
        vlib.RECORDER.reset()
        for j, row in enumerate(rows):
            try:
                for iv, x in zip(engine.input_variables, row):
                    iv.value = float(x)
                with np.errstate(all="ignore"):
                    engine.process()
            except Exception as ex:  # noqa
                raised, at = ex, j
                break
            per_row.append(([last(ov.value) for ov in engine.output_variables], [str(ov.fuzzy_value()) for ov in engine.output_variables]))
            if observe:
                lits.append(observe_lit(engine)[len("(inl "):-1])
        tbl = vlib.RECORDER.take()
    return raised, at, per_row, lits, tbl


def exact_square_extremely():
    """Context manager: Extremely.hedge evaluated with exact squaring also for numpy.float64 operands (what arrays do)."""
    import fuzzylite as fl
    from fuzzylite.library import scalar

    class _cm:
        def __enter__(self):
            self.saved = fl.Extremely.hedge

            def hedge(self_, x):
                x = scalar(x)
                xa = np.atleast_1d(x)
                y = np.where(xa <= 0.5, 2 * xa**2, 1 - 2 * (1 - xa) ** 2)
                return y.reshape(x.shape)

            fl.Extremely.hedge = hedge

        def __exit__(self, *exc):
            fl.Extremely.hedge = self.saved
            return False

    return _cm()


def pow_entries_differ(tbl):
    return [(a, r) for (t, a, _b, r) in tbl if t == vlib.TAGS["pow2"] and not feq(r, a * a)]


def compare_ab(engine_a, per_row, k):
    """Row-for-row differences between the batch engine (after its run) and the per-row observations of (b)."""
    diffs = []
    try:
        with np.errstate(all="ignore"):
            ovals = np.asarray(engine_a.output_values, dtype=float)
    except Exception as ex:  # noqa
        return [("getter", None, None, f"{type(ex).__name__}: {ex}")]
    nout = len(engine_a.output_variables)
    if ovals.shape != (k, nout):
        # every output variable holds a 0-d value (nothing depends on the inputs): ONE row that stands for all rows
        try:
            if ovals.shape != (1, nout):
                raise ValueError
            ovals = np.broadcast_to(ovals, (k, nout))
        except ValueError:
            return [("shape", None, None, f"output_values has shape {ovals.shape}, expected {(k, nout)}")]
    for j, ov in enumerate(engine_a.output_variables):
        for i in range(k):
            if not feq(ovals[i, j], per_row[i][0][j]):
                diffs.append(("value", j, i, f"{ov.name} row {i}: batch {float(ovals[i, j])!r} ({float(ovals[i, j]).hex()}), float mode {per_row[i][0][j]!r} ({float(per_row[i][0][j]).hex()})"))
        try:
            fz = np.broadcast_to(np.atleast_1d(ov.fuzzy_value()), (k,))
        except Exception as ex:  # noqa
            diffs.append(("fuzzy", j, None, f"{ov.name}.fuzzy_value(): {type(ex).__name__}: {ex}"))
            continue
        for i in range(k):
            if str(fz[i]) != per_row[i][1][j]:
                diffs.append(("fuzzy", j, i, f"{ov.name} row {i}: batch fuzzy {str(fz[i])!r}, float mode {per_row[i][1][j]!r}"))
    return diffs


MODES = ["matrix", "matrix", "matrix", "vars", "vars", "vars", "1d", "0d"]


def one_case(ctx, fl, desc, verdict, stats, k, mode, warm, rows=None):
    """Runs (a) and (b) on one batch; returns the Coq case literals (batch, rows) or None when skipped."""
    n = len(desc["inputs"])
    if mode == "1d" and n > 1:
        k = 1
    if mode == "0d":
        k = 1
    if rows is None:
        rows = gen_rows(ctx.rng, desc, k)
    else:
        k = len(rows)
    if mode == "0d":
        rows = [[rows[0][0]] * n]
    with linear_terms():
        ea = E.build_engine(fl, desc)
        warm_row = E.gen_row(ctx.rng, desc) if warm else None
        if warm_row is not None:
            try:
                for iv, x in zip(ea.input_variables, warm_row):
                    iv.value = float(x)
                with np.errstate(all="ignore"):
                    ea.process()
            except Exception:  # noqa
                ea = E.build_engine(fl, desc)
                warm_row = None
        if ctx.rng.random() < 0.5:
            eb = ea.copy()
            stats["start"]["copy"] += 1
        else:
            eb = E.build_engine(fl, desc)
            if warm_row is not None:
                for iv, x in zip(eb.input_variables, warm_row):
                    iv.value = float(x)
                with np.errstate(all="ignore"):
                    eb.process()
            stats["start"]["rebuild"] += 1
        pre_a = E.lit_engine(fl, desc, ea)
        pre_b = E.lit_engine(fl, desc, eb)
    ra, tbl_a = run_batch(ea, mode, rows)
    rb, at, per_row, row_lits, tbl_b = run_rows(eb, rows)
    stats["cases"] += 1
    stats["rows"] += k
    stats["by_mode"][mode] = stats["by_mode"].get(mode, 0) + 1
    stats["by_k"][k] = stats["by_k"].get(k, 0) + 1
    if warm_row is not None:
        stats["warm_start"] += 1
    if any(any(x != x for x in r) for r in rows):
        stats["batches_with_nan_row"] += 1
    if any(any(math.isinf(x) for x in r) for r in rows):
        stats["batches_with_inf_row"] += 1
    replay = {"engine": desc, "engine_fll": str(eb), "mode": mode, "rows": rows, "warm_row": warm_row}
    r1 = [o["name"] for o in desc["outputs"] if o["enabled"] and o["defuzzifier"] is not None and o["defuzzifier"][0] in E.INTEGRAL and o["defuzzifier"][1] == 1]
    nontrivial = False
    # ---- direct oracle: (a) versus (b)
    if (ra is None) != (rb is None):
        stats["oracle_violations"] += 1
        who = f"batch mode raises {type(ra).__name__}: {ra}" if ra is not None else f"float mode raises {type(rb).__name__}: {rb} (row {at})"
        verdict.add_violation("batch:exception-mismatch", f"{who}; the other mode accepts the same {k} rows (mode {mode})", replay)
    elif ra is not None:
        stats["both_raise"] += 1
        stats["error_classes"][type(ra).__name__] = stats["error_classes"].get(type(ra).__name__, 0) + 1
        if type(ra) is not type(rb):
            stats["both_raise_different_class"] += 1
    else:
        diffs = compare_ab(ea, per_row, k)
        fired = any(bool(np.asarray(r.triggered).any()) for rb_ in ea.rule_blocks for r in rb_.rules)
        numeric = any(v == v for v in per_row[-1][0])
        nontrivial = fired and numeric and k >= 2
        if any(ov.lock_previous for ov in eb.output_variables) and any(v != v for pr in per_row for v in pr[0]):
            stats["lock_previous_with_nan"] += 1
        if diffs:
            kinds = {d[0] for d in diffs}
            bad_outputs = {desc["outputs"][d[1]]["name"] for d in diffs if d[1] is not None}
            if "getter" in kinds or "shape" in kinds:
                sig = "batch:output-values-getter-raises" if "getter" in kinds else "batch:output-values-shape"
            elif k >= 2 and bad_outputs and bad_outputs <= set(r1):
                sig = "batch:resolution-1"
            else:
                sig = None
                if pow_entries_differ(tbl_b) and kinds <= {"value", "fuzzy"}:
                    with linear_terms():
                        ec = E.build_engine(fl, desc)
                    with exact_square_extremely():
                        if warm_row is not None:
                            for iv, x in zip(ec.input_variables, warm_row):
                                iv.value = float(x)
                            with np.errstate(all="ignore"):
                                ec.process()
                        rc, _, per_row_c, _, _ = run_rows(ec, rows, observe=False)
                    if rc is None and not compare_ab(ea, per_row_c, k):
                        sig = "batch:scalar-pow-vs-array-square"
                if sig is None:
                    sig = "batch:fuzzy-value" if kinds == {"fuzzy"} else "batch:output-value"
            stats["oracle_violations"] += 1
            stats["violation_signatures"][sig] = stats["violation_signatures"].get(sig, 0) + 1
            verdict.add_violation(sig, f"batch mode ({mode}, {k} rows) and float mode differ: " + "; ".join(d[3] for d in diffs[:4]),
                                  dict(replay, differences=[d[3] for d in diffs[:20]]))
    if k >= 2 and r1:
        stats["resolution1_batches"] += 1
    # ---- Coq cases
    if len(tbl_a) > 5000 or len(tbl_b) > 5000:
        stats["coq_skipped_big_table"] += 1
        return None, nontrivial, rows
    exp_a = f"(inr {err_code(ra)})" if ra is not None else bobserve_lit(ea)
    exp_b = f"(inr {err_code(rb)})" if rb is not None else f"(inl {vlib.coq_list(row_lits)})"
    lit_a = f"({pre_a}, {input_lit(mode, rows, n)}, {exp_a}, {vlib.oracle_lit(tbl_a)})"
    lit_b = f"({pre_b}, {vlib.coq_list(vlib.coq_list(vlib.fhex(x) for x in r) for r in rows)}, {exp_b}, {vlib.oracle_lit(tbl_b)})"
    return (lit_a, lit_b), nontrivial, rows


# ------------------------------------------------------------------------------------------------ setter / getter
def setter_cases(ctx, fl, count):
    lits, index = [], []
    for _ in range(count):
        n = ctx.rng.choice([1, 1, 2, 3])
        desc = {"name": "s", "outputs": [], "blocks": [], "inputs": [
            {"name": f"in{i}", "enabled": True, "min": -1.0, "max": 1.0, "lock_range": ctx.rng.random() < 0.3,
             "terms": [{"name": "t", "class": "Triangle", "params": {"left": -1.0, "top": 0.0, "right": 1.0, "height": 1.0}}]} for i in range(n)]}
        engine = E.build_engine(fl, desc)
        pre = E.lit_engine(fl, desc, engine)
        kind = ctx.rng.choice(["0d", "1d", "1d", "2d", "2d", "2d-wrong"])
        val = lambda: ctx.rng.choice([ctx.rng.uniform(-2, 2), math.nan, math.inf, -math.inf, 0.5])  # noqa
        if kind == "0d":
            values = np.array(val())
        elif kind == "1d":
            values = np.array([val() for _ in range(ctx.rng.choice([1, n, n, 2, 3, 5]))])
        elif kind == "2d":
            values = np.array([[val() for _ in range(n)] for _ in range(ctx.rng.choice([1, 2, 4]))])
        else:
            width = n + ctx.rng.choice([-1, 1, 2]) or n + 1
            values = np.array([[val() for _ in range(width)] for _ in range(ctx.rng.choice([1, 3]))])
        try:
            engine.input_values = values
            ins = vlib.coq_list(arr_lit(iv.value) for iv in engine.input_variables)
            try:
                g = f"(inl {arr_lit(engine.input_values)})"
            except Exception as ex:  # noqa
                g = f"(inr {err_code(ex)})"
            expected = f"(inl ({ins}, {g}))"
        except Exception as ex:  # noqa
            expected = f"(inr {err_code(ex)})"
        lits.append(f"({pre}, {arr_lit(values)}, {expected})")
        index.append({"n_inputs": n, "kind": kind, "values": values.tolist()})
    return lits, index


# ------------------------------------------------------------------------------------------------ targeted searches
def pow_probe(ctx, fl, verdict, stats, nrows):
    """`(1 - x) ** 2` of the hedge `extremely`: libm pow on numpy.float64 (float mode), exact squaring on arrays."""
    def mk():
        return fl.Engine(
            name="pow",
            input_variables=[fl.InputVariable("a", minimum=0.0, maximum=1.0, terms=[fl.Ramp("hi", 0.0, 1.0)])],
            output_variables=[fl.OutputVariable("x", minimum=0.0, maximum=1.0, aggregation=fl.Maximum(), defuzzifier=fl.WeightedSum(), terms=[fl.Constant("p", 1.0)])],
            rule_blocks=[fl.RuleBlock("rb", conjunction=fl.Minimum(), disjunction=fl.Maximum(), implication=fl.Minimum(), activation=fl.General(),
                                      rules=[fl.Rule.create("if a is hi then x is extremely p")])])
    xs = np.array([ctx.rng.uniform(0.5, 1.0) for _ in range(nrows)])
    ea, eb = mk(), mk()
    try:
        with np.errstate(all="ignore"):
            ea.input_values = xs
            ea.process()
        a = np.asarray(ea.output_variables[0].value, dtype=float).reshape(nrows)
    except Exception as ex:  # noqa
        stats["pow_probe"] = {"rows": nrows, "differences": None}
        stats["oracle_violations"] += 1
        verdict.add_violation("batch:exception-mismatch", f"a 1-d batch of {nrows} values for the single input variable of `if a is hi then x is extremely p`: batch mode raises {type(ex).__name__}: {ex}",
                              {"engine_fll": str(eb), "mode": "1d", "rows": [[float(x)] for x in xs[:8]], "warm_row": None})
        return
    hits = []
    for i, x in enumerate(xs):
        eb.input_variables[0].value = float(x)
        with np.errstate(all="ignore"):
            eb.process()
        b = float(eb.output_variables[0].value)
        if not feq(a[i], b):
            hits.append((float(x), float(a[i]), b))
    stats["pow_probe"] = {"rows": nrows, "differences": len(hits)}
    if hits:
        x, va, vb = hits[0]
        ec = mk()
        with exact_square_extremely():
            ec.input_variables[0].value = x
            ec.process()
            vc = float(ec.output_variables[0].value)
        sig = "batch:scalar-pow-vs-array-square" if feq(vc, va) else "batch:output-value"
        stats["oracle_violations"] += 1
        stats["violation_signatures"][sig] = stats["violation_signatures"].get(sig, 0) + 1
        verdict.add_violation(sig, f"`if a is hi then x is extremely p` (Ramp hi 0 1, Constant p 1, WeightedSum): a = {x!r} ({x.hex()}) gives {va.hex()} in a batch and {vb.hex()} as a float "
                              f"({len(hits)} of {nrows} rows differ in the last bit; numpy.float64 ** 2 is libm pow, ndarray ** 2 is an exact square)",
                              {"engine_fll": str(eb), "mode": "1d", "rows": [[h[0]] for h in hits[:10]], "warm_row": None, "differences": [f"{h[0].hex()}: batch {h[1].hex()} float {h[2].hex()}" for h in hits[:10]]})


def examples_run(ctx, fl, verdict, stats, k):
    """Every shipped example engine: a k-row batch against the same rows as floats (implementation only)."""
    n_ok = 0
    info = {"engines": 0, "rows": 0, "both_raise": 0, "differences": 0}
    for engine in fl.Op.glob_examples("engine"):
        info["engines"] += 1
        rows = []
        for i in range(k):
            row = []
            for iv in engine.input_variables:
                lo, hi = iv.minimum, iv.maximum
                if not (math.isfinite(lo) and math.isfinite(hi)):
                    lo, hi = -1.0, 1.0
                u = ctx.rng.random()
                row.append(ctx.rng.uniform(lo, hi) if u < 0.8 else ctx.rng.choice([lo, hi, lo - 0.1 * (hi - lo), hi + 0.1 * (hi - lo), math.nan, math.inf, -math.inf]))
            rows.append(row)
        ea, eb = engine.copy(), engine.copy()
        ra = None
        try:
            with np.errstate(all="ignore"):
                ea.input_values = np.array(rows, dtype=float)
                ea.process()
        except Exception as ex:  # noqa
            ra = ex
        rb, at, per_row, _, _ = run_rows_plain(eb, rows)
        info["rows"] += k
        replay = {"example": engine.name, "engine_fll": str(engine), "mode": "matrix", "rows": rows, "warm_row": None}
        if (ra is None) != (rb is None):
            stats["oracle_violations"] += 1
            who = f"batch mode raises {type(ra).__name__}: {ra}" if ra is not None else f"float mode raises {type(rb).__name__}: {rb} (row {at})"
            verdict.add_violation("batch:exception-mismatch", f"shipped example {engine.name}: {who}; the other mode accepts the rows", replay)
        elif ra is not None:
            info["both_raise"] += 1
        else:
            diffs = compare_ab(ea, per_row, k)
            if diffs:
                info["differences"] += 1
                sig = "batch:output-value"
                if {d[0] for d in diffs} <= {"value", "fuzzy"}:
                    ec = engine.copy()
                    with exact_square_extremely():
                        rc, _, per_row_c, _, _ = run_rows_plain(ec, rows)
                    if rc is None and not compare_ab(ea, per_row_c, k):
                        sig = "batch:scalar-pow-vs-array-square"
                stats["oracle_violations"] += 1
                stats["violation_signatures"][sig] = stats["violation_signatures"].get(sig, 0) + 1
                verdict.add_violation(sig, f"shipped example {engine.name}: batch and float mode differ: " + "; ".join(d[3] for d in diffs[:3]), dict(replay, differences=[d[3] for d in diffs[:20]]))
            else:
                n_ok += 1
    info["agree"] = n_ok
    stats["examples"] = info


def run_rows_plain(engine, rows):
    per_row, raised, at = [], None, None
    for j, row in enumerate(rows):
        try:
            for iv, x in zip(engine.input_variables, row):
                iv.value = float(x)
            with np.errstate(all="ignore"):
                engine.process()
        except Exception as ex:  # noqa
            raised, at = ex, j
            break
        per_row.append(([last(ov.value) for ov in engine.output_variables], [str(ov.fuzzy_value()) for ov in engine.output_variables]))
    return raised, at, per_row, None, None


# ------------------------------------------------------------------------------------------------ cascade stream
def gen_cascade_engine(rng):
    """Lock-previous outputs whose defuzzified value can be +-inf or undefined: weighted defuzzifiers over Linear terms (infinite
    inputs) and Constant terms (finite, +inf, -inf), every default / lock-range combination."""
    n = rng.choice([1, 1, 2])
    inputs = []
    for i in range(n):
        inputs.append({"name": f"in{i}", "enabled": True, "min": 0.0, "max": 1.0, "lock_range": rng.random() < 0.15,
                       "terms": [{"name": f"t{i}0", "class": "Ramp", "params": {"start": 1.0, "end": 0.0, "height": 1.0}},
                                 {"name": f"t{i}1", "class": "Ramp", "params": {"start": 0.0, "end": 1.0, "height": 1.0}},
                                 {"name": f"t{i}2", "class": "Triangle", "params": {"left": 0.0, "top": 0.5, "right": 1.0, "height": 1.0}}]})
    outputs = []
    for j in range(rng.choice([1, 1, 2])):
        terms = []
        for t in range(3):
            kind = rng.choice(["linear", "linear", "const", "const-inf"])
            if kind == "linear":
                m = rng.choice([n, n + 1])
                terms.append({"name": f"o{j}{t}", "class": "Linear", "params": {"coefficients": [rng.choice([1.0, -1.0, 2.0, -0.5, 3.0]) for _ in range(m)]}})
            elif kind == "const":
                terms.append({"name": f"o{j}{t}", "class": "Constant", "params": {"value": rng.choice([0.0, 1.0, -2.5, round(rng.uniform(-3, 3), 2)])}})
            else:
                terms.append({"name": f"o{j}{t}", "class": "Constant", "params": {"value": rng.choice([math.inf, -math.inf])}})
        lo, hi = rng.choice([(-10.0, 10.0), (0.0, 1.0), (-1.0, 4.0)])
        outputs.append({"name": f"out{j}", "enabled": True, "min": lo, "max": hi, "lock_range": rng.random() < 0.4, "lock_previous": True,
                        "default": rng.choice([math.nan, math.nan, 0.5, round(rng.uniform(lo - 1, hi + 1), 2)]),
                        "aggregation": rng.choice(["Maximum", "UnboundedSum", None]),
                        "defuzzifier": (rng.choice(["WeightedAverage", "WeightedSum"]), rng.choice(["Automatic", "TakagiSugeno"])), "terms": terms})
    rules = []
    for o in outputs:
        for t in range(3):
            iv = rng.choice(inputs)
            rules.append({"antecedent": f"{iv['name']} is {iv['terms'][t]['name']}", "consequent": f"{o['name']} is {o['terms'][t]['name']}",
                          "weight": rng.choice([1.0, 1.0, 0.5]), "enabled": True})
    blocks = [{"name": "rb", "enabled": True, "conjunction": "Minimum", "disjunction": "Maximum", "implication": "Minimum", "activation": ("General",), "rules": rules}]
    return {"name": "c", "inputs": inputs, "outputs": outputs, "blocks": blocks}


def gen_cascade_rows(rng, n):
    """A sequence over {finite, +inf, -inf, NaN} rows in which an infinite row is immediately followed by NaN rows."""
    def row(kind):
        if kind == "fin":
            return [rng.choice([0.25, 0.75, 0.5, 0.0, 1.0, rng.random()]) for _ in range(n)]
        v = {"+inf": math.inf, "-inf": -math.inf, "nan": math.nan}[kind]
        r = [v] * n
        if n > 1 and kind != "nan" and rng.random() < 0.5:  # only one variable infinite
            r[rng.randrange(n)] = rng.random()
        return r
    kinds = [rng.choice(["fin", "+inf", "-inf", "nan"]) for _ in range(rng.choice([2, 3, 4, 5]))]
    at = rng.randrange(len(kinds) + 1)
    kinds[at:at] = [rng.choice(["+inf", "-inf"]), "nan"] + (["nan"] if rng.random() < 0.4 else [])
    return [row(kd) for kd in kinds][:8], kinds[:8]


# ------------------------------------------------------------------------------------------------ float path vs array path of every kernel
def kernel_probe(ctx, fl, verdict, stats, n_inputs, n_params):
    """Every term class, hedge, monotonic inverse and norm of the generators: the value computed for a Python float /
    numpy.float64 operand (what float mode feeds it) against element i of the value computed for the array (batch mode), exactly."""
    import termlib

    info = {"kernels": 0, "evaluations": 0, "differences": {}}
    hits = []  # (label, engine factory, x)

    def same(a, b):
        a = np.asarray(a, dtype=float).ravel()
        b = np.asarray(b, dtype=float).ravel()
        return [i for i in range(len(b)) if not feq(a[i] if len(a) > 1 else a[0], b[i])]

    def engine_for(term, hedge=None, in_consequent=False):
        def mk():
            lo, hi = -1e6, 1e6
            rule = f"if a is {hedge + ' ' if hedge and not in_consequent else ''}t then x is {hedge + ' ' if hedge and in_consequent else ''}p"
            return fl.Engine(name="kernel",
                             input_variables=[fl.InputVariable("a", minimum=lo, maximum=hi, terms=[term()])],
                             output_variables=[fl.OutputVariable("x", minimum=0.0, maximum=1.0, aggregation=fl.Maximum(), defuzzifier=fl.WeightedSum(), terms=[fl.Constant("p", 1.0)])],
                             rule_blocks=[fl.RuleBlock("rb", conjunction=fl.Minimum(), disjunction=fl.Maximum(), implication=fl.Minimum(), activation=fl.General(), rules=[fl.Rule.create(rule)])])
        return mk

    with np.errstate(all="ignore"):
        # ---- Term.membership
        for cls in E.ALGEBRAIC_TERMS + E.TRANSCENDENTAL_TERMS + ["Constant"]:
            for _ in range(n_params):
                params = termlib.gen_params(cls, ctx.rng)
                xs = [x for x, _ in termlib.gen_xs(cls, params, ctx.rng, n_inputs)]
                mkterm = (lambda cls=cls, params=params: E.build_term(fl, {"name": "t", "class": cls, "params": params}))
                term = mkterm()
                arr = term.membership(np.array(xs, dtype=float))
                info["kernels"] += 1
                info["evaluations"] += len(xs)
                bad = [i for i, x in enumerate(xs) if not feq(term.membership(float(x)), np.asarray(arr).ravel()[i if np.size(arr) > 1 else 0])]
                if bad:
                    info["differences"][f"{cls}.membership"] = info["differences"].get(f"{cls}.membership", 0) + len(bad)
                    hits.append((f"{cls}.membership {params}", engine_for(mkterm), [xs[i] for i in bad[:5]]))
                # ---- Term.tsukamoto (the degree reaches it as numpy.float64 in float mode)
                if cls in E.MONOTONIC_TERMS:
                    ws = [ctx.rng.random() for _ in range(n_inputs // 2)] + [0.0, 1.0, 0.5]
                    arr = np.asarray(term.tsukamoto(np.array(ws)), dtype=float).ravel()
                    info["kernels"] += 1
                    info["evaluations"] += len(ws)
                    bad = [i for i, w in enumerate(ws) if not feq(term.tsukamoto(np.nan_to_num(np.float64(w))), arr[i])]
                    if bad:
                        info["differences"][f"{cls}.tsukamoto"] = info["differences"].get(f"{cls}.tsukamoto", 0) + len(bad)
                        hits.append((f"{cls}.tsukamoto {params}", None, [ws[i] for i in bad[:5]]))
        # ---- hedges: fed by a membership value (antecedent) and by weight * degree (consequent)
        ramp = lambda: fl.Ramp("t", 0.0, 1.0)  # noqa
        xs = [ctx.rng.random() for _ in range(n_inputs)] + [0.0, 1.0, 0.5, math.nan]
        for hname in E.HEDGES:
            h = fl.FactoryManager().hedge.construct(hname) if hasattr(fl, "FactoryManager") else getattr(fl, hname.capitalize())()
            arr = np.asarray(h.hedge(ramp().membership(np.array(xs))), dtype=float).ravel()
            arr_c = np.asarray(h.hedge(1.0 * ramp().membership(np.array(xs))), dtype=float).ravel()
            info["kernels"] += 2
            info["evaluations"] += 2 * len(xs)
            t = ramp()
            bad = [i for i, x in enumerate(xs) if not feq(h.hedge(t.membership(float(x))), arr[i if len(arr) > 1 else 0])]
            bad_c = [i for i, x in enumerate(xs) if not feq(h.hedge(1.0 * t.membership(float(x))), arr_c[i if len(arr_c) > 1 else 0])]
            if bad and hname != "any":
                info["differences"][f"hedge {hname} (antecedent)"] = len(bad)
                hits.append((f"hedge {hname} in the antecedent", engine_for(ramp, hname, False), [xs[i] for i in bad[:5]]))
            if bad_c and hname != "any":
                info["differences"][f"hedge {hname} (consequent)"] = len(bad_c)
                hits.append((f"hedge {hname} in the consequent", engine_for(ramp, hname, True), [xs[i] for i in bad_c[:5]]))
        # ---- norms on numpy.float64 operands
        pairs = [(ctx.rng.random(), ctx.rng.random()) for _ in range(n_inputs // 2)] + [(0.0, 1.0), (1.0, 1.0), (0.0, 0.0), (0.5, 0.5)]
        a_arr, b_arr = np.array([p[0] for p in pairs]), np.array([p[1] for p in pairs])
        for nname in E.TNORMS + E.SNORMS:
            norm = getattr(fl, nname)()
            arr = np.asarray(norm.compute(a_arr, b_arr), dtype=float).ravel()
            info["kernels"] += 1
            info["evaluations"] += len(pairs)
            bad = [i for i, (a, b) in enumerate(pairs) if not feq(norm.compute(np.float64(a), np.float64(b)), arr[i])]
            if bad:
                info["differences"][f"norm {nname}"] = len(bad)
                hits.append((f"norm {nname}", None, [pairs[i] for i in bad[:5]]))
    stats["kernel_probe"] = info
    # ---- every difference is confirmed on an engine: float mode against batch mode
    for label, mk, points in hits:
        if mk is None:
            stats["oracle_violations"] += 1
            verdict.add_violation("batch:scalar-vs-array-kernel", f"{label}: the value for a numpy.float64 operand differs from the array element at {points[:3]} (float mode and batch mode round differently)",
                                  {"kernel": label, "points": [repr(p) for p in points]})
            continue
        for x in points:
            ea, eb = mk(), mk()
            with np.errstate(all="ignore"):
                ea.input_values = np.array([[x], [x]], dtype=float)
                ea.process()
                eb.input_variables[0].value = float(x)
                eb.process()
            va = float(np.asarray(ea.output_variables[0].value, dtype=float).ravel()[0])
            vb = float(eb.output_variables[0].value)
            da = float(np.asarray(ea.output_variables[0].fuzzy.terms[0].degree, dtype=float).ravel()[0])
            db = float(np.asarray(eb.output_variables[0].fuzzy.terms[0].degree, dtype=float).ravel()[0])
            if not feq(va, vb) or not feq(da, db):
                stats["oracle_violations"] += 1
                verdict.add_violation("batch:scalar-vs-array-kernel",
                                      f"{label}: `{eb.rule_blocks[0].rules[0].text}` at a = {x!r} ({float(x).hex()}): activation degree {da.hex()} / output {va.hex()} in a batch, "
                                      f"{db.hex()} / {vb.hex()} as a float (the float path and the array path of the kernel round differently)",
                                      {"engine_fll": str(eb), "mode": "matrix", "rows": [[float(x)], [float(x)]], "warm_row": None, "kernel": label})
                break


# ------------------------------------------------------------------------------------------------ driver
def run(ctx, build, verdict, ev):
    import fuzzylite as fl

    warnings.simplefilter("ignore")
    stats = {"engines": 0, "cases": 0, "rows": 0, "by_mode": {}, "by_k": {}, "by_kind": {}, "start": {"copy": 0, "rebuild": 0}, "warm_start": 0,
             "batches_with_nan_row": 0, "batches_with_inf_row": 0, "lock_previous_with_nan": 0, "both_raise": 0, "both_raise_different_class": 0,
             "error_classes": {}, "resolution1_batches": 0, "coq_skipped_big_table": 0, "oracle_violations": 0, "violation_signatures": {}}
    lits_a, lits_b, index = [], [], []
    distinct = set()
    mism = {"batch": [], "rows": [], "setter": []}
    counts = {"batch": 0, "rows": 0, "setter": 0}
    coq_state = {"wave": 0, "failed": False}

    def flush(set_lits=(), set_index=()):
        """Evaluate the accumulated cases inside Coq (in waves, to bound memory in the thorough tier)."""
        nonlocal lits_a, lits_b, index
        if build.translation_errors or coq_state["failed"] or not (lits_a or lits_b or set_lits):
            lits_a, lits_b, index = [], [], []
            return
        groups = [(T_BATCH, "check_batch", lits_a), (T_ROWS, "check_rows", lits_b), (T_SETTER, "check_setter", list(set_lits))]
        name = f"c02w{coq_state['wave']}"
        coq_state["wave"] += 1
        bad, log = vlib.run_coq_cases(ctx.work, name, IMPORTS, groups, chunk=ctx.n(60, 120))
        na, nb = len(lits_a), len(lits_b)
        counts["batch"] += na
        counts["rows"] += nb
        counts["setter"] += len(set_lits)
        for i in bad:
            if i < 0:
                verdict.add_broken("correspondence", "C02:coq-evaluation", log)
                coq_state["failed"] = True
                break
            if i < na:
                mism["batch"].append(index[i])
            elif i < na + nb:
                mism["rows"].append(index[i - na])
            else:
                mism["setter"].append(set_index[i - na - nb])
        if not bad:  # keep the generated files of a wave only when something in it disagrees
            import glob
            import os

            for fn in glob.glob(os.path.join(ctx.work, name + "_*")):
                os.remove(fn)
        lits_a, lits_b, index = [], [], []

    samples = []
    n_engines, n_batches = ctx.n(150, 4000), (6 if ctx.tier == "thorough" else 3)
    for kk in range(n_engines):
        desc, profile = gen_engine(ctx.rng)
        stats["engines"] += 1
        kind = classify(desc)
        stats["by_kind"][kind] = stats["by_kind"].get(kind, 0) + 1
        for _ in range(n_batches):
            k = ctx.rng.choice([1, 2, 2, 3, 4, 5, 8])
            mode = ctx.rng.choice(MODES)
            res, nontrivial, rows = one_case(ctx, fl, desc, verdict, stats, k, mode, warm=ctx.rng.random() < 0.5)
            if nontrivial:
                distinct.add((kk, tuple(tuple(vlib.fkey(x) for x in r) for r in rows)))
            if res is not None:
                lits_a.append(res[0])
                lits_b.append(res[1])
                index.append({"engine": kk, "profile": profile, "kind": kind, "mode": mode, "rows": rows})
                if len(samples) < 5 and kk % max(1, n_engines // 5) == 0 and (not samples or samples[-1]["engine"] != kk):
                    samples.append(index[-1])
        if len(lits_a) >= 1800:
            flush()
    # targeted stream: lock-previous outputs with +-inf / undefined rows inside one batch
    stats["cascade_stream"] = {"engines": 0, "batches": 0}
    for kk in range(ctx.n(40, 1200)):
        desc = gen_cascade_engine(ctx.rng)
        stats["cascade_stream"]["engines"] += 1
        for _ in range(2):
            rows, kinds = gen_cascade_rows(ctx.rng, len(desc["inputs"]))
            mode = ctx.rng.choice(["matrix", "vars"])
            res, nontrivial, rows = one_case(ctx, fl, desc, verdict, stats, len(rows), mode, warm=ctx.rng.random() < 0.5, rows=rows)
            stats["cascade_stream"]["batches"] += 1
            if res is not None:
                lits_a.append(res[0])
                lits_b.append(res[1])
                index.append({"engine": f"cascade-{kk}", "profile": "cascade", "kind": "takagi-sugeno", "mode": mode, "rows": rows, "engine_desc": desc})
        if len(lits_a) >= 1800:
            flush()
    set_lits, set_index = setter_cases(ctx, fl, ctx.n(150, 1500))
    thorough = ctx.tier == "thorough"  # fixed sizes: these probes are not scaled up when the sources changed
    pow_probe(ctx, fl, verdict, stats, 60000 if thorough else 3000)
    kernel_probe(ctx, fl, verdict, stats, ctx.n(2000, 20000), ctx.n(3, 6))
    examples_run(ctx, fl, verdict, stats, ctx.n(16, 64))
    flush(set_lits, set_index)
    ncases = dict(counts)
    if mism["batch"]:
        verdict.add_broken("correspondence", "Engine.process on a batch (Model/Batch.v process_batch)", f"vectorised model and implementation differ on {len(mism['batch'])} of {ncases['batch']} batches, first: {mism['batch'][:2]}")
    if mism["rows"]:
        verdict.add_broken("correspondence", "row-by-row reference (Model/Batch.v process_rows)", f"reference model and float-mode implementation differ on {len(mism['rows'])} of {ncases['rows']} batches, first: {mism['rows'][:2]}")
    if mism["setter"]:
        verdict.add_broken("correspondence", "Engine.input_values setter/getter", f"model and implementation differ on {len(mism['setter'])} of {ncases['setter']} cases, first: {mism['setter'][:3]}")
    c = ev["coverage"]
    c["evaluations"] = stats["rows"] + stats["examples"]["rows"] + stats["pow_probe"]["rows"] + stats["kernel_probe"]["evaluations"]
    c["distinct_nontrivial"] = len(distinct)
    c["rule"] = ("random General-activation engines (enginelib: 1-3 inputs, 1-2 outputs, 1-2 blocks, 1-6 rules, nested and/or antecedents with 0-3 hedges and `any`, output variables in antecedents, "
                 "hedged conclusions, weights, every enabled flag, every norm or the non-commutative lambda operators, integral defuzzifiers with resolution 1-64, weighted defuzzifiers over Constant, Linear and monotonic terms; "
                 "every lock-previous / default / lock-range combination) x batches of 1-8 rows (interior, range bounds, term break-points +-1 ulp, out of range, +-inf, NaN, whole NaN/inf rows, repeated rows) x "
                 "setting modes (matrix through Engine.input_values, per-variable arrays, the 1-d and 0-d forms of the setter), half of them after a warm-up row (non-NaN previous values), float-mode engine a deep copy or a rebuild; "
                 "implementation batch vs implementation row-by-row compared exactly (output_values, fuzzy_value strings, exceptions); Coq process_rows vs float mode (value, previous value, fuzzy terms, rule degrees, per row) and "
                 "Coq process_batch vs batch mode (same, with array shapes, and output_values); plus a targeted stream of lock-previous Takagi-Sugeno engines (Linear / Constant +-inf consequents) on batches that put NaN rows right after +-inf rows, Engine.input_values setter/getter cases, a float-path vs array-path comparison of EVERY term class, monotonic inverse, hedge and norm (a few parameterisations x ~2000 inputs each, differences confirmed on an engine), and every shipped example engine; "
                 "non-trivial = distinct (engine, batch) with >= 2 rows where a rule fired and the last row has a numeric output")
    c["distribution"] = stats
    c["coq_cases"] = ncases
    c["correspondence_mismatches"] = sum(len(v) for v in mism.values())
    c["oracle_violations"] = stats["oracle_violations"]
    c["samples"] = samples
    ev["assumptions"] += [
        "rule trees in the model are the trees the implementation loaded (parsing is C06's subject)",
        "Python value kinds (float / numpy.float64 / 0-d array) are not modelled; array SHAPES are",
        "Function terms are not generated (not modelled on batches); non-General activation methods reject vector degrees and are outside the property",
        "libm / transcendental results (exp, log, cos, power, Python-float ** 2) are recorded from the implementation separately for the batch run and for the float-mode run",
        "batch_eq_rows is generic in the numeric reading: it uses ONE reading of `(numpy.float64) ** 2` on both sides; the implementation's two readings (libm pow in float mode, exact square on arrays) are compared by the direct oracle",
    ]


def replay(ctx, data):
    import fuzzylite as fl

    warnings.simplefilter("ignore")
    for v in data.get("violations", []):
        print(v["signature"], "-", v["what"])
        r = v["replay"]
        if "engine_fll" not in r:
            continue
        rows = r["rows"]
        ea = fl.FllImporter().from_string(r["engine_fll"])
        eb = fl.FllImporter().from_string(r["engine_fll"])
        for e in (ea, eb):
            if r.get("warm_row") is not None:
                for iv, x in zip(e.input_variables, r["warm_row"]):
                    iv.value = float(x)
                e.process()
        try:
            set_batch(ea, r.get("mode", "matrix"), rows)
            ea.process()
            print("  batch now :", np.asarray(ea.output_values).tolist())
        except Exception as ex:  # noqa
            print("  batch now raises", type(ex).__name__, ex)
        rb, at, per_row, _, _ = run_rows_plain(eb, rows)
        print("  floats now:", [p[0] for p in per_row], f"raises {type(rb).__name__} at row {at}" if rb else "")
    for b in data.get("broken", []):
        print("BROKEN", b["kind"], b["name"], "\n", b["detail"][:1500])
    return 0
