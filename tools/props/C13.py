"""C13 — processing is history-free; restart and copy give clean independent engines."""
from __future__ import annotations

import copy as pycopy
import enum
import math

import numpy as np

import enginelib as E
import vlib
from props.C01 import err_code, last

COQ_TARGETS = ["Model/Ops.vo", "Model/EngineF.vo", "Model/Observe.vo", "Proofs/EngineProofs.vo", "Proofs/EngineAllProofs.vo"]
IMPORTS = "From VF Require Import GenNorm GenHedge GenTerm Core Engine EngineF Ops Observe."
CASE_TYPE = "engine float * list (@op float) * list (store_obs + nat) * oracle"
CHECKER = ("fun c => let '(e, ops, expected, tbl) := c in "
           "steps_eqb (@run float (NumF true tbl) (@feval float (NumF true tbl) (fun _ _ _ => None)) ([e], 0%nat) ops) expected")
ACTS = ("General", "General", "First", "Last", "Highest", "Lowest", "Proportional", "Threshold")


def obs_lit(engine):
    vals = vlib.coq_list(f"({vlib.fhex(last(ov.value))}, {vlib.fhex(last(ov.previous_value))})" for ov in engine.output_variables)
    fz = vlib.coq_list(vlib.coq_list(f"({vlib.coq_string(a.term.name)}, {vlib.fhex(last(a.degree))})" for a in ov.fuzzy.terms) for ov in engine.output_variables)
    rl = vlib.coq_list(vlib.coq_list(f"({vlib.fhex(last(r.activation_degree))}, {str(bool(np.asarray(r.triggered).ravel()[-1])).lower()})" for r in rb.rules) for rb in engine.rule_blocks)
    return f"({vals}, {fz}, {rl})"


def snapshot(engine):
    return (tuple(vlib.fkey(last(iv.value)) for iv in engine.input_variables),
            tuple((vlib.fkey(last(ov.value)), vlib.fkey(last(ov.previous_value)), tuple((a.term.name, vlib.fkey(last(a.degree))) for a in ov.fuzzy.terms)) for ov in engine.output_variables),
            tuple(tuple((vlib.fkey(last(r.activation_degree)), bool(np.asarray(r.triggered).ravel()[-1]), r.enabled, r.weight) for r in rb.rules) for rb in engine.rule_blocks),
            str(engine))


def outputs(engine, enabled_only=False):
    """Output values; a disabled output variable is not processed (it keeps whatever value it had), so the
    history-freedom oracles compare enabled outputs only."""
    return [last(ov.value) for ov in engine.output_variables if ov.enabled or not enabled_only]


def same(a, b):
    return len(a) == len(b) and all(vlib.same_float(x, y) for x, y in zip(a, b))


def reachable_objects(engine):
    """ids of the mutable objects an engine owns: components, their lists, arrays."""
    import fuzzylite as fl

    seen = {}
    stack = [engine]
    while stack:
        o = stack.pop()
        if id(o) in seen or isinstance(o, enum.Enum) or isinstance(o, type):
            continue
        if isinstance(o, (list, dict, np.ndarray)) or type(o).__module__.startswith("fuzzylite"):
            if isinstance(o, (fl.FactoryManager,)) or type(o).__name__.endswith("Factory"):
                continue
            seen[id(o)] = o
            if isinstance(o, list):
                stack += o
            elif isinstance(o, dict):
                stack += list(o.values())
            elif not isinstance(o, np.ndarray) and hasattr(o, "__dict__"):
                stack += list(vars(o).values())
    return seen


def history_sensitive(desc):
    return any(o["lock_previous"] for o in desc["outputs"])


def run(ctx, build, verdict, ev):
    import fuzzylite as fl

    lits, index = [], []
    nviol = 0
    stats = {"sequences": 0, "steps": 0, "ops": {}, "history_free_checks": 0, "idempotence_checks": 0, "restart_checks": 0, "copy_graph_checks": 0, "isolation_checks": 0, "function_linear_engines": 0,
             "engines_built_without_blocks": 0, "engines_built_with_empty_block": 0, "restarts_without_blocks": 0, "restarts_without_blocks_carrying_state": 0,
             "restarts_with_empty_block": 0, "process_steps_with_fired_rule": 0, "stale_fuzzy_checks": 0, "stale_fuzzy_checks_disabled_output_with_old_terms": 0}
    distinct = set()
    for seq_no in range(ctx.n(460, 11500)):
        desc = E.gen_engine(ctx.rng, profile=ctx.rng.choice(["algebraic", "algebraic", "mixed"]), activations=ACTS, weighted=True, refs=True)
        if ctx.rng.random() < 0.5:
            for o in desc["outputs"]:
                o["lock_previous"] = False
        # engines without rule blocks / with a block that has no rules (post-processing of the description: the random
        # stream of gen_engine is untouched)
        shape = ctx.rng.random()
        if shape < 0.07:
            desc["blocks"] = []
            stats["engines_built_without_blocks"] += 1
        elif shape < 0.12:
            ctx.rng.choice(desc["blocks"])["rules"] = []
            stats["engines_built_with_empty_block"] += 1
        with_refs = ctx.rng.random() < 0.15  # extra Function term reading other variables incl. outputs: implementation-side oracles only
        engine = E.build_engine(fl, desc)
        if with_refs:
            ov = engine.output_variables[0]
            ov.terms.append(fl.Linear("lin", [1.0] * len(engine.input_variables) + [0.5], engine))
            ov.terms.append(fl.Function.create("fun", " + ".join(iv.name for iv in engine.input_variables) + " + 1.0", engine))
        if any(t["class"] in ("Linear", "Function") for o in desc["outputs"] for t in o["terms"]):
            stats["function_linear_engines"] += 1
        e0_lit = E.lit_engine(fl, desc, engine)
        fll0 = str(engine)
        live = [engine]
        descs = [pycopy.deepcopy(desc)]
        cur = 0
        ops_lit, expected = [], []
        failed = False
        tbl_all = []
        nsteps = ctx.rng.randint(3, 12)
        forced = None
        for _ in range(nsteps):
            eng, d = live[cur], descs[cur]
            if not eng.rule_blocks:  # nothing to edit in the blocks: the state of the outputs is assigned by hand instead
                pool = ["set", "process", "process", "restart", "restart", "copy", "switch", "editoutput", "setstate", "setstate", "setstate"]
            else:
                pool = ["set", "set", "process", "process", "process", "restart", "copy", "switch", "editrule", "editoutput", "editblock"] * 3 + ["removeblocks", "droprules", "setstate", "setstate"]
            kind = ctx.rng.choice(pool)
            if forced is not None:
                kind, forced = forced, None
            if kind == "editrule" and not any(rb.rules for rb in eng.rule_blocks):
                kind = "process"
            before = [snapshot(e) for e in live]
            stats["ops"][kind] = stats["ops"].get(kind, 0) + 1
            raised = None
            if kind == "set":
                i = ctx.rng.randrange(len(eng.input_variables))
                x = E.gen_row(ctx.rng, d)[i]
                eng.input_variables[i].value = x
                ops_lit.append(f"(OSet {i} {vlib.fhex(x)})")
            elif kind == "process":
                fll_before = str(eng)
                old_terms = [list(ov.fuzzy.terms) for ov in eng.output_variables]  # holds the objects: their ids stay theirs
                with vlib.patch_observed():
                    vlib.RECORDER.reset()
                    try:
                        with np.errstate(all="ignore"):
                            eng.process()
                    except Exception as ex:  # noqa
                        raised = ex
                    tbl_all += vlib.RECORDER.take()
                ops_lit.append("OProcess")
                if str(eng) != fll_before:
                    verdict.add_violation("history:process-changes-configuration", "Engine.process() changed the engine's configuration (its FuzzyLite Language text differs before and after)",
                                          {"engine_fll": fll_before, "after": str(eng), "inputs": [last(iv.value) for iv in eng.input_variables]})
                    nviol += 1
                if raised is None:
                    nviol += check_after_process(ctx, verdict, fl, eng, d, with_refs and cur == 0, stats, old_terms, fll0, list(ops_lit))
                    if any(bool(np.asarray(r.triggered).any()) for rb in eng.rule_blocks for r in rb.rules):
                        distinct.add((seq_no, len(ops_lit)))
                        stats["process_steps_with_fired_rule"] += 1
            elif kind == "restart":
                carrying = any(not math.isnan(last(ov.value)) or not math.isnan(last(ov.previous_value)) or ov.fuzzy.terms for ov in eng.output_variables)
                if not eng.rule_blocks:
                    stats["restarts_without_blocks"] += 1
                    stats["restarts_without_blocks_carrying_state"] += carrying
                    if carrying:
                        distinct.add((seq_no, len(ops_lit) + 1))
                elif any(not rb.rules for rb in eng.rule_blocks):
                    stats["restarts_with_empty_block"] += 1
                eng.restart()
                ops_lit.append("ORestart")
                nviol += check_after_restart(ctx, verdict, fl, eng, d, with_refs and cur == 0, stats, fll0, list(ops_lit))
            elif kind == "copy":
                c = eng.copy()
                live.append(c)
                descs.append(pycopy.deepcopy(d))
                cur = len(live) - 1
                ops_lit.append("OCopy")
                nviol += check_copy_graph(verdict, fl, eng, c, stats)
            elif kind == "switch":
                cur = ctx.rng.randrange(len(live))
                ops_lit.append(f"(OSwitch {cur})")
            elif kind == "removeblocks":  # an engine with NO rule blocks, whose outputs keep what earlier steps left
                eng.rule_blocks = []
                d["blocks"] = []
                ops_lit.append("ORemoveBlocks")
                if ctx.rng.random() < 0.5:
                    forced = "restart"
            elif kind == "droprules":  # a block with zero rules
                bi = ctx.rng.randrange(len(eng.rule_blocks))
                eng.rule_blocks[bi].rules = []
                d["blocks"][bi]["rules"] = []
                ops_lit.append(f"(ODropRules {bi})")
            elif kind == "setstate":  # the state of an output variable assigned by hand
                oi = ctx.rng.randrange(len(eng.output_variables))
                o = d["outputs"][oi]
                v = ctx.rng.choice([ctx.rng.uniform(o["min"], o["max"]), o["min"] - 1.5, o["max"] + 0.25, 0.0, math.inf])
                pv = ctx.rng.choice([ctx.rng.uniform(o["min"], o["max"]), v, -2.0, math.nan])
                ti = ctx.rng.randrange(len(o["terms"]))
                dg = ctx.rng.choice([1.0, 0.5, ctx.rng.random(), 0.0])
                ov = eng.output_variables[oi]
                ov.value = v
                ov.previous_value = pv
                ov.fuzzy.terms.append(fl.Activated(ov.terms[ti], dg))
                ops_lit.append(f"(OSetOutputState {oi} {vlib.fhex(v)} {vlib.fhex(pv)} {ti} {vlib.fhex(dg)})")
                if ctx.rng.random() < 0.4:
                    forced = "restart"
            elif kind == "editrule":
                bi = ctx.rng.choice([k for k, rb in enumerate(eng.rule_blocks) if rb.rules])
                ri = ctx.rng.randrange(len(eng.rule_blocks[bi].rules))
                en = ctx.rng.random() < 0.7
                w = ctx.rng.choice([1.0, 0.5, 0.25, 0.0])
                eng.rule_blocks[bi].rules[ri].enabled = en
                eng.rule_blocks[bi].rules[ri].weight = w
                d["blocks"][bi]["rules"][ri]["enabled"] = en
                d["blocks"][bi]["rules"][ri]["weight"] = w
                ops_lit.append(f"(OEditRule {bi} {ri} {str(en).lower()} {vlib.fhex(w)})")
            elif kind == "editoutput":
                oi = ctx.rng.randrange(len(eng.output_variables))
                en = ctx.rng.random() < 0.8
                dv = ctx.rng.choice([math.nan, 0.25, -1.0])
                eng.output_variables[oi].enabled = en
                eng.output_variables[oi].default_value = dv
                d["outputs"][oi]["enabled"] = en
                d["outputs"][oi]["default"] = dv
                if not en and eng.output_variables[oi].fuzzy.terms and ctx.rng.random() < 0.7:
                    forced = "process"  # a disabled output variable that holds activated terms of an earlier step
                ops_lit.append(f"(OEditOutput {oi} {str(en).lower()} {vlib.fhex(dv)})")
            else:
                bi = ctx.rng.randrange(len(eng.rule_blocks))
                en = ctx.rng.random() < 0.7
                eng.rule_blocks[bi].enabled = en
                d["blocks"][bi]["enabled"] = en
                ops_lit.append(f"(OEditBlock {bi} {str(en).lower()})")
            stats["steps"] += 1
            # isolation: an operation on the current engine never changes any other live engine
            after = [snapshot(e) for e in live]
            cur_after = cur
            for k, (a, b) in enumerate(zip(before, after)):
                touched = (k == cur_after) or (kind == "copy" and k == len(before) - 0)
                if kind in ("switch",):
                    touched = False
                if not touched and a != b:
                    verdict.add_violation("copy:shared-state", f"operation {kind} on engine #{cur_after} changed engine #{k}", {"ops": ops_lit, "engine_fll": str(engine)})
                    nviol += 1
            stats["isolation_checks"] += len(before)
            if raised is not None:
                expected.append(f"(inr {err_code(raised)})")
                failed = True
                break
            expected.append(f"(inl ({vlib.coq_list(obs_lit(e) for e in live)}, {cur}))")
        stats["sequences"] += 1
        if not with_refs and len(tbl_all) < 6000:
            # dedupe oracle entries
            seen, tbl = set(), []
            for t in tbl_all:
                key = (t[0], vlib.fkey(t[1]), vlib.fkey(t[2]))
                if key not in seen:
                    seen.add(key)
                    tbl.append(t)
            lits.append(f"({e0_lit}, {vlib.coq_list(ops_lit)}, {vlib.coq_list(expected)}, {vlib.oracle_lit(tbl)})")
            index.append({"sequence": seq_no, "ops": ops_lit, "raised": failed})
    bad, log = ([], "") if build.translation_errors else vlib.run_coq_cases(ctx.work, "c13", IMPORTS, [(CASE_TYPE, CHECKER, lits)], chunk=ctx.n(30, 60))
    mism = []
    for i in bad:
        if i < 0:
            verdict.add_broken("correspondence", "C13:coq-evaluation", log)
            break
        mism.append(index[i])
    if mism:
        verdict.add_broken("correspondence", "operation sequences on engine stores", f"model and implementation differ on {len(mism)} of {len(index)} sequences, first: {mism[:2]}")
    c = ev["coverage"]
    c["evaluations"] = stats["steps"]
    c["distinct_nontrivial"] = len(distinct)
    c["rule"] = ("operation sequences of length 3-12 over {set an input, process, restart, copy and switch to the copy, switch, edit a rule's enabled/weight, an output's enabled/default, a block's enabled, remove all rule blocks, drop the rules of a block, assign an output's value / previous value / one activated term by hand} on generated engines "
                 "(7 % built without rule blocks, 5 % with a block that has no rules; a restart is forced after half of the block removals) "
                 "(all activation methods, integral and weighted defuzzifiers, Linear and Function terms referencing the engine evaluated by the formula model; 15 % get extra reference terms appended after construction and are checked on the implementation only); after every step the observables of EVERY live engine "
                 "are compared with the model's store; non-trivial = distinct (sequence, position) of a process step in which a rule fired, or of a restart of an engine without rule blocks whose outputs carried state")
    c["distribution"] = stats
    c["correspondence_mismatches"] = len(mism)
    c["oracle_violations"] = nviol
    c["samples"] = index[:3]
    ev["assumptions"] += ["copy() is the identity on values in the model; absence of shared mutable objects after deepcopy is checked on the implementation's object graph (ids) and behaviourally, not proved",
                          "restart reloads rules from their text; the model keeps the loaded trees (C06 relates text and tree)"]


def fuzzy_of(engine):
    return [[(a.term.name, vlib.fkey(last(a.degree))) for a in ov.fuzzy.terms] for ov in engine.output_variables]


def check_after_process(ctx, verdict, fl, eng, d, has_refs, stats, old_terms=None, fll0="", ops=()):
    """history-freedom and idempotence on the implementation."""
    n = 0
    # process() clears the fuzzy output of EVERY output variable first (enabled or not), so afterwards a fuzzy output
    # holds only Activated objects made in this step: none of the objects it held before the call (identity, the old
    # objects are kept alive by `old_terms`), whatever lock-previous says
    stale = []
    if old_terms is not None:
        stats["stale_fuzzy_checks"] += 1
        for ov, old in zip(eng.output_variables, old_terms):
            stats["stale_fuzzy_checks_disabled_output_with_old_terms"] += bool(old) and not ov.enabled
            kept = [a for a in ov.fuzzy.terms if any(a is b for b in old)]
            if kept:
                stale.append(f"{ov.name} ({'enabled' if ov.enabled else 'disabled'}) keeps {[(a.term.name, last(a.degree)) for a in kept]}")
    if stale:
        verdict.add_violation("history:stale-fuzzy-output", f"after process() the fuzzy output still holds terms activated by an earlier step: {stale}",
                              {"engine_fll": fll0, "ops": list(ops), "inputs": [last(iv.value) for iv in eng.input_variables]})
        n += 1
    if history_sensitive(d):
        return n
    got = outputs(eng, True)
    # processing twice gives the same result (on a deep copy, so the sequence is not disturbed)
    twin = eng.copy()
    try:
        with np.errstate(all="ignore"):
            twin.process()
    except Exception as ex:  # noqa  (the step that just succeeded fails when repeated)
        verdict.add_violation("history:not-idempotent", f"processing a second time raises {type(ex).__name__}: {ex}", {"engine_fll": str(eng), "initial_engine_fll": fll0, "ops": list(ops), "inputs": [last(iv.value) for iv in eng.input_variables]})
        return n + 1
    stats["idempotence_checks"] += 1
    if not same(outputs(twin, True), got):
        verdict.add_violation("history:not-idempotent", f"processing twice changed the outputs: {got} then {outputs(twin, True)}", {"engine_fll": str(eng), "inputs": [last(iv.value) for iv in eng.input_variables]})
        n += 1
    # a freshly built engine with the same inputs gives the same outputs: earlier steps leave no trace
    if not has_refs:
        fresh = E.build_engine(fl, d)
        for a, b in zip(fresh.input_variables, eng.input_variables):
            a.value = last(b.value)
        try:
            with np.errstate(all="ignore"):
                fresh.process()
        except Exception as ex:  # noqa  (the used engine processed these inputs without an error)
            verdict.add_violation("history:trace", f"a freshly built engine raises {type(ex).__name__}: {ex} on inputs the used engine processed to {got}", {"engine_fll": str(eng), "initial_engine_fll": fll0, "ops": list(ops), "inputs": [last(iv.value) for iv in eng.input_variables]})
            return n + 1
        stats["history_free_checks"] += 1
        if not same(outputs(fresh, True), got):
            verdict.add_violation("history:trace", f"outputs {got} differ from those of a freshly built engine {outputs(fresh, True)} for the same inputs", {"engine_fll": str(eng), "inputs": [last(iv.value) for iv in eng.input_variables]})
            n += 1
        elif not stale and fuzzy_of(fresh) != fuzzy_of(eng):  # the fuzzy outputs of ALL output variables, enabled or not
            verdict.add_violation("history:trace-fuzzy-output", f"fuzzy outputs {fuzzy_of(eng)} differ from those of a freshly built engine {fuzzy_of(fresh)} for the same inputs",
                                  {"engine_fll": fll0, "ops": list(ops), "inputs": [last(iv.value) for iv in eng.input_variables]})
            n += 1
    return n


def check_after_restart(ctx, verdict, fl, eng, d, has_refs, stats, fll0="", ops=()):
    n = 0
    stats["restart_checks"] += 1
    bad = []
    if not all(math.isnan(last(iv.value)) for iv in eng.input_variables):
        bad.append("inputs not NaN")
    for ov in eng.output_variables:
        if not math.isnan(last(ov.value)) or not math.isnan(last(ov.previous_value)) or ov.fuzzy.terms:
            bad.append(f"output {ov.name} not cleared")
    for rb in eng.rule_blocks:
        for r in rb.rules:
            if not r.is_loaded() or last(r.activation_degree) != 0.0 or bool(np.asarray(r.triggered).any()):
                bad.append("rule not reloaded/deactivated")
    if bad:
        verdict.add_violation("restart:not-clean", f"after restart() of an engine with {len(eng.rule_blocks)} rule block(s): {sorted(set(bad))}", {"engine_fll": str(eng), "initial_engine_fll": fll0, "ops": list(ops)})
        n += 1
    if not has_refs:  # behaves exactly like a freshly built engine, lock-previous included
        fresh = E.build_engine(fl, d)
        probe = eng.copy()
        for _ in range(2):
            row = E.gen_row(ctx.rng, d)
            for e in (fresh, probe):
                for iv, x in zip(e.input_variables, row):
                    iv.value = x
                try:
                    with np.errstate(all="ignore"):
                        e.process()
                except Exception:  # noqa
                    pass
            if not same(outputs(fresh), outputs(probe)):
                verdict.add_violation("restart:differs-from-fresh", f"after restart() the engine gives {outputs(probe)}, a freshly built one {outputs(fresh)} for inputs {row}", {"engine_fll": str(eng), "inputs": row})
                n += 1
                break
    return n


def check_copy_graph(verdict, fl, eng, c, stats):
    stats["copy_graph_checks"] += 1
    a, b = reachable_objects(eng), reachable_objects(c)
    shared = [type(a[i]).__name__ for i in a.keys() & b.keys()]
    n = 0
    if shared:
        verdict.add_violation("copy:shared-object", f"engine and its copy share mutable objects: {sorted(set(shared))[:6]}", {"engine_fll": str(eng)})
        n += 1
    for v in c.variables:
        for t in v.terms:
            ref = getattr(t, "engine", None)
            if ref is not None and ref is not c:
                verdict.add_violation("copy:term-references-original", f"term {t.name} of the copy references another engine", {"engine_fll": str(eng)})
                n += 1
    if str(c) != str(eng) or repr(c) != repr(eng):
        verdict.add_violation("copy:differs", "the copy's FLL/repr differs from the original's", {"engine_fll": str(eng)})
        n += 1
    return n


def replay(ctx, data):
    for v in data.get("violations", []):
        print(v["what"])
        print("  replay:", {k: (str(x)[:300]) for k, x in v["replay"].items()})
    for b in data.get("broken", []):
        print("BROKEN", b["kind"], b["name"], "\n", b["detail"][:1500])
    return 0
