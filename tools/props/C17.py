"""C17 — Function formulas follow the documented precedence and associativity.

Correspondence: random well-typed expression trees (depth <= 5, all 13 operators, all 34 functions/constants, literals,
1-3 variables) printed with minimal/redundant parentheses and arbitrary spacing, ill-formed variants and token soups are
loaded with fl.Function.create; the postfix token list (Function.infix_to_postfix), the tree (Function.parse) and the values
(Node.evaluate / Function.membership on scalars and arrays) are compared exactly with the Coq model (Model/Formula.v,
Model/ShuntingYard.v over Gen/GenOpTable.v) evaluated with primitive floats; libm/rounding results are recorded from the
implementation's own element methods.
Direct oracle: an independent evaluator of the generator's tree (documented precedence = the tree itself, documented numeric
meaning of every operator/function, relational functions as 0/1 numbers, truth = non-zero), tolerance 1e-9; ill-formed
variants must be rejected when loaded; Node.postfix() must be the postfix form of the generator's tree."""
from __future__ import annotations

import math
import os
import re
import warnings

import numpy as np

import vlib

COQ_TARGETS = ["Proofs/FormulaProofs.vo"]

# ------------------------------------------------------------------ the documented table (independent of the code)
R, L = 1, -1
OPS = {  # name: (precedence, associativity, arity)
    "!": (100, R, 1), "~": (100, R, 1),
    "^": (90, R, 2), "**": (90, R, 2), ".-": (90, R, 1), ".+": (90, R, 1),
    "*": (80, L, 2), "/": (80, L, 2), "%": (80, L, 2),
    "+": (70, L, 2), "-": (70, L, 2),
    "and": (60, L, 2), "or": (50, L, 2),
}
FN1 = ["acos", "asin", "atan", "ceil", "cos", "cosh", "exp", "abs", "fabs", "floor", "log", "log10", "round", "sin", "sinh",
       "sqrt", "tan", "tanh", "log1p", "acosh", "asinh", "atanh"]
REL = ["gt", "ge", "eq", "neq", "le", "lt"]
FN2 = ["min", "max", "pow", "atan2", "fmod"]
CONST0 = ["pi"]
ARITH2 = ["^", "**", "*", "/", "%", "+", "-"]
ARITH1 = ["~", ".-", ".+"]
BOOLISH = {"eq", "neq", "ge", "le"}          # documented as 0/1 numbers
LITERALS = ["0", "1", "2", "3", "0.5", "1.5", "2.25", "10", ".5", "4.", "007", "1e2", "2E1", "0.1", "3.14159", "100", "0.25",
            "1_0", "12345678901234567890", "0.30000000000000004", "7", "1.0", "inf", "nan"]
VARNAMES = ["x", "y", "z", "a", "b1", "temp", "Var_2", "q"]
ERR = {"SyntaxError": "ESyntax", "ValueError": "EValue", "TypeError": "EInternal", "UFuncTypeError": "EInternal",
       "RuntimeError": "ERuntime", "KeyError": "ELookup"}
DEC = re.compile(r"^(\d+\.?\d*|\.\d+)$")


class Unspecified(Exception):
    pass


class N:
    __slots__ = ("kind", "name", "kids")

    def __init__(self, kind, name, kids=()):
        self.kind, self.name, self.kids = kind, name, list(kids)

    def depth(self):
        return 1 + max([k.depth() for k in self.kids], default=0)

    def size(self):
        return 1 + sum(k.size() for k in self.kids)

    def symbols(self):
        s = {self.name} if self.kind in ("op", "fn", "const") else set()
        for k in self.kids:
            s |= k.symbols()
        return s


# ------------------------------------------------------------------ generation
def gen(rng, depth, allow_b, names, budget):
    """A well-typed tree: truth-valued (and/or/!) nodes only under logical operators or at the root."""
    if depth <= 1 or budget[0] <= 0 or rng.random() < 0.12:
        budget[0] -= 1
        r = rng.random()
        if r < 0.42:
            lit = rng.choice(LITERALS[:-2]) if rng.random() < 0.97 else rng.choice(LITERALS[-2:])
            return N("num", lit)
        if r < 0.94:
            return N("var", rng.choice(names))
        return N("const", "pi")
    budget[0] -= 1
    r = rng.random()
    if allow_b and r < 0.30:
        o = rng.choice(["and", "or", "and", "or", "!"])
        if o == "!":
            return N("op", o, [gen(rng, depth - 1, True, names, budget)])
        return N("op", o, [gen(rng, depth - 1, True, names, budget), gen(rng, depth - 1, True, names, budget)])
    r = rng.random()
    if r < 0.36:
        return N("op", rng.choice(ARITH2), [gen(rng, depth - 1, False, names, budget), gen(rng, depth - 1, False, names, budget)])
    if r < 0.48:
        return N("op", rng.choice(ARITH1), [gen(rng, depth - 1, False, names, budget)])
    if r < 0.68:
        return N("fn", rng.choice(FN1), [gen(rng, depth - 1, False, names, budget)])
    if r < 0.82:
        return N("fn", rng.choice(REL), [gen(rng, depth - 1, False, names, budget), gen(rng, depth - 1, False, names, budget)])
    return N("fn", rng.choice(FN2), [gen(rng, depth - 1, False, names, budget), gen(rng, depth - 1, False, names, budget)])


def tokens(node, lvl, rng, p_red):
    """Level-based printer: level 2*precedence, +1 on the non-associating side, prefix operand at the operator's level,
    arguments at level 0; redundant parentheses with probability p_red."""
    if node.kind in ("num", "var", "const"):
        t = [node.name]
        need = False
    elif node.kind == "op":
        prec, assoc, arity = OPS[node.name]
        own = 2 * prec
        if arity == 2:
            ll, rl = (own + 1, own) if assoc == R else (own, own + 1)
            t = tokens(node.kids[0], ll, rng, p_red) + [node.name] + tokens(node.kids[1], rl, rng, p_red)
        else:
            t = [node.name] + tokens(node.kids[0], own, rng, p_red)
        need = lvl > own
    else:
        t = [node.name, "("]
        for i, k in enumerate(node.kids):
            if i:
                t.append(",")
            t += tokens(k, 0, rng, p_red)
        t.append(")")
        need = False
    if need or rng.random() < p_red:
        t = ["("] + t + [")"]
    return t


def wordlike(c):
    return c.isalnum() or c in "_."


def join(toks, rng, loose):
    """Arbitrary spacing.  loose: no blank where the tokeniser does not need one."""
    out = [rng.choice(["", "", " ", "\t "])]
    for i, t in enumerate(toks):
        if i:
            a = toks[i - 1]
            need = (wordlike(a[-1]) and wordlike(t[0])) or (a[-1] == "." and t[0] in "+-") or (a == "*" and t[0] == "*") or not loose
            out.append(rng.choice([" ", "  ", "\t", " \n "]) if need else rng.choice(["", "", " ", "  "]))
        out.append(t)
    out.append(rng.choice(["", "", " ", "\n"]))
    return "".join(out)


def my_tokens(text):
    """The documented tokenisation (operator characters and parentheses are tokens of their own), written independently."""
    keys = sorted([o for o in OPS if o not in ("and", "or")] + ["(", ")", ","], reverse=True)
    rx = "|".join(re.escape(k) for k in keys)
    return re.sub(rf"({rx})", r" \1 ", text).split()


# ------------------------------------------------------------------ the independent evaluator
def tr(v):
    return bool(v != 0)     # nan is non-zero


def f64(b):
    return np.float64(1.0 if b else 0.0)


def eqn(a, b):
    return bool(a == b) or (bool(a != a) and bool(b != b))


NP1 = {"acos": np.arccos, "asin": np.arcsin, "atan": np.arctan, "ceil": np.ceil, "cos": np.cos, "cosh": np.cosh, "exp": np.exp,
       "abs": np.fabs, "fabs": np.fabs, "floor": np.floor, "log": np.log, "log10": np.log10, "round": np.round, "sin": np.sin,
       "sinh": np.sinh, "sqrt": np.sqrt, "tan": np.tan, "tanh": np.tanh, "log1p": np.log1p, "acosh": np.arccosh,
       "asinh": np.arcsinh, "atanh": np.arctanh}


def oracle_eval(node, env):
    k, n = node.kind, node.name
    if k == "num":
        return np.float64(float(n))
    if k == "var":
        return np.float64(env[n])
    if k == "const":
        return np.float64(math.pi)
    a = oracle_eval(node.kids[0], env)
    b = oracle_eval(node.kids[1], env) if len(node.kids) > 1 else None
    if k == "op":
        if n == "!":
            return f64(not tr(a))
        if n in ("~", ".-"):
            return -a
        if n == ".+":
            return +a
        if n in ("^", "**"):
            return np.float64(a) ** np.float64(b)
        if n == "*":
            return a * b
        if n == "/":
            return a / b
        if n == "%":
            return a % b
        if n == "+":
            return a + b
        if n == "-":
            return a - b
        if n == "and":
            return f64(tr(a) and tr(b))
        if n == "or":
            return f64(tr(a) or tr(b))
    if n in NP1:
        return np.float64(NP1[n](a))
    if n == "gt":
        return f64(a > b)
    if n == "lt":
        return f64(a < b)
    if n == "ge":
        return f64(bool(a >= b) or eqn(a, b))
    if n == "le":
        return f64(bool(a <= b) or eqn(a, b))
    if n == "eq":
        return f64(eqn(a, b))
    if n == "neq":
        return f64(not eqn(a, b))
    if n in ("min", "max"):
        if a != a or b != b:
            raise Unspecified()       # "Minimum"/"Maximum": the documentation does not say what they do with NaN
        return min(a, b) if n == "min" else max(a, b)
    if n == "pow":
        return np.float64(a) ** np.float64(b)
    if n == "atan2":
        return np.float64(np.arctan2(a, b))
    if n == "fmod":
        return np.float64(np.fmod(a, b))
    raise KeyError(n)


def close(a, b):
    a, b = float(a), float(b)
    if a != a or b != b:
        return a != a and b != b
    if math.isinf(a) or math.isinf(b):
        return a == b
    return abs(a - b) <= 1e-9 * max(1.0, abs(a), abs(b))


def postfix_of(node, fl):
    if node.kind == "num":
        return [fl.Op.str(float(node.name))]
    if node.kind in ("var", "const"):
        return [node.name]
    out = []
    for k in node.kids:
        out += postfix_of(k, fl)
    return out + [node.name]


def number_uses_indicator(node, parent_logical=True):
    """Does a result of eq/neq/ge/le flow into something other than and/or/! or the final result?"""
    here = node.kind == "fn" and node.name in BOOLISH and not parent_logical
    logical = node.kind == "op" and node.name in ("and", "or", "!")
    return here or any(number_uses_indicator(k, logical) for k in node.kids)


# ------------------------------------------------------------------ implementation side
def method_keys():
    """name -> method string, exactly as in the generated table the model reads."""
    txt = open(os.path.join(vlib.COQ, "Gen", "GenOpTable.v")).read()
    return {m.group(1): m.group(2) for m in re.finditer(r'\("([^"]+)", (?:true|false), "([^"]*)", \d+%nat', txt)}


ORACLE_METHODS = {"np.arccos", "np.arcsin", "np.arctan", "np.ceil", "np.cos", "np.cosh", "np.exp", "np.floor", "np.log", "np.log10",
                  "np.round", "np.sin", "np.sinh", "np.tan", "np.tanh", "np.log1p", "np.arccosh", "np.arcsinh", "np.arctanh",
                  "np.float_power", "np.remainder", "np.fmod", "np.arctan2"}


def instrument(root, keys, table):
    """Wrap the element methods of THIS tree's own Element copies so that libm/rounding results are recorded."""
    stack = [root]
    while stack:
        n = stack.pop()
        if n is None:
            continue
        if n.element is not None:
            key = keys.get(n.element.name)
            if key in ORACLE_METHODS:
                orig = n.element.method

                def rec(*args, _orig=orig, _key=key):
                    r = _orig(*args)
                    ra = np.asarray(r)
                    if ra.dtype == np.float64:
                        try:
                            arrs = [np.asarray(a, dtype=np.float64) for a in args]
                            if len(arrs) == 1:
                                arrs.append(np.zeros(()))
                            for a, b, v in zip(*(x.ravel() for x in np.broadcast_arrays(*arrs, ra))):
                                table.append((_key, float(a), float(b), float(v)))
                        except (ValueError, TypeError):
                            pass
                    return r

                n.element.method = rec
        stack += [n.left, n.right]


def dedupe(table):
    seen, out = set(), []
    for m, a, b, r in table:
        k = (m, vlib.fkey(a), vlib.fkey(b))
        if k not in seen:
            seen.add(k)
            out.append((m, a, b, r))
    return out


def exc_name(e):
    for c in type(e).__mro__:
        if c.__name__ in ERR:
            return ERR[c.__name__]
    return "EInternal"


def tree_lit(node):
    if node.element is not None:
        name = vlib.coq_string(node.element.name)
        ar = node.element.arity
        if ar == 0:
            return f"FElem0 {name}"
        if ar == 2:
            return f"FElem2 {name} ({tree_lit(node.left)}) ({tree_lit(node.right)})"
        return f"FElem1 {name} ({tree_lit(node.right or node.left)})"
    if node.variable:
        return f"FVar {vlib.coq_string(node.variable)}"
    return f"FConst ({vlib.fhex(float(node.constant))})"


def result_kind(r, n):
    """('F'|'B'|'N', values broadcast to n rows)"""
    a = np.asarray(r)
    kind = "F" if a.dtype == np.float64 else ("B" if a.dtype == np.bool_ else "N")
    vals = np.broadcast_to(a.reshape(-1) if a.ndim else a, (n,))
    return kind, [v.item() for v in vals]


def values_lit(kind, vals):
    if kind == "F":
        return vlib.coq_list(f"VF ({vlib.fhex(v)})" for v in vals)
    if kind == "B":
        return vlib.coq_list(f"VB {'true' if v else 'false'}" for v in vals)
    return vlib.coq_list("VN" for _ in vals)


def otab_lit(tab):
    return vlib.coq_list(f"({vlib.coq_string(m)}, {vlib.fhex(a)}, {vlib.fhex(b)}, {vlib.fhex(r)})" for m, a, b, r in tab)


def env_lit(env):
    return vlib.coq_list(f"({vlib.coq_string(k)}, {vlib.fhex(v)})" for k, v in env)


def strs_lit(l):
    return vlib.coq_list(vlib.coq_string(s) for s in l)


def extra_numbers(toks, fl):
    out = {}
    for t in toks:
        if t in OPS or t in "(),":
            continue
        if DEC.match(t) and sum(c.isdigit() for c in t) <= 15:
            continue        # the class the model decides itself
        try:
            out[t] = float(fl.library.to_float(t))
        except ValueError:
            pass
    return sorted(out.items())


def rand_value(rng):
    r = rng.random()
    if r < 0.45:
        return rng.choice([0.0, 1.0, 2.0, -1.0, 0.5, 3.0, -2.5, 1.5, 10.0, 0.25, 100.0, 7.0])
    if r < 0.75:
        return rng.randrange(-32, 33) / 8.0
    if r < 0.97:
        return rng.uniform(-4.0, 4.0)
    return rng.choice([math.inf, -math.inf, math.nan, 1e300, -0.0, 5e-324])


PREAMBLE = """From VF Require Import GenOpTable Core ShuntingYard Formula.
Import ListNotations.
Local Open Scope string_scope.
Local Open Scope list_scope.
Definition NF : Num float := NumF true [].
Definition otab := list (string * float * float * float).
Fixpoint tree_eqb (a b : fnode float) : bool :=
  match a, b with
  | FConst x, FConst y => fsame x y
  | FVar x, FVar y => String.eqb x y
  | FElem0 n, FElem0 m => String.eqb n m
  | FElem1 n x, FElem1 m y => String.eqb n m && tree_eqb x y
  | FElem2 n l r, FElem2 m l' r' => String.eqb n m && tree_eqb l l' && tree_eqb r r'
  | _, _ => false
  end.
Definition res_eqb {A} (eq : A -> A -> bool) (a b : result A) : bool :=
  match a, b with Ok x, Ok y => eq x y | Err e, Err f => err_eqb e f | _, _ => false end.
Fixpoint list_eqb {A} (eq : A -> A -> bool) (a b : list A) : bool :=
  match a, b with [], [] => true | x :: a', y :: b' => eq x y && list_eqb eq a' b' | _, _ => false end.
(* model value (got) vs implementation value (exp; the harness encodes float64 as VF, bool as VB, any narrower dtype as VN):
   VN = a non-boolean number the model does not determine, VBu = a boolean it does not determine *)
Definition val_ok (got exp : value float) : bool :=
  match got, exp with
  | VN, VF _ | VN, VN => true
  | VBu, VB _ => true
  | VF a, VF b => fsame a b
  | VB a, VB b => Bool.eqb a b
  | _, _ => false
  end.
Definition res_ok (got exp : result (list (value float))) : bool :=
  match got with
  | Ok l => match exp with Ok l' => list_eqb val_ok l l' | Err _ => false end
  | Err e => match exp with Err f => err_eqb e f | Ok _ => false end
  end.
Definition mk_engine (ins outs : list (string * float)) : engine float :=
  {| e_name := "";
     e_inputs := map (fun p => {| iv_name := fst p; iv_enabled := true; iv_min := neg_infinity; iv_max := infinity;
                                  iv_lock_range := false; iv_terms := []; iv_value := snd p |}) ins;
     e_outputs := map (fun p => {| ov_name := fst p; ov_enabled := true; ov_min := neg_infinity; ov_max := infinity;
                                   ov_lock_range := false; ov_lock_previous := false; ov_default := PrimFloat.nan;
                                   ov_aggregation := None; ov_defuzzifier := None; ov_terms := []; ov_value := snd p;
                                   ov_previous := PrimFloat.nan; ov_fuzzy := [] |}) outs;
     e_blocks := [] |}.
Fixpoint mem_rows (orc : string -> float -> float -> option float) (root : option (fnode float)) (tv : list (string * float))
         (eng : option (engine float)) (xs : list float) : result (list (value float)) :=
  match xs with
  | [] => Ok []
  | x :: tl => match membership (NT:=NF) op_table orc root tv eng x with
               | Ok v => match mem_rows orc root tv eng tl with Ok vs => Ok (v :: vs) | Err e => Err e end
               | Err e => Err e
               end
  end.
Definition evalcase : Type := otab * list (list (string * float)) * result (list (value float)).
Definition memcase : Type := otab * list (string * float) * bool * list (string * float) * list (string * float) * list float * result (list (value float)).
Definition case : Type := string * list (string * float) * result (list string) * result (fnode float) * list evalcase * list memcase.
Definition check (c : case) : bool :=
  let '(text, extra, exp_postfix, exp_tree, evals, mems) := c in
  let pn := number_of (NT:=NF) extra in
  let got := parse_text op_table pn "and" "or" text in
  res_eqb (list_eqb String.eqb) (infix_to_postfix_text op_table "and" "or" text) exp_postfix &&
  res_eqb tree_eqb got exp_tree &&
  match got with
  | Ok t =>
      forallb (fun ec : evalcase => let '(tab, rows, expected) := ec in
                 res_ok (evaluate_rows (NT:=NF) op_table (olookup fsame tab) rows t) expected) evals &&
      forallb (fun mc : memcase => let '(tab, tv, has_eng, ins, outs, xs, expected) := mc in
                 res_ok (mem_rows (olookup fsame tab) (Some t) tv (if has_eng then Some (mk_engine ins outs) else None) xs) expected) mems
  | Err _ => true
  end.
"""
CASE_TYPE = "case"


# ------------------------------------------------------------------ one formula
class Item:
    def __init__(self, cls, text, toks, tree=None):
        self.cls, self.text, self.toks, self.tree = cls, text, toks, tree
        self.evals, self.mems = [], []
        self.loaded = None
        self.load_exc = None


def impl_load(fl, text, engine=None):
    try:
        return fl.Function.create("f", text, engine), None
    except Exception as e:  # noqa
        return None, e


def run_eval(fl, item, keys, env_rows, bigs, variables, verdict, stats):
    """Evaluate on the implementation (unobserved) and on an instrumented twin (recording); returns the Coq eval case."""
    n = len(env_rows)
    try:
        r = item.loaded.evaluate(dict(variables))
        outcome = ("ok",) + result_kind(r, n)
    except Exception as e:  # noqa
        outcome = ("exc", exc_name(e), f"{type(e).__name__}: {e}")
    twin, _ = impl_load(fl, item.text)
    table = []
    instrument(twin.root, keys, table)
    try:
        r2 = twin.evaluate(dict(variables))
        out2 = ("ok",) + result_kind(r2, n)
    except Exception as e:  # noqa
        out2 = ("exc", exc_name(e), "")
    same = out2[:2] == outcome[:2] and (outcome[0] == "exc" or all(vlib.same_float(a, b) for a, b in zip(map(float, out2[2]), map(float, outcome[2]))))
    if not same:
        stats["observer_diff"] += 1
    table = dedupe(table)
    stats["oracle_entries"] += len(table)
    exp = f"Ok {values_lit(outcome[1], outcome[2])}" if outcome[0] == "ok" else f"Err {outcome[1]}"
    rows = vlib.coq_list(env_lit(row) for row in env_rows)
    lit = f"({otab_lit(table)}, {rows}, {exp})"
    return lit, outcome


def judge(item, outcome, env_rows, bigs, variables_repr, verdict, stats, viol):
    """Direct oracle on one evaluation of a well-formed generated formula."""
    tree = item.tree
    indicator = number_uses_indicator(tree)
    has_minmax = bool({"min", "max"} & tree.symbols())
    replay = {"formula": item.text, "variables": variables_repr}
    stats["oracle_evaluations"] += len(env_rows)
    if outcome[0] == "exc":
        msg = outcome[2]
        if outcome[1] == "EInternal" and indicator and ("boolean" in msg or "BoolDType" in msg):
            sig = "indicator:typeerror"
        elif outcome[1] == "EValue" and has_minmax and bigs and "truth value of an array" in msg:
            sig = "minmax:array"
        else:
            sig = "eval:exception"
        viol.append((sig, f"Function.create('f', {item.text!r}).evaluate({variables_repr}) raises {msg[:120]}; a well-formed formula with all variables given must evaluate", replay))
        return
    kind, vals = outcome[1], outcome[2]
    for i, (row, v) in enumerate(zip(env_rows, vals)):
        try:
            with np.errstate(all="ignore"):
                want = oracle_eval(tree, dict(row))
        except Unspecified:
            stats["oracle_unspecified"] += 1
            continue
        if not close(float(v), float(want)):
            if indicator:
                sig = "indicator:narrow-dtype" if kind == "N" else ("indicator:saturates" if kind == "B" else "indicator:narrow-intermediate")
            else:
                sig = "eval:value"
            viol.append((sig, f"Function.create('f', {item.text!r}).evaluate({variables_repr}) = {v!r} (row {i}), documented meaning {float(want)!r}", dict(replay, row=i, got=repr(v), want=float(want))))
            return


# ------------------------------------------------------------------ fixed probes (minimal, stable reproductions)
def _V(n):
    return N("var", n)


def _C(s):
    return N("num", s)


def _O(o, *k):
    return N("op", o, k)


def _F(f, *k):
    return N("fn", f, k)


FIXED = [  # (text, tree, [variable assignments: name -> float | list of floats])
    ("2^3^2", _O("^", _C("2"), _O("^", _C("3"), _C("2"))), [{}]),
    ("2-3-4", _O("-", _O("-", _C("2"), _C("3")), _C("4")), [{}]),
    ("2/4/8", _O("/", _O("/", _C("2"), _C("4")), _C("8")), [{}]),
    ("1+2*3", _O("+", _C("1"), _O("*", _C("2"), _C("3"))), [{}]),
    ("7%4*2", _O("*", _O("%", _C("7"), _C("4")), _C("2")), [{}]),
    (".-2^2", _O(".-", _O("^", _C("2"), _C("2"))), [{}]),
    ("~2^2", _O("^", _O("~", _C("2")), _C("2")), [{}]),
    ("2^.-2", _O("^", _C("2"), _O(".-", _C("2"))), [{}]),
    ("2**.+3**2", _O("**", _C("2"), _O(".+", _O("**", _C("3"), _C("2")))), [{}]),
    ("x or y and z", _O("or", _V("x"), _O("and", _V("y"), _V("z"))), [{"x": 0.0, "y": 1.0, "z": 0.0}, {"x": [0.0, 1.0], "y": [1.0, 0.0], "z": [2.0, 0.0]}]),
    ("!x and y", _O("and", _O("!", _V("x")), _V("y")), [{"x": 0.0, "y": 3.0}]),
    ("x+1 and y", _O("and", _O("+", _V("x"), _C("1")), _V("y")), [{"x": -1.0, "y": 3.0}]),
    ("gt(x,0)+gt(y,0)", _O("+", _F("gt", _V("x"), _C("0")), _F("gt", _V("y"), _C("0"))), [{"x": 1.0, "y": 1.0}, {"x": [1.0, -1.0], "y": [1.0, 1.0]}]),
    ("max(x,y)*pi", _O("*", _F("max", _V("x"), _V("y")), N("const", "pi")), [{"x": 1.0, "y": 2.0}]),
    # F7
    ("eq(x,1)+eq(y,1)", _O("+", _F("eq", _V("x"), _C("1")), _F("eq", _V("y"), _C("1"))), [{"x": 1.0, "y": 1.0}]),
    ("eq(x,1)-eq(y,1)", _O("-", _F("eq", _V("x"), _C("1")), _F("eq", _V("y"), _C("1"))), [{"x": 1.0, "y": 1.0}]),
    (".-ge(x,1)", _O(".-", _F("ge", _V("x"), _C("1"))), [{"x": 1.0}]),
    ("exp(eq(x,1))", _F("exp", _F("eq", _V("x"), _C("1"))), [{"x": 1.0}]),
    ("le(x,1)%neq(y,1)", _O("%", _F("le", _V("x"), _C("1")), _F("neq", _V("y"), _C("1"))), [{"x": 1.0, "y": 1.0}]),
    ("min(x,y)", _F("min", _V("x"), _V("y")), [{"x": 1.0, "y": 2.0}, {"x": [1.0, 2.0], "y": [2.0, 1.0]}, {"x": [1.0], "y": 2.0}]),
    ("max(x,1)", _F("max", _V("x"), _C("1")), [{"x": [0.0, 2.0]}]),
]
FIXED_ILLFORMED = [("compensating-arity", "max(1,2,3)+pow(2)"), ("compensating-arity", "max(1,2,3)-sin()"), ("missing-operand", "2+"),
                   ("missing-operand", "2+*3"), ("unbalanced-deleted", "(2+3"), ("unbalanced-deleted", "2+3)"), ("arity-missing-argument", "pow(2)"),
                   ("arity-missing-argument", "sin()"), ("arity-extra-argument", "pi(2)"), ("arity-extra-argument", "max(1,2,3)"),
                   ("missing-operand", ""), ("unbalanced-inserted", "max(1,(2)"), ("missing-operand", "x and")]


# ------------------------------------------------------------------ run
def run(ctx, build, verdict, ev):
    import fuzzylite as fl

    warnings.simplefilter("ignore")
    rng = ctx.rng
    keys = method_keys()
    nform = ctx.n(2000, 50000)
    stats = {k: 0 for k in ("observer_diff", "oracle_entries", "oracle_evaluations", "oracle_unspecified", "model_evaluations",
                            "membership_cases", "illformed", "soups", "accepted_soups")}
    dist = {}
    items: list[Item] = []
    viol = []
    seen_forms = set()
    nontrivial = set()

    def count(k):
        dist[k] = dist.get(k, 0) + 1

    def eval_columns(item, names, cols, arr_vars, n):
        env_rows = [[(v, cols[v][i]) for v in names] for i in range(n)]
        variables = [(v, (np.array(cols[v], dtype=np.float64) if v in arr_vars else cols[v][0])) for v in names]
        bigs = sorted(arr_vars) if n >= 2 else []
        lit, outcome = run_eval(fl, item, keys, env_rows, bigs, variables, verdict, stats)
        item.evals.append(lit)
        judge(item, outcome, env_rows, bigs, repr({v: (cols[v] if v in arr_vars else cols[v][0]) for v in names}), verdict, stats, viol)

    def check_loaded(item):
        item.loaded, item.load_exc = impl_load(fl, item.text)
        if item.loaded is None:
            viol.append(("parse:rejected-wellformed", f"Function.create('f', {item.text!r}) raises {type(item.load_exc).__name__}: {item.load_exc}", {"formula": item.text}))
            return False
        want_postfix = " ".join(postfix_of(item.tree, fl))
        got_postfix = item.loaded.root.postfix()
        if got_postfix != want_postfix:
            viol.append(("parse:tree", f"Function.create('f', {item.text!r}).root.postfix() = {got_postfix!r}, the documented precedence/associativity gives {want_postfix!r}", {"formula": item.text, "want_postfix": want_postfix}))
        return True

    def check_illformed(vcls, vtext, vtoks):
        vi = Item(vcls, vtext, vtoks)
        vi.loaded, vi.load_exc = impl_load(fl, vtext)
        items.append(vi)
        stats["illformed"] += 1
        count("illformed:" + vcls)
        if vi.loaded is not None:
            sig = "parse:compensating-arity-accepted" if vcls == "compensating-arity" else "parse:accepted-illformed"
            viol.append((sig, f"Function.create('f', {vtext!r}) is accepted (postfix {vi.loaded.root.postfix()!r}) although the formula is not well-formed ({vcls})", {"formula": vtext, "class": vcls}))
        elif not isinstance(vi.load_exc, SyntaxError):
            viol.append(("parse:unclean-rejection", f"Function.create('f', {vtext!r}) raises {type(vi.load_exc).__name__} instead of SyntaxError", {"formula": vtext, "class": vcls}))

    old_err = np.seterr(all="ignore")
    try:
        for text, tree, envs in FIXED:
            toks = tokens(tree, 0, rng, 0.0)
            assert my_tokens(text) == toks, (text, toks)
            item = Item("fixed", text, toks, tree)
            items.append(item)
            count("fixed")
            if not check_loaded(item):
                continue
            for envd in envs:
                names = sorted(envd)
                arr_vars = [v for v in names if isinstance(envd[v], list)]
                n = max([len(envd[v]) for v in arr_vars], default=1)
                cols = {v: (envd[v] if v in arr_vars else [envd[v]] * n) for v in names}
                eval_columns(item, names, cols, arr_vars, n)
        for vcls, vtext in FIXED_ILLFORMED:
            check_illformed(vcls, vtext, my_tokens(vtext))
        for _ in range(nform):
            nv = rng.choice([1, 2, 2, 3])
            names = rng.sample(VARNAMES, nv)
            depth = rng.choice([1, 2, 2, 3, 3, 4, 4, 5, 5, 5])
            tree = gen(rng, depth, True, names, [40])
            p_red = rng.choice([0.0, 0.0, 0.1, 0.3])
            toks = tokens(tree, 0, rng, p_red)
            text = join(toks, rng, loose=True)
            if my_tokens(text) != toks:       # the spacing chosen glued two tokens: use blanks everywhere
                text = join(toks, rng, loose=False)
            item = Item("wellformed", text, toks, tree)
            items.append(item)
            count(f"depth{tree.depth()}")
            count("redundant-parens" if p_red else "minimal-parens")
            for s in tree.symbols():
                count("sym:" + s)
            seen_forms.add(tuple(toks))
            if tree.depth() >= 2:
                nontrivial.add(tuple(toks))
            if not check_loaded(item):
                continue
            used = sorted({t for t in toks if t in names})
            # --- scalar evaluations
            for _k in range(2):
                env = [(v, rand_value(rng)) for v in names]
                variables = [(k, (np.float64(v) if rng.random() < 0.5 else v)) for k, v in env]
                lit, outcome = run_eval(fl, item, keys, [env], [], variables, verdict, stats)
                item.evals.append(lit)
                judge(item, outcome, [env], [], repr(dict(env)), verdict, stats, viol)
                count("eval:scalar")
            # --- array evaluation
            n = rng.choice([1, 2, 3, 4])
            arr_vars = [v for v in names if rng.random() < 0.7] or [names[0]]
            cols = {v: ([rand_value(rng) for _ in range(n)] if v in arr_vars else [rand_value(rng)] * n) for v in names}
            eval_columns(item, names, cols, arr_vars, n)
            count(f"eval:array{n}")
            # --- a missing variable
            if used and rng.random() < 0.15:
                env = [(v, rand_value(rng)) for v in names if v != used[0]]
                lit, outcome = run_eval(fl, item, keys, [env], [], env, verdict, stats)
                item.evals.append(lit)
                count("eval:missing-variable")
                if outcome[0] != "exc":
                    # nothing short-circuits: every variable of the tree is evaluated (another error may come first)
                    viol.append(("eval:missing-variable", f"Function.create('f', {text!r}).evaluate({dict(env)!r}) returns a value although {used[0]!r} has no value", {"formula": text, "variables": repr(dict(env))}))
            # --- membership with an engine and term variables
            if rng.random() < 0.2:
                membership_case(fl, rng, item, names, keys, stats, viol, count)
            # --- ill-formed variants
            for variant in illformed_variants(rng, tree, toks):
                vcls, vtoks = variant
                vtext = join(vtoks, rng, loose=False)
                check_illformed(vcls, vtext, vtoks)
        # --- token soups: model vs implementation only
        pool = list(OPS) + FN1[:6] + REL[:2] + FN2 + ["pi", "(", ")", ",", "(", ")"] + LITERALS[:8] + VARNAMES[:3] * 3
        for _ in range(ctx.n(300, 5000)):
            toks = [rng.choice(pool) for _ in range(rng.randrange(0, 9))]
            text = join(toks, rng, loose=rng.random() < 0.5)
            it = Item("soup", text, my_tokens(text))
            it.loaded, it.load_exc = impl_load(fl, text)
            stats["soups"] += 1
            if it.loaded is not None:
                stats["accepted_soups"] += 1
                names = sorted({t for t in it.toks if t in VARNAMES})
                env = [(v, rand_value(rng)) for v in names]
                lit, _ = run_eval(fl, it, keys, [env], [], env, verdict, stats)
                it.evals.append(lit)
            items.append(it)
            count("soup")
    finally:
        np.seterr(**old_err)

    # ---------------- the model, inside Coq
    lits, index = [], []
    for it in items:
        toks_all = my_tokens(it.text)
        extra = extra_numbers(toks_all, fl)
        try:
            pf = fl.Function.infix_to_postfix(it.text)
            exp_pf = f"Ok {strs_lit(pf.split())}"
        except Exception as e:  # noqa
            exp_pf = f"Err {exc_name(e)}"
        exp_tree = f"Ok ({tree_lit(it.loaded.root)})" if it.loaded is not None else f"Err {exc_name(it.load_exc)}"
        lits.append(f"({vlib.coq_string(it.text)}, {env_lit(extra)}, {exp_pf}, {exp_tree}, {vlib.coq_list(it.evals)}, {vlib.coq_list(it.mems)})")
        index.append(it)
        stats["model_evaluations"] += 1 + len(it.evals) + len(it.mems)
    mism = []
    if not build.translation_errors:
        bad, log = vlib.run_coq_cases(ctx.work, "c17", PREAMBLE, [(CASE_TYPE, "check", lits)], chunk=ctx.n(150, 400), timeout=ctx.n(900, 3000))
        for i in bad:
            if i < 0:
                verdict.add_broken("correspondence", "C17:coq-evaluation", log)
                break
            mism.append(index[i])
    if mism:
        verdict.add_broken("correspondence", f"Function parse/evaluate ({mism[0].cls})",
                           f"model and implementation differ on {len(mism)} formulas, first: {[m.text for m in mism[:5]]}")
    if stats["observer_diff"]:
        verdict.add_broken("harness", "observer-twin", f"the instrumented twin disagrees with the plain evaluation on {stats['observer_diff']} evaluations")

    # ---------------- violations: the shortest formula of each signature first
    viol.sort(key=lambda v: (len(v[2].get("formula", "")), v[0]))
    sig_counts = {}
    for sig, what, replay in viol:
        sig_counts[sig] = sig_counts.get(sig, 0) + 1
        if sig_counts[sig] <= 3:
            verdict.add_violation(sig, what, replay)

    c = ev["coverage"]
    c["evaluations"] = stats["model_evaluations"]
    c["distinct_nontrivial"] = len(nontrivial)
    c["rule"] = ("random well-typed trees (target depth 1-5, <= 40 nodes) over the 13 operators, 33 functions and pi, 24 literal forms and 1-3 of 8 variable names; "
                 "printed by the level-based printer with redundant-parenthesis probability 0/0.1/0.3 and random blanks (none where the tokeniser needs none); "
                 "each formula: 2 scalar assignments + 1 array assignment of length 1-4 (+ missing-variable, + membership with engine/term variables for ~20%), "
                 "3-5 ill-formed variants (missing operand, wrong arity, unbalanced parenthesis, compensating double arity error), plus random token soups (model vs code only); "
                 "non-trivial = distinct token sequences of trees of depth >= 2")
    c["distribution"] = dict(sorted(dist.items()))
    c["formulas"] = {"wellformed": nform, "distinct": len(seen_forms), "illformed_variants": stats["illformed"], "token_soups": stats["soups"], "token_soups_accepted": stats["accepted_soups"]}
    c["correspondence_mismatches"] = len(mism)
    c["oracle_violations"] = len(viol)
    c["oracle_violations_by_signature"] = sig_counts
    c["oracle_evaluations"] = stats["oracle_evaluations"]
    c["oracle_unspecified_minmax_nan"] = stats["oracle_unspecified"]
    c["recorded_libm_entries"] = stats["oracle_entries"]
    c["membership_cases"] = stats["membership_cases"]
    c["samples"] = [dict(cls=it.cls, formula=it.text, loaded=it.loaded is not None) for it in items[:: max(1, len(items) // 8)][:8]]
    ev["assumptions"] += [
        "libm/rounding results (exp log sin ... float_power remainder fmod arctan2 floor ceil round) are recorded from the implementation's own element methods on an instrumented twin of each formula; + - * / sqrt fabs negative comparisons are IEEE-exact in Coq's PrimFloat",
        "number literals outside digits[.digits] with <= 15 digits (exponents, inf, nan, underscores, long literals) are passed to the model as a table recorded from to_float; the decimal class is decided by the model itself",
        "values computed from a boolean (a result of and/or/!) used as a number — int8 from remainder/fmod of two booleans, float16 from float ufuncs on booleans; outside the property's typing, reachable only in token soups — are not modelled numerically (model value VN: predicted to occur, number not compared)",
        "ASCII formulas only (Python's \\s also matches non-ASCII blanks)",
    ]


def membership_case(fl, rng, item, names, keys, stats, viol, count):
    """Function.membership(x) with an engine: engine variables, term variables, the reserved name x and the three name clashes."""
    others = [v for v in names if v != "x"]
    rng.shuffle(others)
    k = rng.randrange(0, len(others) + 1)
    eng_names, term_names = others[:k], others[k:]
    clash = rng.random()
    ins = [(v, rand_value(rng)) for v in eng_names[::2]]
    outs = [(v, rand_value(rng)) for v in eng_names[1::2]]
    tv = [(v, rand_value(rng)) for v in term_names]
    kind = "plain"
    if clash < 0.1:
        tv.append(("x", 1.0)); kind = "x-in-term-variables"
    elif clash < 0.2:
        (ins if rng.random() < 0.5 else outs).append(("x", 2.0)); kind = "x-in-engine"
    elif clash < 0.3 and (ins or outs):
        tv.append(((ins + outs)[0][0], 5.0)); kind = "override"
    elif clash < 0.4 and ins:
        outs.append((ins[0][0], rand_value(rng))); kind = "duplicate-engine-name"
    has_engine = bool(ins or outs) or rng.random() < 0.5
    engine = None
    if has_engine:
        engine = fl.Engine("e", input_variables=[fl.InputVariable(n_) for n_, _ in ins], output_variables=[fl.OutputVariable(n_) for n_, _ in outs])
        for var, (_, v) in zip(engine.input_variables, ins):
            var.value = v
        for var, (_, v) in zip(engine.output_variables, outs):
            var.value = v
        ins = [(n_, float(var.value)) for (n_, _), var in zip(ins, engine.input_variables)]
        outs = [(n_, float(var.value)) for (n_, _), var in zip(outs, engine.output_variables)]
    nx = rng.choice([1, 1, 2, 3])
    xs = [rand_value(rng) for _ in range(nx)]
    xarg = xs[0] if nx == 1 and rng.random() < 0.7 else np.array(xs, dtype=np.float64)
    bigs = ["x"] if nx >= 2 else []

    def make():
        f = fl.Function("f", item.text, engine, variables=dict(tv), load=True)
        return f

    try:
        r = make().membership(xarg)
        outcome = ("ok",) + result_kind(r, nx)
    except Exception as e:  # noqa
        outcome = ("exc", exc_name(e), f"{type(e).__name__}: {e}")
    table = []
    twin = make()
    instrument(twin.root, keys, table)
    try:
        twin.membership(xarg)
    except Exception:  # noqa
        pass
    table = dedupe(table)
    exp = f"Ok {values_lit(outcome[1], outcome[2])}" if outcome[0] == "ok" else f"Err {outcome[1]}"
    item.mems.append(f"({otab_lit(table)}, {env_lit(tv)}, {'true' if has_engine else 'false'}, {env_lit(ins)}, {env_lit(outs)}, "
                     f"{vlib.coq_list(vlib.fhex(x) for x in xs)}, {exp})")
    stats["membership_cases"] += 1
    count("membership:" + kind)
    # direct oracle: clashes must be ValueError; otherwise variables resolve to engine values (last of a name), term variables, x
    rep = {"formula": item.text, "term_variables": repr(dict(tv)), "inputs": repr(ins), "outputs": repr(outs), "x": repr(xs)}
    if kind in ("x-in-term-variables", "x-in-engine", "override"):
        if not (outcome[0] == "exc" and outcome[1] == "EValue"):
            viol.append(("membership:" + kind, f"Function {item.text!r}.membership with a name clash ({kind}) does not raise ValueError: {outcome}", rep))
        return
    env = dict(ins)
    env.update(dict(outs))
    env.update(dict(tv))
    if any(v not in env and v != "x" for v in names if v in item.toks):
        if outcome[0] != "exc":
            viol.append(("membership:missing-variable", f"Function {item.text!r}.membership without a value for a variable returns a value: {outcome}", rep))
        return
    rows = [list(env.items()) + [("x", x)] for x in xs]
    judge(item, outcome, rows, bigs, f"membership x={xs}, engine/term variables {env}", None, stats, viol)


def illformed_variants(rng, tree, toks):
    out = []
    operands = [i for i, t in enumerate(toks) if t not in OPS and t not in "()," and t not in FN1 and t not in REL and t not in FN2]
    # missing operand
    if operands:
        i = rng.choice(operands)
        out.append(("missing-operand", toks[:i] + toks[i + 1:]))
    # unbalanced parentheses: delete one, or insert one
    parens = [i for i, t in enumerate(toks) if t in "()"]
    if parens and rng.random() < 0.6:
        i = rng.choice(parens)
        out.append(("unbalanced-deleted", toks[:i] + toks[i + 1:]))
    else:
        i = rng.randrange(0, len(toks) + 1)
        out.append(("unbalanced-inserted", toks[:i] + [rng.choice("()")] + toks[i:]))
    # wrong arity: one argument more or one fewer in a call, or an argument list after pi
    calls = [i for i, t in enumerate(toks) if (t in FN1 or t in REL or t in FN2) and i + 1 < len(toks) and toks[i + 1] == "("]
    if calls:
        i = rng.choice(calls)
        close_i = matching(toks, i + 1)
        if rng.random() < 0.5:
            out.append(("arity-extra-argument", toks[:close_i] + [",", rng.choice(["1", "y", "2.5"])] + toks[close_i:]))
        else:
            # drop the last argument (with its comma if there is one)
            start = last_arg_start(toks, i + 1, close_i)
            out.append(("arity-missing-argument", toks[:start] + toks[close_i:]))
        # two compensating arity errors: f(a, b, c) + g()  — the operand count is right again
        if rng.random() < 0.08:
            extra = toks[:close_i] + [",", "3"] + toks[close_i:]
            out.append(("compensating-arity", ["("] + extra + [")", "+", "sin", "(", ")"]))
    elif "pi" in toks and rng.random() < 0.5:
        i = toks.index("pi")
        out.append(("arity-extra-argument", toks[:i + 1] + ["(", "2", ")"] + toks[i + 1:]))
    return out


def matching(toks, open_i):
    d = 0
    for j in range(open_i, len(toks)):
        if toks[j] == "(":
            d += 1
        elif toks[j] == ")":
            d -= 1
            if d == 0:
                return j
    raise ValueError("unbalanced")


def last_arg_start(toks, open_i, close_i):
    d = 0
    start = open_i + 1
    for j in range(open_i, close_i):
        if toks[j] == "(":
            d += 1
        elif toks[j] == ")":
            d -= 1
        elif toks[j] == "," and d == 1:
            start = j
    return start


def replay(ctx, data):
    import fuzzylite as fl

    warnings.simplefilter("ignore")
    for v in data.get("violations", []):
        print(v["signature"], "::", v["what"])
        r = v["replay"]
        try:
            f = fl.Function.create("f", r["formula"])
            print("  now: loads, postfix =", f.root.postfix())
            if "variables" in r and r["variables"].startswith("{"):
                env = eval(r["variables"], {"inf": math.inf, "nan": math.nan})  # noqa: S307 — our own repr of floats/lists
                env = {k: (np.array(x, dtype=float) if isinstance(x, list) else x) for k, x in env.items()}
                try:
                    print("  now: evaluate ->", repr(f.evaluate(env)))
                except Exception as e:  # noqa
                    print("  now: evaluate raises", type(e).__name__, e)
        except Exception as e:  # noqa
            print("  now: load raises", type(e).__name__, e)
    for b in data.get("broken", []):
        print("BROKEN", b["kind"], b["name"], "\n", b["detail"][:1500])
    return 0
