"""C11 — Tsukamoto values invert the monotonic membership functions."""
from __future__ import annotations

import inspect
import math

import numpy as np

import termlib
import vlib

COQ_TARGETS = ["Proofs/Tsukamoto.vo"]
MONO = ["Arc", "Concave", "Ramp", "Sigmoid", "SShape", "ZShape"]


def ys_for(h, rng, n):
    ys = []
    for c in (0.0, h / 2, h):
        y = c
        for _ in range(3):
            y = math.nextafter(y, -math.inf)
        for _ in range(7):
            if 0.0 < y < h:
                ys.append((y, "next-to-" + ("0" if c == 0 else "h/2" if c == h / 2 else "h")))
            y = math.nextafter(y, math.inf)
    ys += [(h * k / 16, "grid") for k in range(1, 16)]
    ys += [(rng.uniform(0, h), "random") for _ in range(n)]
    ys += [(h * 1e-9, "tiny"), (h * 1e-100, "tiny"), (h * 1e-290, "tiny"), (h * (1 - 1e-9), "almost-h")]
    return [(y, k) for y, k in ys if 0.0 < y < h]


def run(ctx, build, verdict, ev):
    import fuzzylite as fl

    obs = vlib.observed_module("term")
    groups, index = [], []
    dist: dict[str, int] = {}
    nviol = 0
    clone_diff = 0
    nontrivial = set()
    evaluations = 0
    for name in MONO:
        cls, ocls = getattr(fl, name), getattr(obs, name)
        names = [n for n in inspect.signature(cls.__init__).parameters if n not in ("self", "name")]
        s_lits, a_lits, s_idx, a_idx = [], [], [], []
        for _ in range(ctx.n(25, 800)):
            p = termlib.gen_params(name, ctx.rng)
            args = [float(p[n]) for n in names]
            h = p["height"]
            real, clone = cls("t", *args), ocls("t", *args)
            ps_lit = vlib.coq_list(vlib.fhex(a) for a in args)
            ys = ys_for(h, ctx.rng, ctx.n(6, 25))
            zs = []
            for y, klass in ys:
                with np.errstate(all="ignore"):
                    try:
                        z = float(real.tsukamoto(y))
                    except Exception as ex:  # noqa
                        verdict.add_violation(f"{name}:exception", f"{name}{p}.tsukamoto({y!r}) raises {type(ex).__name__}: {ex}", {"term": name, "params": p, "y": y})
                        nviol += 1
                        zs.append(math.nan)
                        continue
                    vlib.RECORDER.reset()
                    zc = float(clone.tsukamoto(y))
                    tbl = vlib.RECORDER.take()
                    back = float(real.membership(z))
                if not vlib.same_float(z, zc):
                    clone_diff += 1
                zs.append(z)
                evaluations += 1
                dist[klass] = dist.get(klass, 0) + 1
                nontrivial.add((name, tuple(args), y))
                s_lits.append(f"({ps_lit}, {vlib.fhex(y)}, {vlib.fhex(z)}, {vlib.oracle_lit(tbl)})")
                s_idx.append((name, p, y, z))
                # ---- the property at this point
                if y < 1e-300 * h:
                    # sub-normal neighbourhood of 0: the exact value of z may exceed the binary64 range (Concave: h(i-e)/y), so only NaN is wrong
                    if z != z:
                        verdict.add_violation(f"{name}:finite", f"{name}{p}.tsukamoto({y!r}) is NaN", {"term": name, "params": p, "y": y, "z": "nan"}); nviol += 1
                elif not math.isfinite(z):
                    verdict.add_violation(f"{name}:finite", f"{name}{p}.tsukamoto({y!r}) = {z} is not finite", {"term": name, "params": p, "y": y, "z": z}); nviol += 1
                elif not abs(back - y) <= 1e-6 * h:
                    verdict.add_violation(f"{name}:inverse", f"{name}{p}: membership(tsukamoto({y!r})) = {back}", {"term": name, "params": p, "y": y, "z": z, "back": back}); nviol += 1
            d = termlib.MONOTONIC_DIRECTION[name](p)
            pts = sorted(zip([y for y, _ in ys], zs))
            scale = max(1.0, max(abs(z) for z in zs if math.isfinite(z)) if any(math.isfinite(z) for z in zs) else 1.0)
            for (y0, z0), (y1, z1) in zip(pts, pts[1:]):
                if math.isfinite(z0) and math.isfinite(z1) and ((d > 0 and z1 < z0 - 1e-9 * scale) or (d < 0 and z1 > z0 + 1e-9 * scale)):
                    verdict.add_violation(f"{name}:z-monotone", f"{name}{p}: tsukamoto not monotone: z({y0!r})={z0}, z({y1!r})={z1}", {"term": name, "params": p, "y0": y0, "y1": y1, "z0": z0, "z1": z1}); nviol += 1
                    break
            yarr = np.array([y for y, _ in ys])
            keepy = yarr.copy()
            with np.errstate(all="ignore"):
                za = np.asarray(real.tsukamoto(yarr), dtype=float)
            if not all(vlib.same_float(a, b) for a, b in zip(yarr, keepy)):
                verdict.add_violation(f"{name}:argument-overwritten", f"{name}{p}.tsukamoto(array) modifies its argument in place (afterwards y = {list(yarr[:3])}…)", {"term": name, "params": p, "y": [float(v) for v in keepy[:4]]})
                nviol += 1
                yarr = keepy.copy()
            with np.errstate(all="ignore"):
                vlib.RECORDER.reset()
                zca = np.asarray(clone.tsukamoto(yarr), dtype=float)
                tbl = vlib.RECORDER.take()
            if za.shape != yarr.shape or not all(vlib.same_float(a, b) for a, b in zip(za, zs)):
                verdict.add_violation(f"{name}:array", f"{name}{p}.tsukamoto: array result differs from element-by-element results", {"term": name, "params": p}); nviol += 1
            try:
                with np.errstate(all="ignore"):
                    zl = np.asarray(real.tsukamoto([float(v) for v in yarr[:5]]), dtype=float)
                    zt = np.asarray(real.tsukamoto(tuple(float(v) for v in yarr[:5])), dtype=float)
                if not (all(vlib.same_float(a, b) for a, b in zip(zl, zs[:5])) and all(vlib.same_float(a, b) for a, b in zip(zt, zs[:5])) and zl.shape == (min(5, len(zs)),)):
                    verdict.add_violation(f"{name}:list-argument", f"{name}{p}.tsukamoto(list/tuple) is not the elementwise result", {"term": name, "params": p, "y": [float(v) for v in yarr[:5]]}); nviol += 1
            except Exception as ex:  # noqa
                verdict.add_violation(f"{name}:list-argument", f"{name}{p}.tsukamoto(list) raises {type(ex).__name__}: {ex}", {"term": name, "params": p, "y": [float(v) for v in yarr[:5]]}); nviol += 1
            a_lits.append(f"({ps_lit}, {vlib.coq_list(vlib.fhex(y) for y in yarr)}, {vlib.coq_list(vlib.fhex(z) for z in za)}, {vlib.oracle_lit(tbl)})")
            a_idx.append((name, p, [float(y) for y in yarr], [float(z) for z in za]))
            evaluations += len(yarr)
        mk = f'shape_make "{name}" ps'
        groups.append(("list float * float * float * oracle",
                       f"fun c => let '(ps, y, e, t) := c in match {mk} with Some s => match @shape_tsukamoto float (NumF true t) s with Some f => feq (f y) e | None => false end | None => false end", s_lits))
        index += s_idx
        groups.append(("list float * list float * list float * oracle",
                       f"fun c => let '(ps, ys, es, t) := c in match {mk} with Some s => match @shape_tsukamoto float (NumF false t) s with Some f => forallb (fun ye => feq (f (fst ye)) (snd ye)) (combine ys es) && Nat.eqb (List.length ys) (List.length es) | None => false end | None => false end", a_lits))
        index += a_idx
    # terms that are not monotonic refuse the operation (and the translated table agrees)
    refuse_lits = []
    for name in termlib.SHAPES:
        cls = getattr(fl, name)
        names = [n for n in inspect.signature(cls.__init__).parameters if n not in ("self", "name")]
        p = termlib.gen_params(name, ctx.rng)
        t = cls("t", *[float(p[n]) for n in names])
        try:
            t.tsukamoto(0.5 * p.get("height", 1.0))
            refused = False
        except RuntimeError:
            refused = True
        if refused == bool(t.is_monotonic()):
            verdict.add_violation(f"{name}:refusal", f"{name}: is_monotonic()={t.is_monotonic()} but tsukamoto {'raises' if refused else 'answers'}", {"term": name}); nviol += 1
        ps_lit = vlib.coq_list(vlib.fhex(float(p[n])) for n in names)
        refuse_lits.append(f'({vlib.coq_string(name)}, {ps_lit}, {"true" if refused else "false"}, {"true" if t.is_monotonic() else "false"})')
        index.append((name, p, "refuses", refused))
    groups.append(("string * list float * bool * bool",
                   "fun c => let '(cls, ps, refused, mono) := c in match shape_make cls ps with Some s => Bool.eqb (match @shape_tsukamoto float (NumF true []) s with Some _ => false | None => true end) refused && Bool.eqb (shape_monotonic s) mono | None => false end", refuse_lits))
    if clone_diff:
        verdict.add_broken("harness", "observer-clone", f"observer clone of term.py disagrees with the real module on {clone_diff} inputs")
    bad, log = ([], "") if build.translation_errors else vlib.run_coq_cases(ctx.work, "c11", "From VF Require Import GenTerm.", groups, chunk=ctx.n(700, 1500))
    mism = []
    for i in bad:
        if i < 0:
            verdict.add_broken("correspondence", "C11:coq-evaluation", log)
            break
        mism.append(index[i])
    if mism:
        verdict.add_broken("correspondence", f"tsukamoto kernel {mism[0][0]}", f"translated kernel over binary64 and implementation differ on {len(mism)} cases, first: {mism[:3]}")
    # exact (tolerance-free) checks of the binary64-level theorems of Properties/C11b.v on the implementation
    import floatlaws
    fx = floatlaws.tsukamoto(ctx, verdict, fl)
    c = ev["coverage"]
    c["exact_float_law_checks"] = fx["exact_float_law_checks"]
    c["exact_float_law_violations"] = fx["exact_float_law_violations"]
    c["evaluations"] = evaluations
    c["distinct_nontrivial"] = len(nontrivial)
    c["rule"] = ("6 monotonic terms x valid parameterisations (both directions, heights) x y in (0,h): 3 float neighbours each side of 0, h/2, h; k/16 grid; random; 1e-9 h and (1-1e-9) h; "
                 "scalar per point and 1-d arrays, bit-exact; plus refusal/is_monotonic of all 20 shape classes; non-trivial = distinct (term, params, y)")
    c["distribution"] = dist
    c["correspondence_mismatches"] = len(mism)
    c["oracle_violations"] = nviol
    c["samples"] = [dict(term=n, params=p, y=y, z=z) for n, p, y, z in index[:: max(1, len(index) // 6)][:6]]
    c["partial_statements"] = ["<Term>_inverse_F: |mu(z(y)) - y| <= 1e-6 h and z finite over binary64: searched on the structured points, not proved (rounding)"]
    ev["assumptions"] += ["R-level inverse theorems ignore rounding", "log/libm-pow results taken from the implementation (oracle tables)"]


def replay(ctx, data):
    import fuzzylite as fl

    for v in data.get("violations", []):
        print(v["what"])
        r = v["replay"]
        if "y" in r and "params" in r:
            t = getattr(fl, r["term"])("t", **r["params"])
            z = t.tsukamoto(r["y"])
            print("  now: z =", z, " membership(z) =", t.membership(z))
    for b in data.get("broken", []):
        print("BROKEN", b["kind"], b["name"], "\n", b["detail"][:1500])
    return 0
