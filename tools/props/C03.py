"""C03 — membership functions match their documented definitions."""
from __future__ import annotations

import math
import os
import subprocess

import numpy as np

import termlib
import vlib

COQ_TARGETS = ["Model/Discrete.vo", "Proofs/TermA.vo", "Proofs/TermB.vo", "Proofs/TermER.vo", "Proofs/DiscreteProofs.vo"]


def arglist(cls, p):
    """Constructor parameters in __init__ order (after name)."""
    import inspect

    names = [n for n in inspect.signature(cls.__init__).parameters if n not in ("self", "name")]
    return names, [float(p[n]) for n in names]


def run(ctx, build, verdict, ev):
    import fuzzylite as fl

    obs = vlib.observed_module("term")
    n_params = ctx.n(14, 400)
    n_rand = ctx.n(8, 40)
    groups = []
    index = []  # (kind, term, params, x or xs, expected)
    dist: dict[str, int] = {}
    clone_diff = 0
    nviol = 0
    evaluations = 0
    nontrivial = set()
    refutations = []
    for name in termlib.SHAPES:
        cls = getattr(fl, name)
        ocls = getattr(obs, name)
        s_lits, a_lits = [], []
        s_idx, a_idx = [], []
        for _ in range(n_params):
            p = termlib.gen_params(name, ctx.rng, vertical=True, adjacent=True)
            names, args = arglist(cls, p)
            real = cls("t", *args)
            clone = ocls("t", *args)
            h = p.get("height", 1.0)
            xs = termlib.gen_xs(name, p, ctx.rng, n_rand)
            ps_lit = vlib.coq_list(vlib.fhex(a) for a in args)
            scal = []
            for x, klass in xs:
                with np.errstate(all="ignore"):
                    try:
                        r = float(real.membership(x))
                    except Exception as ex:  # noqa  (membership never raises on a float for valid parameters)
                        verdict.add_violation(f"{name}:exception", f"{name}{args}.membership({x!r}) raises {type(ex).__name__}: {ex}", {"term": name, "params": p, "x": x})
                        nviol += 1
                        scal.append(math.nan)
                        continue
                    vlib.RECORDER.reset()
                    rc = float(clone.membership(x))
                    tbl = vlib.RECORDER.take()
                if not vlib.same_float(r, rc):
                    clone_diff += 1
                scal.append(r)
                dist[klass] = dist.get(klass, 0) + 1
                evaluations += 1
                if r == r and 0 < r < h:
                    nontrivial.add((name, tuple(args), x))
                s_lits.append(f"({ps_lit}, {vlib.fhex(x)}, {vlib.fhex(r)}, {vlib.oracle_lit(tbl)})")
                s_idx.append(("scalar", name, p, x, r))
                nviol += oracle_point(verdict, name, p, x, klass, r, h, refutations, args)
            nviol += oracle_monotone(verdict, name, p, [x for x, _ in xs], scal, h)
            # arrays: 1-d and 2-d evaluation equals the element-by-element evaluation
            xarr = np.array([x for x, _ in xs])
            keepx = xarr.copy()
            with np.errstate(all="ignore"):
                r1 = np.asarray(real.membership(xarr), dtype=float)
            if not all(vlib.same_float(a, b) for a, b in zip(xarr, keepx)):
                verdict.add_violation(f"{name}:argument-overwritten", f"{name}.membership(array) modifies its argument in place", {"term": name, "params": p})
                nviol += 1
                xarr = keepx.copy()
            with np.errstate(all="ignore"):
                vlib.RECORDER.reset()
                rc1 = np.asarray(clone.membership(xarr), dtype=float)
                tbl = vlib.RECORDER.take()
                r2 = np.asarray(real.membership(xarr.reshape(2, -1) if xarr.size % 2 == 0 else xarr.reshape(1, -1)), dtype=float)
            if r1.shape != xarr.shape or r2.size != xarr.size:
                verdict.add_violation(f"{name}:array-shape", f"{name}.membership changes the shape of an array argument", {"term": name, "params": p})
                nviol += 1
            else:
                for x, a, b, c in zip(xarr, scal, r1, r2.ravel()):
                    if not (vlib.same_float(a, b) and vlib.same_float(a, c)):
                        verdict.add_violation(f"{name}:array", f"{name}{args}.membership: array evaluation {b}/{c} differs from scalar evaluation {a} at x={x}", {"term": name, "params": p, "x": float(x), "scalar": a, "array1d": float(b), "array2d": float(c)})
                        nviol += 1
                        break
            if not all(vlib.same_float(a, b) for a, b in zip(r1, rc1)):
                clone_diff += 1
            try:
                with np.errstate(all="ignore"):
                    rl = np.asarray(real.membership([float(v) for v in xarr[:5]]), dtype=float)
                if rl.shape != (min(5, len(scal)),) or not all(vlib.same_float(a, b) for a, b in zip(rl, scal[:5])):
                    verdict.add_violation(f"{name}:list-argument", f"{name}{args}.membership(list) is not the elementwise result", {"term": name, "params": p, "x": [float(v) for v in xarr[:5]]}); nviol += 1
            except Exception as ex:  # noqa
                verdict.add_violation(f"{name}:list-argument", f"{name}{args}.membership(list) raises {type(ex).__name__}: {ex}", {"term": name, "params": p, "x": [float(v) for v in xarr[:5]]}); nviol += 1
            a_lits.append(f"({ps_lit}, {vlib.coq_list(vlib.fhex(x) for x in xarr)}, {vlib.coq_list(vlib.fhex(r) for r in r1)}, {vlib.oracle_lit(tbl)})")
            a_idx.append(("array", name, p, [float(x) for x in xarr], [float(r) for r in r1]))
            evaluations += len(xarr)
        mk = f'shape_make "{name}" ps'
        groups.append(("list float * float * float * oracle",
                       f"fun c => let '(ps, x, e, t) := c in match {mk} with Some s => feq (@shape_membership float (NumF true t) s x) e | None => false end", s_lits))
        index += s_idx
        groups.append(("list float * list float * list float * oracle",
                       f"fun c => let '(ps, xs, es, t) := c in match {mk} with Some s => forallb (fun xe => feq (@shape_membership float (NumF false t) s (fst xe)) (snd xe)) (combine xs es) && Nat.eqb (List.length xs) (List.length es) | None => false end", a_lits))
        index += a_idx
    # ---- last-bit probe: array evaluation vs element-by-element evaluation on many random x per class
    # (a kernel whose float path (libm pow on numpy.float64) and array path (exact square) round differently shows up
    # in roughly 1 of 1000 inputs, far below what the structured points above would hit)
    probe_n = ctx.n(1500, 20000)
    for name in termlib.SHAPES:
        if name == "Constant":
            continue
        cls = getattr(fl, name)
        for _ in range(2):
            p = termlib.gen_params(name, ctx.rng)
            names, args = arglist(cls, p)
            t = cls("t", *args)
            fin = [v for v in termlib.breakpoints(name, p) if math.isfinite(v)] or [0.0]
            lo, hi = min(fin), max(fin)
            span = max(hi - lo, 1.0)
            xs_p = np.array([ctx.rng.uniform(lo - 0.5 * span, hi + 0.5 * span) for _ in range(probe_n // 2)])
            with np.errstate(all="ignore"):
                arr = np.asarray(t.membership(xs_p), dtype=float)
                for x, a in zip(xs_p, arr):
                    r = float(t.membership(float(x)))
                    evaluations += 1
                    if not vlib.same_float(r, float(a)):
                        verdict.add_violation(f"{name}:array", f"{name}{args}.membership: array evaluation {float(a)!r} differs from scalar evaluation {r!r} at x={float(x)!r}",
                                              {"term": name, "params": p, "x": float(x), "scalar": r, "array1d": float(a)})
                        nviol += 1
                        break
    dist["array_vs_scalar_probe_per_class"] = probe_n
    # Discrete (numpy.interp) — hand model
    import discrete_cases

    dgroups, dindex, dviol, devals = discrete_cases.cases(ctx, verdict, fl)
    groups += dgroups
    index += dindex
    nviol += dviol
    evaluations += devals
    if clone_diff:
        verdict.add_broken("harness", "observer-clone", f"observer clone of term.py disagrees with the real module on {clone_diff} inputs")
    bad, log = ([], "") if build.translation_errors else vlib.run_coq_cases(ctx.work, "c03", "From VF Require Import GenTerm Discrete.", groups, chunk=ctx.n(700, 1500))
    mism = []
    for i in bad:
        if i < 0:
            verdict.add_broken("correspondence", "C03:coq-evaluation", log)
            break
        mism.append(index[i])
    if mism:
        m = mism[0]
        verdict.add_broken("correspondence", f"term kernel {m[1]} ({m[0]} mode)", f"translated kernel over binary64 and implementation differ on {len(mism)} cases, first: {[(k, n, p, x, e) for k, n, p, x, e in mism[:3]]}")
    import floatlaws  # exact (tolerance-free) oracles: mu_ok of Properties/C03e.v for the piecewise-linear terms

    fx = floatlaws.terms(ctx, verdict, fl)
    nviol += fx["exact_float_law_violations"]
    c = ev["coverage"]
    c["exact_float_law_checks"] = fx["exact_float_law_checks"]
    c["exact_float_laws"] = fx
    c["evaluations"] = evaluations
    c["distinct_nontrivial"] = len(nontrivial)
    c["rule"] = ("20 shape terms + Discrete x %d valid parameterisations each (both directions, vertical edges, infinite shoulders, heights 1/.5/.3/.75/1e-3/random) x "
                 "x in {every parameter value and both float neighbours, mid-points, random interior/wide/extreme, +-inf, NaN}; scalar mode bit-exact per point, 1-d array mode bit-exact per array, "
                 "2-d vs scalar on the implementation; non-trivial = distinct (term, params, x) with 0 < membership < height" % n_params)
    c["distribution"] = dist
    c["correspondence_mismatches"] = len(mism)
    c["oracle_violations"] = nviol
    c["kernel_checked_refutations"] = refutations[:10]
    c["samples"] = [dict(mode=k, term=n, params=p, x=x, expected=e) for k, n, p, x, e in index[:: max(1, len(index) // 8)][:8] if k == "scalar"]
    c["partial_statements"] = ["<Term>_range_F, <Term>_nan_iff_F, <Term>_breakpoints_F: stated over binary64, not proved (rounding); searched for counterexamples on the structured points above; "
                               "a counterexample is turned into a kernel-checked `Example …_refuted` and replayed on the implementation"]
    ev["assumptions"] += ["R-level theorems ignore rounding; float-level range/NaN/breakpoint statements are searched, not proved",
                          "exp/cos/power/libm-pow results are taken from the implementation (oracle tables)"]


def oracle_point(verdict, name, p, x, klass, r, h, refutations, args):
    """The property statement at one point, on the implementation's result r."""
    n = 0
    if name == "Constant":
        if not vlib.same_float(r, p["value"]):
            verdict.add_violation("Constant:formula", f"Constant({p['value']}).membership({x}) = {r}", {"term": name, "params": p, "x": x, "got": r}); n += 1
        return n
    if x != x:
        if r == r:
            verdict.add_violation(f"{name}:nan", f"{name}{p}.membership(NaN) = {r}, expected NaN", {"term": name, "params": p, "x": "nan", "got": r}); n += 1
        return n
    if r != r:
        verdict.add_violation(f"{name}:nan", f"{name}{p}.membership({x!r}) is NaN although x is not NaN", {"term": name, "params": p, "x": x, "got": "nan", "class": klass}); n += 1
        return n
    tol = 1e-9 * h
    if not (-tol <= r <= h + tol):
        verdict.add_violation(f"{name}:range", f"{name}{p}.membership({x!r}) = {r} outside [0, {h}]", {"term": name, "params": p, "x": x, "got": r}); n += 1
    try:
        want = h * termlib.doc_shape(name, p, x)
    except (OverflowError, ZeroDivisionError):
        return n
    # at +-inf the documented value is a limit that binary64 reaches exactly (0, or the height): exp(-inf) = 0, 1/(1+inf) = 0,
    # the plateau branches return the constant -- proved over the extended reals (C03c, `*_at_infinity`); demanded bit for bit
    if math.isinf(x) and want in (0.0, h) and not (r == want):
        verdict.add_violation(f"{name}:at-infinity", f"{name}{p}.membership({x!r}) = {r!r}, the documented limit is exactly {want!r}", {"term": name, "params": p, "x": x, "got": r, "want": want, "class": klass}); n += 1
        return n
    # near a break-point of a square-root shaped term rounding of x is amplified: |d sqrt| ~ sqrt(ulp)
    loose = 1e-6 * h if (klass in ("breakpoint", "neighbour") or name in ("Arc", "SemiEllipse")) else tol
    if name in ("Arc", "SemiEllipse"):
        loose = max(loose, 1e-6 * h)
    if not abs(r - want) <= max(loose, 1e-9 * abs(want)):
        # steep terms: compare against the documented value at the float neighbours of x as well
        alts = []
        for xx in vlib.neighbours(x):
            try:
                alts.append(h * termlib.doc_shape(name, p, xx))
            except (OverflowError, ZeroDivisionError):
                pass
        # (not at an exact break-point: there the documented value itself is demanded, also across a vertical edge)
        # Exactness is demanded at the parameter values themselves; derived break-points (midpoints, centre +- width/2) are
        # ROUNDED: when start and end are a few ulps apart the rounded midpoint is a neighbour of the real one, and the
        # neighbour comparison below is the statement (the branches agree at the real midpoint, the term is just steep).
        strict = klass == "breakpoint" and any(isinstance(v, float) and v == x for v in p.values())
        if strict or (not any(abs(r - w) <= max(loose, 1e-9 * abs(w)) for w in alts) and not (min(alts) - loose <= r <= max(alts) + loose)):
            verdict.add_violation(f"{name}:formula", f"{name}{p}.membership({x!r}) = {r}, documented closed form gives {want}", {"term": name, "params": p, "x": x, "got": r, "want": want, "class": klass}); n += 1
    return n


def oracle_monotone(verdict, name, p, xs, rs, h):
    if name not in termlib.MONOTONIC_DIRECTION:
        return 0
    d = termlib.MONOTONIC_DIRECTION[name](p)
    pts = sorted((x, r) for x, r in zip(xs, rs) if x == x and r == r)
    tol = 1e-7 * h
    for (x0, r0), (x1, r1) in zip(pts, pts[1:]):
        if (d > 0 and r1 < r0 - tol) or (d < 0 and r1 > r0 + tol):
            verdict.add_violation(f"{name}:monotone", f"{name}{p} is not monotone: mu({x0!r})={r0}, mu({x1!r})={r1}", {"term": name, "params": p, "x0": x0, "x1": x1, "r0": r0, "r1": r1})
            return 1
    return 0


def replay(ctx, data):
    import fuzzylite as fl

    for v in data.get("violations", []):
        print(v["what"])
        r = v["replay"]
        if "term" in r and "params" in r and "x" in r and hasattr(fl, r["term"]):
            x = math.nan if r["x"] == "nan" else r["x"]
            try:
                print("  now:", getattr(fl, r["term"])("t", **r["params"]).membership(x))
            except Exception as e:  # noqa
                print("  now raises", type(e).__name__, e)
    for b in data.get("broken", []):
        print("BROKEN", b["kind"], b["name"], "\n", b["detail"][:1500])
    return 0
