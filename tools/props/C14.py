"""C14 — FuzzyLite Language export/import round-trips engines.

Generator: engines over every registered term class (20 shape classes of the generated table, Constant, Discrete,
Linear, Function), every T-/S-norm (and `none`), every defuzzifier (with resolution / type), every activation method
(with parameters), descriptions, disabled variables / rule blocks, non-unit heights, rule weights, infinite ranges,
NaN defaults, identifier names, decimals 1..9.  Numbers are Python floats.  A `representable` engine draws every
number as float("%.{d}f" % x) (heights and weights: 1.0 or clearly away from 1); a `free` engine uses arbitrary
doubles, heights/weights inside the tolerance of 1, and (stream "unstable") heights/weights that are outside the
tolerance but are rounded into it by the printer.

Direct oracle (implementation only, independent dump of the objects' attributes):
  t1 = export(e); e2 = import(t1); t2 = export(e2):  t1 == t2;  dump(e) == dump(e2) at the printed precision;
  representable => Engine.output_values of e and e2 are bit-identical on 8 input rows (an exception counts as an outcome);
  accepted variants of t1 (comments, blank lines, indentation, reordered / duplicated keys, non-canonical numerals)
  reach a fixed point after one import/export cycle;
  component level: for every term, defuzzifier and activation method, configure(parameters()) on a second object of the
  same class that carries other state (stale height, parameters, resolution, type, n, threshold) gives the same FLL text
  and parameters() is a fixed point (the importer only ever configures fresh objects, so whole-engine round trips cannot
  see a configure() that leaves state behind).

Correspondence (model Model/Fll.v evaluated inside Coq at the token instance): the engine is converted to an
`fll_engine` literal whose numbers are the printed tokens plus the implementation's Op.is_close(x, 1.0) bit;
  export d e = t1.split("\\n")  (string equality, line by line);
  import_checked (lines of t1) = literal of e2   (or the error class);  export d (that) = t2;
  the same for variant texts (import result / error class, export of the result).  `import_checked` (Model/FllChecked.v)
  is `import_` plus Rule.load (C16 model) against the engine under construction and Function.load (C17 model), so the
  variants that mutilate a rule, move the rule blocks in front of the variables or damage a formula are compared too.
"""
from __future__ import annotations

import inspect
import math
import re
import warnings

import numpy as np

import vlib

COQ_TARGETS = ["Proofs/FllProofs.vo", "Proofs/FllCheckedProofs.vo"]

KEYWORDS = {"if", "then", "with", "is", "and", "or", "any", "not", "very", "somewhat", "seldom", "extremely", "none", "x", "term", "rule"}
HEDGES = ["not", "very", "somewhat", "seldom", "extremely"]
ERR = {"SyntaxError": "ESyntax", "ValueError": "EValue", "KeyError": "ELookup", "RuntimeError": "ERuntime"}


# ------------------------------------------------------------------------------------------------ library tables
def tables():
    import fuzzylite as fl

    fm = fl.settings.factory_manager
    terms = dict(fm.term.constructors)
    shapes = {}
    for name, cls in terms.items():
        if name in ("Discrete", "Linear", "Function"):
            continue
        ps = [p for p in inspect.signature(cls.__init__).parameters if p not in ("self", "name", "height")]
        shapes[name] = ps
    reserved = set(fm.function.objects) | KEYWORDS | set(fm.hedge.constructors)
    return {
        "shapes": shapes,
        "tnorms": sorted(fm.tnorm.constructors),
        "snorms": sorted(fm.snorm.constructors),
        "defuzzifiers": sorted(fm.defuzzifier.constructors),
        "activations": sorted(fm.activation.constructors),
        "reserved": reserved,
    }


# ------------------------------------------------------------------------------------------------ generator
class Gen:
    def __init__(self, rng, tb, d, mode, flags):
        self.rng, self.tb, self.d, self.mode, self.flags = rng, tb, d, mode, flags
        self.names: set[str] = set()
        self.atol = 1e-3

    def ident(self, prefix=""):
        r = self.rng
        while True:
            n = r.randint(1, 7)
            first = r.choice("abcdefghijklmnopqrstuvwxyzABCDEFGHIJKLMNOPQRSTUVWXYZ_")
            s = prefix + first + "".join(r.choice("abcdefghijklmnopqrstuvwxyzABCDEFGHIJKLMNOPQRSTUVWXYZ0123456789_") for _ in range(n - 1))
            if s not in self.tb["reserved"] and s not in self.names and s.lower() not in KEYWORDS:
                self.names.add(s)
                return s

    def rep(self, x: float) -> float:
        return float(f"{x:.{self.d}f}")

    def num(self, lo=-10.0, hi=10.0) -> float:
        r = self.rng
        k = r.random()
        if k < 0.08:
            x = float(r.randint(-3, 3))
        elif k < 0.12:
            x = r.choice([0.0, -0.0, 1.0, 0.5, -1.0])
        elif k < 0.16:
            x = r.uniform(-1, 1) * 10.0 ** (-r.randint(1, 9))
        elif k < 0.19:
            x = r.uniform(-1, 1) * 10.0 ** r.randint(3, 15)
        else:
            x = r.uniform(lo, hi)
        return self.rep(x) if self.mode == "representable" else x

    def height(self, what="height") -> float:
        """1.0, clearly away from 1, inside the tolerance (free), or rounded into the tolerance (unstable)."""
        r = self.rng
        k = r.random()
        if self.mode == "representable":
            if k < 0.4:
                return 1.0
            while True:
                h = self.rep(r.uniform(0.05, 3.0))
                if abs(h - 1.0) > 0.06 + 2 * self.atol:
                    return h
        if self.flags.get("unstable") and k < 0.5:
            # |h - 1| > atol but |round_d(h) - 1| <= atol
            if self.d <= 2:
                return 1.0 + r.choice([-1, 1]) * r.uniform(0.002, 0.4 * 10.0 ** (-self.d))
            if self.d == 3:
                return 1.0 + r.choice([-1, 1]) * r.uniform(0.00101, 0.00149)
            return r.uniform(0.05, 3.0)
        if k < 0.3:
            return 1.0
        if k < 0.45:
            return 1.0 + r.uniform(-0.9, 0.9) * self.atol  # inside the tolerance: omitted by the printer
        while True:
            h = r.uniform(0.05, 3.0)
            if abs(h - 1.0) > 0.06 + 2 * self.atol:
                return h

    def description(self) -> str:
        r = self.rng
        if r.random() < 0.4:
            return ""
        words = ["the", "speed", "of", "x1", "key: value", "a,b;c", "(level)", "100%", "term:", "rule: if a is b", "Engine: z", "if", "then", "1.000", "inf", "two  blanks", "'q'", '"dq"', "\\n", "a=b", "none", "true"]
        return " ".join(r.choice(words) for _ in range(r.randint(1, 5)))

    def name_value(self) -> str:
        """Engine / rule-block names: identifiers (most), sometimes several words (the importer keeps the raw value)."""
        r = self.rng
        k = r.random()
        if k < 0.08:
            return ""
        if k < 0.2:
            return " ".join(self.ident() for _ in range(r.randint(2, 3)))
        return self.ident()

    def shape(self, fl, cls_name: str, name: str):
        cls = getattr(fl, cls_name)
        kw = {p: self.num() for p in self.tb["shapes"][cls_name]}
        t = cls(name, **kw)
        if cls_name != "Constant":
            t.height = self.height()
        return t

    def discrete(self, fl, name: str):
        n = self.rng.choice([0, 1, 2, 3, 5])
        xs = sorted(self.num() for _ in range(n))
        vals = []
        for x in xs:
            vals += [x, self.rep(self.rng.random()) if self.mode == "representable" else self.rng.random()]
        t = fl.Discrete(name, vals, height=1.0)
        t.height = self.height()
        return t

    def range_(self):
        r = self.rng
        k = r.random()
        if k < 0.1:
            return -math.inf, math.inf
        if k < 0.16:
            return r.choice([(-math.inf, self.num()), (self.num(), math.inf), (math.nan, math.nan)])
        a = self.num(-10, 0)
        b = a + abs(self.num(0.5, 10))
        return a, (self.rep(b) if self.mode == "representable" else b)


def make_engine(fl, rng, tb, d, mode, flags, force):
    """force: dict of classes this engine must contain (round-robin coverage of every registered class)."""
    g = Gen(rng, tb, d, mode, flags)
    kind = force.get("kind") or rng.choice(["mamdani", "mamdani", "sugeno", "tsukamoto", "hybrid"])
    e = fl.Engine(g.name_value(), g.description())
    shape_names = sorted(tb["shapes"])
    mono = ["Arc", "Concave", "Ramp", "Sigmoid", "SShape", "ZShape"]
    n_in = rng.randint(1, 3)
    in_names = [g.ident() for _ in range(n_in)]
    engine_terms: dict[str, list[str]] = {}        # input variable -> its terms that need the engine reference
    for i in range(n_in):
        lo, hi = g.range_()
        iv = fl.InputVariable(in_names[i], g.description(), enabled=rng.random() > 0.15, minimum=lo, maximum=hi, lock_range=rng.random() < 0.3)
        for j in range(rng.choice([0, 1, 2, 2, 3, 4])):
            c = force["terms"].pop() if force.get("terms") and force["terms"][-1] not in ("Constant", "Linear", "Function") else rng.choice(shape_names + ["Discrete"])
            if c == "Constant":
                c = "Triangle"
            iv.terms.append(g.discrete(fl, g.ident()) if c == "Discrete" else g.shape(fl, c, g.ident()))
        # Function / Linear terms in an INPUT variable: they read the engine's input values (the variable itself included),
        # so the importer has to hand them the engine reference exactly as it does for output variables
        if rng.random() < 0.3:
            other = rng.choice(in_names)
            k = abs(g.num(0.1, 2.0))
            form = rng.choice([f"min(1.0, max(0.0, x * {other}))", f"min(1.0, max(0.0, {in_names[i]} * {k:.{d}f}))", f"max(0.0, min(1.0, {other} + {in_names[i]}))",
                               f"min(1.0, abs({other}) / ({k:.{d}f} + abs({other})))", f"gt({other}, {k:.{d}f})"])
            t = fl.Function(g.ident(), form, e)
            t.load()
            iv.terms.append(t)
            engine_terms.setdefault(iv.name, []).append(t.name)
        if rng.random() < 0.2:
            t = fl.Linear(g.ident(), [g.num(-0.2, 0.2) for _ in range(rng.choice([n_in, n_in + 1]))], e)
            iv.terms.append(t)
            engine_terms.setdefault(iv.name, []).append(t.name)
        e.input_variables.append(iv)
    n_out = rng.randint(1, 2)
    for i in range(n_out):
        lo, hi = g.range_()
        dz_name = force["defuzzifiers"].pop() if force.get("defuzzifiers") else rng.choice(tb["defuzzifiers"] + ["none"])
        if dz_name == "none":
            dz = None
        elif dz_name.startswith("Weighted"):
            dz = getattr(fl, dz_name)(rng.choice(["Automatic", "TakagiSugeno", "Tsukamoto"]))
        else:
            dz = getattr(fl, dz_name)(rng.choice([None, None, 1000, rng.randint(1, 60), rng.randint(61, 400), 0, -5]))
            if rng.random() < 0.05:
                dz.resolution = rng.choice([0, -3])
        ag = force["snorms"].pop() if force.get("snorms") else rng.choice(tb["snorms"] + ["none"])
        dv = rng.choice([math.nan, math.nan, g.num(), math.inf])
        ov = fl.OutputVariable(g.ident(), g.description(), enabled=rng.random() > 0.15, minimum=lo, maximum=hi,
                               lock_range=rng.random() < 0.3, lock_previous=rng.random() < 0.3, default_value=dv,
                               aggregation=None if ag == "none" else getattr(fl, ag)(), defuzzifier=dz)
        weighted = dz_name.startswith("Weighted")
        for j in range(rng.choice([0, 1, 2, 3, 4])):
            if force.get("terms"):
                c = force["terms"].pop()
            elif weighted and kind in ("sugeno", "hybrid"):
                c = rng.choice(["Constant", "Linear", "Function", "Constant", "Linear", "Function"] + shape_names)
            elif weighted:
                c = rng.choice(mono + ["Constant"])
            else:
                c = rng.choice(shape_names + ["Discrete", "Discrete", "Constant", "Linear", "Function"])
            nm = g.ident()
            if c == "Discrete":
                t = g.discrete(fl, nm)
            elif c == "Linear":
                k = rng.choice([n_in, n_in + 1, n_in + 1, 0, n_in + 2])
                t = fl.Linear(nm, [g.num() for _ in range(k)], e)
            elif c == "Function":
                ins = [v.name for v in e.input_variables]
                a = rng.choice(ins)
                forms = [f"{abs(g.num()):.{d}f} * {a} + {abs(g.num()):.{d}f}", f"max({a}, {abs(g.num()):.{d}f}) ^ 2", f"{a}  -  {rng.choice(ins)}",
                         f"sin({a})/({abs(g.num()):.{d}f}+1.0)", f"~{a}", f"{a}*{a} + pi", f"{abs(g.num()):.{d}f}"]
                t = fl.Function(nm, rng.choice(forms), e)
                t.load()
            else:
                t = g.shape(fl, c, nm)
            ov.terms.append(t)
        e.output_variables.append(ov)
    for b in range(rng.choice([0, 1, 1, 1, 2])):
        cj = force["tnorms"].pop() if force.get("tnorms") else rng.choice(tb["tnorms"] + ["none"])
        dj = force["snorms"].pop() if force.get("snorms") else rng.choice(tb["snorms"] + ["none"])
        im = force["tnorms"].pop() if force.get("tnorms") else rng.choice(tb["tnorms"] + ["none"])
        an = force["activations"].pop() if force.get("activations") else rng.choice(tb["activations"] + ["none"])
        if an == "none":
            act = None
        elif an in ("First", "Last"):
            act = getattr(fl, an)(rng.choice([1, 2, 3, 0, -1, 12]), g.num(0, 1) if rng.random() < 0.8 else 0.0)
        elif an in ("Highest", "Lowest"):
            act = getattr(fl, an)(rng.choice([1, 2, 3, 0, -1, 12]))
        elif an == "Threshold":
            act = fl.Threshold(rng.choice(["<", "<=", "==", "!=", ">=", ">"]), g.num(0, 1))
        else:
            act = getattr(fl, an)()
        rb = fl.RuleBlock(g.name_value(), g.description(), enabled=rng.random() > 0.15,
                          conjunction=None if cj == "none" else getattr(fl, cj)(), disjunction=None if dj == "none" else getattr(fl, dj)(),
                          implication=None if im == "none" else getattr(fl, im)(), activation=act)
        ins = [v for v in e.input_variables if v.terms]
        outs = [v for v in e.output_variables if v.terms]
        if ins and outs:
            for k in range(rng.choice([0, 1, 2, 3, 5])):
                props = []
                for _ in range(rng.choice([1, 1, 2, 3])):
                    v = rng.choice(ins)
                    hs = [rng.choice(HEDGES) for _ in range(rng.choice([0, 0, 0, 1, 2]))]
                    if rng.random() < 0.05:
                        props.append(" ".join([v.name, "is"] + hs + ["any"]))
                    else:
                        tn = rng.choice(engine_terms[v.name]) if v.name in engine_terms and rng.random() < 0.6 else rng.choice(v.terms).name
                        props.append(" ".join([v.name, "is"] + hs + [tn]))
                ante = props[0]
                for p in props[1:]:
                    ante += f" {rng.choice(['and', 'or'])} {p}"
                cons = []
                for _ in range(rng.choice([1, 1, 1, 2])):
                    v = rng.choice(outs)
                    hs = [rng.choice(HEDGES) for _ in range(rng.choice([0, 0, 0, 1]))]
                    cons.append(" ".join([v.name, "is"] + hs + [rng.choice(v.terms).name]))
                text = f"if {ante} then {' and '.join(cons)}"
                # weights: 1 (default), exactly 0.0 / -0.0 (falsy numbers), values on the decimals grid or free, and the near-1
                # tolerance cases of Gen.height; either written in the rule text or assigned to the rule object afterwards
                k = rng.random()
                if k < 0.45:
                    w = 1.0
                elif k < 0.57:
                    w = 0.0
                elif k < 0.6:
                    w = -0.0
                else:
                    w = g.height("weight")
                if rng.random() < 0.5 and float(f"{w:.{d}f}") == w and (w != 0.0 or math.copysign(1.0, w) == math.copysign(1.0, float(f"{w:.{d}f}"))):
                    rule = fl.Rule.create(f"{text} with {w:.{d}f}", e)        # the text carries the weight exactly
                else:
                    rule = fl.Rule.create(text, e)
                    rule.weight = w
                rb.rules.append(rule)
        e.rule_blocks.append(rb)
    # probes of attributes that the language cannot express
    rules = [r for b in e.rule_blocks for r in b.rules]
    if flags.get("rule_disabled") and rules:
        rng.choice(rules).enabled = False
    if flags.get("heightless"):
        cands = [t for v in e.output_variables for t in v.terms if type(t).__name__ in ("Constant", "Linear", "Function")]
        if cands:
            rng.choice(cands).height = 0.5
    if flags.get("function_variables"):
        cands = [t for v in e.output_variables for t in v.terms if type(t).__name__ == "Function"]
        if cands:
            t = rng.choice(cands)
            t.variables = {"kq": 2.0}
            t.formula = t.formula + " + kq"
            t.load()
    return e


# ------------------------------------------------------------------------------------------------ independent dump
def fnum(x, d) -> str:
    return f"{float(x):.{d}f}"


def is_close1(x) -> bool:
    import fuzzylite as fl

    return bool(np.isclose(float(x), 1.0, atol=fl.settings.atol, rtol=fl.settings.rtol, equal_nan=True))


def term_fields(t, tb):
    """(class, [parameter values], height, extra) read from the object's attributes (not through parameters())."""
    c = type(t).__name__
    if c == "Discrete":
        return c, [float(v) for v in np.asarray(t.values).flatten().tolist()], float(t.height), None
    if c == "Linear":
        return c, [float(v) for v in t.coefficients], float(t.height), None
    if c == "Function":
        return c, [], float(t.height), (t.formula, tuple(sorted((k, float(v)) for k, v in (t.variables or {}).items())))
    return c, [float(getattr(t, p)) for p in tb["shapes"][c]], float(t.height), None


def dump(e, d, tb):
    """Structure of the engine at the printed precision (heights / weights inside the tolerance of 1 read as 1)."""

    def h(x):
        return "~1" if is_close1(x) else fnum(x, d)

    def term(t):
        c, ps, height, extra = term_fields(t, tb)
        # the height attribute of Constant / Linear / Function is not used by their membership functions: not structure
        # (what the exporter does with it is observed through the parameter list and the import result)
        return ("term", t.name, c, tuple(fnum(p, d) for p in ps), "-" if c in ("Constant", "Linear", "Function") else h(height), extra)

    def dz(z):
        if z is None:
            return None
        c = type(z).__name__
        return (c, int(z.resolution)) if hasattr(z, "resolution") else (c, z.type.name)

    def act(a):
        if a is None:
            return None
        c = type(a).__name__
        if c in ("First", "Last"):
            return (c, int(a.rules), fnum(a.threshold, d))
        if c in ("Highest", "Lowest"):
            return (c, int(a.rules))
        if c == "Threshold":
            return (c, a.comparator.value, fnum(a.threshold, d))
        return (c,)

    def nm(n):
        return None if n is None else type(n).__name__

    return {
        "engine": (e.name, e.description),
        "inputs": [(v.name, v.description, bool(v.enabled), fnum(v.minimum, d), fnum(v.maximum, d), bool(v.lock_range), [term(t) for t in v.terms]) for v in e.input_variables],
        "outputs": [(v.name, v.description, bool(v.enabled), fnum(v.minimum, d), fnum(v.maximum, d), bool(v.lock_range), nm(v.aggregation), dz(v.defuzzifier),
                     fnum(v.default_value, d), bool(v.lock_previous), [term(t) for t in v.terms]) for v in e.output_variables],
        "blocks": [(b.name, b.description, bool(b.enabled), nm(b.conjunction), nm(b.disjunction), nm(b.implication), act(b.activation),
                    [("rule", bool(r.enabled), r.antecedent.text, r.consequent.text, h(r.weight)) for r in b.rules]) for b in e.rule_blocks],
    }


def diff_paths(a, b, path=""):
    """Paths at which two dumps differ."""
    if type(a) != type(b):
        return [path]
    if isinstance(a, dict):
        out = []
        for k in a:
            out += diff_paths(a[k], b.get(k), f"{path}/{k}")
        return out
    if isinstance(a, (list, tuple)):
        if len(a) != len(b):
            return [path + "/len"]
        tag = a[0] if a and isinstance(a[0], str) and a[0] in ("term", "rule") else None
        out = []
        for i, (x, y) in enumerate(zip(a, b)):
            out += diff_paths(x, y, f"{path}/{tag}.{i}" if tag else f"{path}/{i}")
        return out
    return [] if a == b else [path]


def all_numbers(e, tb):
    """(kind, value) of every number of the engine; kind in num / height / weight."""
    out = []
    for v in list(e.input_variables) + list(e.output_variables):
        out += [("num", v.minimum), ("num", v.maximum)]
        if hasattr(v, "default_value"):
            out.append(("num", v.default_value))
        for t in v.terms:
            c, ps, height, _ = term_fields(t, tb)
            out += [("num", p) for p in ps]
            out.append(("height1" if c in ("Constant", "Linear", "Function") else "height", height))
    for b in e.rule_blocks:
        a = b.activation
        if a is not None and hasattr(a, "threshold"):
            out.append(("num", a.threshold))
        out += [("weight", r.weight) for r in b.rules]
    return out


def representable(e, d, tb) -> bool:
    for kind, x in all_numbers(e, tb):
        x = float(x)
        if kind == "height1":
            if x != 1.0:
                return False
            continue
        y = float(fnum(x, d))
        if not (y == x or (y != y and x != x)) or (x == 0 and math.copysign(1, x) != math.copysign(1, y)):
            return False
        if kind in ("height", "weight") and x != 1.0 and is_close1(x):
            return False
    return True


def rounds_into_tolerance(e, d, tb) -> list[str]:
    return [kind for kind, x in all_numbers(e, tb) if kind in ("height", "weight") and not is_close1(x) and is_close1(float(fnum(x, d)))]


# ------------------------------------------------------------------------------------------------ running engines
def _bits(out):
    bits = np.atleast_1d(np.asarray(out, dtype=np.float64)).copy()
    bits[np.isnan(bits)] = np.nan
    return bits.view(np.int64).tolist()


def outcome(e, rows):
    """Engine outputs on the input rows, as one batch and row by row (scalar inputs; some activation methods reject
    batches): ("ok", bits) or ("err", exception class) each.  An exception is an outcome."""
    res = []
    with warnings.catch_warnings(), np.errstate(all="ignore"):
        warnings.simplefilter("ignore")
        try:
            e.restart()
            e.input_values = np.array(rows, dtype=float)
            e.process()
            res.append(("ok", _bits(np.atleast_2d(np.asarray(e.output_values, dtype=np.float64)).ravel())))
        except Exception as ex:
            res.append(("err", type(ex).__name__))
        try:
            e.restart()
        except Exception:
            pass
        for row in rows:
            try:
                for v, x in zip(e.input_variables, row):
                    v.value = float(x)
                e.process()
                res.append(("ok", _bits([float(np.asarray(v.value).ravel()[0]) for v in e.output_variables])))
            except Exception as ex:
                res.append(("err", type(ex).__name__))
    return res


def same_outcome(a, b) -> bool:
    """Wherever the original engine produces outputs, the re-imported one produces the same bits.  Where the original
    raises there is no output to compare: whether e.g. a zero width raises ZeroDivisionError or yields inf depends on the
    parameter being a Python float (constructor) or a numpy.float64 (importer), which is not part of the structure."""
    return len(a) == len(b) and all(x[0] == "err" or x == y for x, y in zip(a, b))


def input_rows(e, rng, n=8):
    rows = []
    for _ in range(n):
        row = []
        for v in e.input_variables:
            lo = v.minimum if math.isfinite(v.minimum) else -10.0
            hi = v.maximum if math.isfinite(v.maximum) else 10.0
            k = rng.random()
            row.append(math.nan if k < 0.05 else (rng.choice([lo, hi, lo - 1.0, hi + 1.0]) if k < 0.2 else rng.uniform(lo, hi)))
        rows.append(row)
    return rows


# ------------------------------------------------------------------------------------------------ Coq literals
def cs(s: str) -> str:
    return vlib.coq_string(s)


def cnum(x, d) -> str:
    return f"(TN {cs(fnum(x, d))} {'true' if is_close1(x) else 'false'})"


def cbool(b) -> str:
    return "true" if b else "false"


def cz(n: int) -> str:
    return f"({int(n)})%Z"


CMP = {"<": "CmpLt", "<=": "CmpLe", "==": "CmpEq", "!=": "CmpNe", ">=": "CmpGe", ">": "CmpGt"}


def cterm(t, d, tb) -> str:
    c, ps, height, extra = term_fields(t, tb)
    h = cnum(height, d)
    if c == "Discrete":
        pairs = [f"({cnum(ps[i], d)}, {cnum(ps[i + 1], d)})" for i in range(0, len(ps) - 1, 2)]
        return f"(FDiscrete {cs(t.name)} {vlib.coq_list(pairs)} {h})"
    if c == "Linear":
        return f"(FLinear {cs(t.name)} {vlib.coq_list(cnum(p, d) for p in ps)} {h})"
    if c == "Function":
        return f"(FFunction {cs(t.name)} {cs(extra[0])} {h})"
    return f"(FShape {cs(t.name)} {cs(c)} {vlib.coq_list(cnum(p, d) for p in ps)} {h})"


def copt(x, f) -> str:
    return "None" if x is None else f"(Some {f(x)})"


def cdefuzz(z) -> str:
    c = type(z).__name__
    if hasattr(z, "resolution"):
        return f"(FDIntegral {c} {cz(z.resolution)})"
    return f"(FDWeighted {cbool(c == 'WeightedAverage')} W{z.type.name})"


def cact(a, d) -> str:
    c = type(a).__name__
    if c in ("First", "Last"):
        return f"(A{c} {cz(a.rules)} {cnum(a.threshold, d)})"
    if c in ("Highest", "Lowest"):
        return f"(A{c} {cz(a.rules)})"
    if c == "Threshold":
        return f"(AThreshold {CMP[a.comparator.value]} {cnum(a.threshold, d)})"
    return f"A{c}"


def cengine(e, d, tb) -> str:
    ins = [f"(Build_fll_input {cs(v.name)} {cs(v.description)} {cbool(v.enabled)} {cnum(v.minimum, d)} {cnum(v.maximum, d)} {cbool(v.lock_range)} "
           f"{vlib.coq_list(cterm(t, d, tb) for t in v.terms)})" for v in e.input_variables]
    outs = [f"(Build_fll_output {cs(v.name)} {cs(v.description)} {cbool(v.enabled)} {cnum(v.minimum, d)} {cnum(v.maximum, d)} {cbool(v.lock_range)} "
            f"{copt(v.aggregation, lambda n: 'S_' + type(n).__name__)} {copt(v.defuzzifier, cdefuzz)} {cnum(v.default_value, d)} {cbool(v.lock_previous)} "
            f"{vlib.coq_list(cterm(t, d, tb) for t in v.terms)})" for v in e.output_variables]
    bs = []
    for b in e.rule_blocks:
        rs = [f"(Build_fll_rule {cbool(r.enabled)} {vlib.coq_list(cs(t) for t in r.antecedent.text.split())} "
              f"{vlib.coq_list(cs(t) for t in r.consequent.text.split())} {cnum(r.weight, d)})" for r in b.rules]
        bs.append(f"(Build_fll_block {cs(b.name)} {cs(b.description)} {cbool(b.enabled)} {copt(b.conjunction, lambda n: 'T_' + type(n).__name__)} "
                  f"{copt(b.disjunction, lambda n: 'S_' + type(n).__name__)} {copt(b.implication, lambda n: 'T_' + type(n).__name__)} "
                  f"{copt(b.activation, lambda a: cact(a, d))} {vlib.coq_list(rs)})")
    return f"(Build_fll_engine {cs(e.name)} {cs(e.description)} {vlib.coq_list(ins)} {vlib.coq_list(outs)} {vlib.coq_list(bs)})"


def clines(text: str) -> str:
    return vlib.coq_list(cs(l) for l in text.split("\n"))


def close_table(*texts) -> str:
    toks = set()
    for text in texts:
        for piece in re.split(r"\s+", text):
            try:
                v = float(piece)
            except ValueError:
                continue
            if is_close1(v):
                toks.add(piece)
    return vlib.coq_list(cs(t) for t in sorted(toks))


def ascii_ok(text: str) -> bool:
    return all(32 <= ord(c) < 127 or c == "\n" for c in text)


CASE_TYPE = "nat * list string * string * string * option (fll_engine tnum) * list string * result (fll_engine tnum) * bool * option (list string)"
# (decimals, closeness table, "1.000", "0.000", engine or None, text lines, expected import, re-export equals the text, expected re-export otherwise)
CHECKER = ("fun c => let '(d, tbl, one, zero, e, lines, expected, same, again) := c in "
           "match e with Some e => lines_eqb (tn_export d e) lines | None => true end "
           "&& (let r := tn_import_checked tbl one zero lines in tn_result_eqb r expected "
           "&& match r, again with Ok e2, Some t2 => lines_eqb (tn_export d e2) t2 | Ok e2, None => negb same || lines_eqb (tn_export d e2) lines | _, _ => true end)")


def import_expectation(fl, text, d, tb):
    """(Coq literal of the expected import result, imported engine or None, exception name or None)."""
    try:
        e2 = fl.FllImporter().from_string(text)
    except Exception as ex:
        name = type(ex).__name__
        return f"(Err {ERR.get(name, 'EInternal')})", None, name
    return f"(Ok {cengine(e2, d, tb)})", e2, None


def case_literal(fl, d, tb, e, text, expected_lit, e2) -> str:
    t2 = fl.FllExporter().to_string(e2) if e2 is not None else None
    elit = f"(Some {cengine(e, d, tb)})" if e is not None else "None"
    same = t2 is not None and t2 == text
    again = f"(Some {clines(t2)})" if t2 is not None and not same else "None"
    return (f"({d}%nat, {close_table(text, t2 or '')}, {cs(fnum(1.0, d))}, {cs(fnum(0.0, d))}, {elit}, {clines(text)}, {expected_lit}, {cbool(same)}, {again})")


# ------------------------------------------------------------------------------------------------ variants
def variants(rng, text: str, d: int):
    """Texts the importer should accept (kind 'accept') or reject with a known class (kind 'reject'), derived from an export.
    Returns [(kind, label, text, model_ok)]; model_ok = the variant stays inside the model's token alphabet."""
    lines = text.split("\n")
    out = []
    # comments, blank lines, indentation
    v = []
    for l in lines:
        k = rng.random()
        if k < 0.2:
            v.append("")
        if k < 0.35:
            v.append("   # a comment: with a colon")
        pad = rng.choice(["", " ", "\t", "      "])
        tail = rng.choice(["", "", "  ", " # trailing comment", "\t#x"])
        v.append(pad + l + tail if l else l)
    out.append(("accept", "comments-blank-indent", "\n".join(v), True))
    # reorder the non-header, non-term, non-rule lines of each block; duplicate one key with a different earlier value
    blocks, cur = [], []
    for l in lines:
        if l and not l.startswith(" ") and cur:
            blocks.append(cur)
            cur = []
        cur.append(l)
    blocks.append(cur)
    v = []
    for b in blocks:
        head, body = b[0], b[1:]
        if not head:
            v.append(head)
            continue
        movable = [l for l in body if l and not l.lstrip().startswith(("term:", "rule:"))]
        fixed = [l for l in body if l and l.lstrip().startswith(("term:", "rule:"))]
        empties = [l for l in body if not l]
        rng.shuffle(movable)
        dup = []
        for l in movable:
            if l.strip().startswith("enabled:") and rng.random() < 0.5:
                dup.append("  enabled: " + rng.choice(["true", "false"]))
        cut = rng.randint(0, len(movable))
        v += [head] + dup + movable[:cut] + fixed + movable[cut:] + empties
    out.append(("accept", "reordered-keys", "\n".join(v), True))
    # blanks around the colon of non term/rule keys; lines before the first header are dropped
    v = ["description: dropped before any header", "enabled: maybe"]
    for l in lines:
        if l and not l.lstrip().startswith(("term:", "rule:")) and rng.random() < 0.5:
            k, _, val = l.partition(":")
            v.append(f"{k} :{val}")
        else:
            v.append(l)
    out.append(("accept", "blank-before-colon", "\n".join(v), True))
    # non-canonical numerals and spellings (implementation only: the model's tokens are the printed ones)
    def renum(m):
        t = m.group(0)
        k = rng.random()
        try:
            x = float(t)
        except ValueError:
            return t
        if k < 0.3:
            return repr(x)
        if k < 0.5:
            return f"{x:.17e}"
        if k < 0.6 and x == x and abs(x) != math.inf:
            return "+" + t if not t.startswith("-") else t
        return t
    v = []
    for l in lines:
        s = l.lstrip()
        if s.startswith(("range:", "default:")) or (s.startswith("term:") and " Function " not in s):
            key, _, val = l.partition(":")
            parts = val.split(" ")
            start = 3 if s.startswith("term:") else 0
            parts = [p if i < start or not p else renum(re.match(r".*", p)) for i, p in enumerate(parts)]
            v.append(key + ":" + " ".join(parts))
        else:
            v.append(l)
    out.append(("accept", "noncanonical-numerals", "\n".join(v), False))
    # rejections: blank before the colon of term / rule; unknown key; unknown class; bad boolean; bad arity
    cands = [i for i, l in enumerate(lines) if l.lstrip().startswith(("term:", "rule:"))]
    if cands:
        i = rng.choice(cands)
        v = list(lines)
        v[i] = v[i].replace(":", " :", 1)
        out.append(("reject", "blank-before-colon-of-term-or-rule", "\n".join(v), True))
        i = rng.choice(cands)
        v = list(lines)
        if v[i].lstrip().startswith("term:") and " Function " in v[i]:
            pass
        elif v[i].lstrip().startswith("term:"):
            parts = v[i].split(" ")
            # "  term: name Class params": drop the last parameter or rename the class
            if rng.random() < 0.5 and len(parts) > 5:
                v[i] = " ".join(parts[:-1])
                out.append(("any", "term-one-parameter-less", "\n".join(v), True))
            else:
                parts[4] = parts[4] + "Q"
                v[i] = " ".join(parts)
                out.append(("reject", "unknown-term-class", "\n".join(v), True))
    body = [i for i, l in enumerate(lines) if l.startswith("  ")]
    if body:
        i = rng.choice(body)
        v = list(lines)
        v.insert(i, "  colour: blue")
        out.append(("reject", "unknown-key", "\n".join(v), True))
        bl = [i for i in body if lines[i].strip() in ("enabled: true", "enabled: false", "lock-range: true", "lock-range: false")]
        if bl:
            i = rng.choice(bl)
            v = list(lines)
            v[i] = v[i].replace("true", "True").replace("false", "yes")
            out.append(("reject", "bad-boolean", "\n".join(v), True))
        opl = [i for i in body if lines[i].lstrip().startswith(("conjunction:", "disjunction:", "implication:", "aggregation:", "defuzzifier:", "activation:"))]
        if opl:
            i = rng.choice(opl)
            v = list(lines)
            k = rng.random()
            if k < 0.4:
                v[i] = v[i].partition(":")[0] + ": " + rng.choice(["Minimun", "Maximum Minimum", "Centroid x", "Centroid 1.5", "WeightedSum Sugeno", "First 1", "First a 0.5", "Highest 1 2", "Threshold ~ 0.5", "General extra words", "Threshold > 0.5 1"])
                out.append(("any", "operator-garbage", "\n".join(v), True))
            elif k < 0.7:
                v[i] = v[i].partition(":")[0] + ":"
                out.append(("accept", "operator-empty-value", "\n".join(v), True))
            else:
                key = v[i].partition(":")[0]
                pool = {"activation": ["First", "Last", "Highest", "Lowest", "Threshold", "General", "Proportional", "none"],
                        "defuzzifier": ["Centroid", "Bisector", "WeightedAverage", "WeightedSum", "MeanOfMaximum", "none"]}.get(key.strip())
                if pool:
                    v[i] = key + ": " + rng.choice(pool)
                    out.append(("any", "operator-bare-class", "\n".join(v), True))
    # Function.load of a mutilated (or merely rewritten) formula (model: Formula.parse_text, C17)
    fnl = [i for i, l in enumerate(lines) if l.lstrip().startswith("term:") and " Function " in l]
    if fnl:
        i = rng.choice(fnl)
        v = list(lines)
        head, _, formula = v[i].partition(" Function ")
        toks = formula.split()
        k = rng.random()
        if k < 0.35 and len(toks) > 1:
            formula = " ".join(toks[:-1])
        elif k < 0.6:
            formula = rng.choice(["( " + formula, formula + " )", formula + " +", "* " + formula, formula + " " + formula, "max( " + formula + " )", "sin " + formula, "~", "( )", "1.000 2.000"])
        else:
            formula = rng.choice(["pi", "2.000 ^ 3.000 ^ 2.000", "max(" + formula + ", 1.000)", "~ " + formula, "(" + formula + ")", "a and b or c", "sin(" + formula + ") * cos(1.000)"])
        v[i] = head + " Function " + formula
        out.append(("any", "formula-mutated", "\n".join(v), True))
    # Rule.load against the engine under construction (model: RuleText.load_rule, C16)
    rl = [i for i, l in enumerate(lines) if l.lstrip().startswith("rule:")]
    if rl:
        i = rng.choice(rl)
        v = list(lines)
        toks = v[i].split()
        k = rng.random()
        j = toks.index("then")
        if k < 0.2:
            toks[j - 1] = "zzq"                               # unknown term in the antecedent
        elif k < 0.35:
            toks[1 + 1] = "zzv"                               # unknown variable ("rule:", "if", variable)
        elif k < 0.5:
            del toks[j - 1]                                   # antecedent ends in `is` or a hedge
        elif k < 0.6:
            toks[j + 1] = "zzo"                               # unknown output variable
        elif k < 0.7:
            toks.insert(j, rng.choice(["and", "or", ")", "("]))
        elif k < 0.8:
            toks[3] = "are"                                   # `is` replaced
        elif k < 0.9:
            toks = toks[: j + 1] + toks[j + 1 : j + 4] + ["and"] + toks[j + 1 : j + 4] + toks[j + 4 :]   # conclusion repeated: fine
        else:
            toks = toks[:2] + ["("] + toks[2:j] + [")"] + toks[j:]                                          # redundant parentheses: fine
        v[i] = "  " + " ".join(toks)
        out.append(("any", "rule-mutated", "\n".join(v), True))
    # rule blocks moved in front of the variables: their rules are loaded against an engine without variables
    if rl:
        hdr = [i for i, l in enumerate(lines) if l and not l.startswith(" ")]
        first_var = next((i for i in hdr if lines[i].startswith(("InputVariable", "OutputVariable"))), None)
        first_rb = next((i for i in hdr if lines[i].startswith("RuleBlock")), None)
        if first_var is not None and first_rb is not None and first_var < first_rb:
            v = lines[:first_var] + [l for l in lines[first_rb:] if l] + lines[first_var:first_rb] + [""]
            out.append(("any", "rule-blocks-before-variables", "\n".join(v), True))
    tl = [i for i, l in enumerate(lines) if l.lstrip().startswith("term:") and " Function" not in l]
    if tl:
        i = rng.choice(tl)
        v = list(lines)
        v[i] = " ".join(v[i].split(" ")[:5])      # "  term: name Class": constructor defaults
        out.append(("any", "term-without-parameters", "\n".join(v), True))
    return out


# ------------------------------------------------------------------------------------------------ the check
def classify_text_change(e, d, tb):
    kinds = rounds_into_tolerance(e, d, tb)
    if kinds:
        return f"fll:{kinds[0]}-rounds-into-tolerance"
    return "fll:export-not-fixed-point"


def stale_twin(fl, obj, tb, engine):
    """A second object of the same class that already carries DIFFERENT state (what configure() has to overwrite)."""
    c = type(obj).__name__
    if c in tb["shapes"]:
        t = getattr(fl, c)(obj.name, **{p: 7.25 + i for i, p in enumerate(tb["shapes"][c])})
        if c != "Constant":
            t.height = 0.37
        return t
    if c == "Discrete":
        return fl.Discrete(obj.name, [-3.5, 0.125, 4.5, 0.875], height=0.37)
    if c == "Linear":
        return fl.Linear(obj.name, [9.5, -8.25, 7.125, 6.0, 5.5], engine)
    if c == "Function":
        return fl.Function(obj.name, "7.25 + 1.0", engine)
    if c in ("First", "Last"):
        return getattr(fl, c)(7, 0.9375)
    if c in ("Highest", "Lowest"):
        return getattr(fl, c)(7)
    if c == "Threshold":
        return fl.Threshold("<" if obj.comparator.value != "<" else ">=", 0.9375)
    if c in ("General", "Proportional"):
        return getattr(fl, c)()
    if c in ("WeightedAverage", "WeightedSum"):
        return getattr(fl, c)("Tsukamoto" if obj.type.name != "Tsukamoto" else "TakagiSugeno")
    return getattr(fl, c)(77 if obj.resolution != 77 else 78)       # integral defuzzifiers


def component_oracle(fl, e, d, tb, violation, stats):
    """Every parameters()/configure() pair on its own: configure(original.parameters()) on an object of the same class
    that carries other state must yield the original's FLL text, and parameters() must be a fixed point of it.  (As the
    importer does, configure is only called with a non-empty parameter text.)  The text round trip of whole engines cannot
    see a configure() that keeps stale state, because the importer configures freshly constructed objects."""
    exp = fl.FllExporter()
    items = []
    for v in list(e.input_variables) + list(e.output_variables):
        for t in v.terms:
            if type(t).__name__ in ("Constant", "Linear", "Function") and not is_close1(t.height):
                continue                                   # attribute hack, outside the property (see check_engine)
            items.append(("term", t, exp.term))
    for v in e.output_variables:
        if v.defuzzifier is not None:
            items.append(("defuzzifier", v.defuzzifier, exp.defuzzifier))
    for b in e.rule_blocks:
        if b.activation is not None:
            items.append(("activation", b.activation, exp.activation))
    for kind, obj, text_of in items:
        params = obj.parameters()
        if not params:
            continue
        c = type(obj).__name__
        stats["component_checks"][kind + ":" + c] = stats["component_checks"].get(kind + ":" + c, 0) + 1
        want = text_of(obj)
        try:
            twin = stale_twin(fl, obj, tb, e)
            twin.configure(params)
            got, again = text_of(twin), twin.parameters()
        except Exception as ex:
            violation("fll:configure-raises", f"{c}.configure({params!r}) raises {type(ex).__name__}: {ex} (decimals={d})", {"component": want})
            continue
        if got != want or again != params:
            h = getattr(obj, "height", 1.0) if kind == "term" else 1.0
            if kind == "term" and not is_close1(h) and is_close1(float(fnum(h, d))):
                sig = "fll:height-rounds-into-tolerance"
            else:
                sig = "fll:configure-keeps-stale-state"
            violation(sig, f"{c}: configure({params!r}) on an object with other state gives {got!r} / parameters {again!r}, the original is {want!r} (decimals={d})",
                      {"component": want, "configured": got})


def check_engine(fl, rng, verdict, tb, e, d, meta, stats, cases, index):
    """Direct oracle on one engine + its correspondence cases."""
    nviol = 0
    replay = {"decimals": d, "meta": meta}

    def violation(sig, what, extra=None):
        nonlocal nviol
        nviol += 1
        r = dict(replay)
        r.update(extra or {})
        verdict.add_violation(sig, what, r)
        stats["violations"][sig] = stats["violations"].get(sig, 0) + 1

    with fl.settings.context(decimals=d):
        exp, imp = fl.FllExporter(), fl.FllImporter()
        t1 = exp.to_string(e)
        replay["fll"] = t1
        python_repr = None
        try:
            python_repr = repr(e)
        except Exception:
            pass
        replay["python"] = python_repr
        has_disabled_rule = any(not r.enabled for b in e.rule_blocks for r in b.rules)
        heightless = [type(t).__name__ for v in e.output_variables for t in v.terms
                      if type(t).__name__ in ("Constant", "Linear", "Function") and not is_close1(t.height)]
        fvars = any(type(t).__name__ == "Function" and t.variables for v in e.output_variables for t in v.terms)
        expected_lit, e2, exc = import_expectation(fl, t1, d, tb)
        stats["evaluations"] += 1
        # A non-unit `height` attribute on Constant / Linear / Function is an attribute hack: their constructors offer no
        # height, so such engines are not "buildable from the registered types".  They are kept as correspondence-only
        # probes (the model mirrors what the printer does with the attribute) and never reach the violation oracle.
        probe = bool(heightless)
        component_oracle(fl, e, d, tb, violation, stats)
        if probe:
            stats["correspondence_only_probes"] = stats.get("correspondence_only_probes", 0) + 1
            key = f"{heightless[0]}:" + ("import-raises-" + exc if e2 is None else "imported")
            stats.setdefault("probe_outcomes", {})[key] = stats.setdefault("probe_outcomes", {}).get(key, 0) + 1
        elif e2 is None:
            violation(f"fll:import-raises-{exc}", f"the exported text of the engine is rejected by the importer with {exc} (decimals={d}, {meta})")
        else:
            t2 = exp.to_string(e2)
            if t1 != t2:
                diff = [(a, b) for a, b in zip(t1.split("\n"), t2.split("\n")) if a != b][:2]
                violation(classify_text_change(e, d, tb), f"export/import/export changes the text at decimals={d}: {diff}", {"t2": t2})
            da, db = dump(e, d, tb), dump(e2, d, tb)
            paths = diff_paths(da, db)
            seen = set()
            for p in paths:
                if re.search(r"/rule\.1$", p):
                    sig = "fll:rule-enabled-lost"
                elif re.search(r"/term\.5", p):
                    sig = "fll:function-variables-lost"
                elif rounds_into_tolerance(e, d, tb) and re.search(r"/(term|rule)\.4$", p):
                    sig = f"fll:{rounds_into_tolerance(e, d, tb)[0]}-rounds-into-tolerance"
                else:
                    sig = "fll:structure:" + re.sub(r"\d+", "n", p)
                if sig not in seen:
                    seen.add(sig)
                    violation(sig, f"the re-imported engine differs in structure at {p} (decimals={d}, {meta})")
            rep = representable(e, d, tb)
            if rep:
                stats["representable"] += 1
                rows = input_rows(e, rng)
                oa, ob = outcome(e, rows), outcome(e2, rows)
                for o in oa:
                    key = o[0] if o[0] == "ok" else o[1]
                    stats["outcomes"][key] = stats["outcomes"].get(key, 0) + 1
                if any(x[0] == "err" and y[0] == "ok" for x, y in zip(oa, ob)):
                    stats["original_raises_reimport_computes"] = stats.get("original_raises_reimport_computes", 0) + 1
                if not same_outcome(oa, ob):
                    sig = "fll:rule-enabled-lost" if has_disabled_rule else ("fll:function-variables-lost" if fvars else "fll:outputs-differ")
                    k = next(k for k, (x, y) in enumerate(zip(oa, ob)) if not (x[0] == "err" or x == y))
                    where = "batch of all rows" if k == 0 else "row " + str(rows[k - 1])
                    violation(sig, f"representable engine and its re-import compute different outputs on {where} (decimals={d}, {meta}): {str(oa[k])[:100]} vs {str(ob[k])[:100]}", {"rows": rows, "first_differing": where})
                if any(o[0] == "ok" for o in oa):
                    stats["processed_ok"] += 1
            # term level, every engine: with the inputs set, a term on which the original evaluates must evaluate after the
            # import too (a Function / Linear term that lost its reference to the engine raises).  Rounding cannot turn a
            # value into an exception at this level, so the check does not depend on representability.
            trows = input_rows(e, rng, n=3)
            done = False
            for row in trows:
                for eng in (e, e2):
                    for var, x in zip(eng.input_variables, row):
                        var.value = float(x)
                for va, vb in zip(list(e.input_variables) + list(e.output_variables), list(e2.input_variables) + list(e2.output_variables)):
                    x = float(va.value) if not hasattr(va, "defuzzifier") else 0.5     # the variable's own input value
                    for ta, tb_ in zip(va.terms, vb.terms):
                        stats["term_evaluations"] = stats.get("term_evaluations", 0) + 1
                        try:
                            with warnings.catch_warnings(), np.errstate(all="ignore"):
                                warnings.simplefilter("ignore")
                                ta.membership(x)
                        except Exception:
                            continue
                        try:
                            with warnings.catch_warnings(), np.errstate(all="ignore"):
                                warnings.simplefilter("ignore")
                                tb_.membership(x)
                        except Exception as ex:
                            if not done:
                                done = True
                                sig = "fll:function-variables-lost" if (type(ta).__name__ == "Function" and ta.variables) else "fll:term-raises-after-import"
                                violation(sig, f"term `{exp.term(ta)}` of variable {va.name} evaluates in the original engine at x={x} with inputs {row}, "
                                               f"and raises {type(ex).__name__}: {str(ex)[:120]} in the re-imported engine (decimals={d}, {meta})", {"rows": [row], "term": exp.term(ta)})
        # correspondence cases: the export itself, then variants of the text
        if ascii_ok(t1):
            cases.append(case_literal(fl, d, tb, e, t1, expected_lit, e2))
            index.append({"what": "export", "decimals": d, "meta": meta, "fll": t1})
        if e2 is not None and not probe and rng.random() < meta.get("variant_rate", 0.5):
            for kind, label, text, model_ok in variants(rng, t1, d):
                lit, ev, exc = import_expectation(fl, text, d, tb)
                stats["variants"][label] = stats["variants"].get(label, 0) + 1
                stats["evaluations"] += 1
                if kind == "accept" and ev is None:
                    violation(f"fll:variant-rejected:{label}", f"accepted-variant text is rejected with {exc}", {"variant": text})
                if kind == "reject" and ev is not None:
                    stats["variant_unexpectedly_accepted"] = stats.get("variant_unexpectedly_accepted", 0) + 1
                if ev is not None:
                    stats["variant_accepted"] += 1
                    try:
                        tv1 = exp.to_string(ev)
                        ev2 = imp.from_string(tv1)
                        tv2 = exp.to_string(ev2)
                        if tv1 != tv2 and not rounds_into_tolerance(ev, d, tb):
                            violation("fll:variant-not-normalised", f"an accepted text ({label}) is not a fixed point after one cycle", {"variant": text})
                        if kind == "accept" and label != "operator-empty-value" and tv1 != t2 and not rounds_into_tolerance(e, d, tb):
                            violation(f"fll:variant-normal-form:{label}", f"variant ({label}) of an exported text normalises to a different text", {"variant": text, "normal": tv1})
                    except Exception as ex:
                        violation(f"fll:variant-cycle-raises:{label}", f"accepted text ({label}) cannot be exported and re-imported: {type(ex).__name__}: {ex}", {"variant": text})
                else:
                    stats["variant_rejected"][exc] = stats["variant_rejected"].get(exc, 0) + 1
                if model_ok and ascii_ok(text):
                    cases.append(case_literal(fl, d, tb, None, text, lit, ev))
                    index.append({"what": "variant:" + label, "decimals": d, "meta": meta, "fll": text})
    return nviol


def forced_classes(i, tb):
    """Deterministic round-robin so that every registered class occurs whatever the seed."""
    terms = sorted(tb["shapes"]) + ["Discrete", "Linear", "Function"]
    tn, sn = tb["tnorms"] + ["none"], tb["snorms"] + ["none"]
    dz, ac = tb["defuzzifiers"] + ["none"], tb["activations"] + ["none"]
    return {
        "terms": [terms[(3 * i + j) % len(terms)] for j in range(3)],
        "tnorms": [tn[(2 * i + j) % len(tn)] for j in range(2)],
        "snorms": [sn[(2 * i + j) % len(sn)] for j in range(2)],
        "defuzzifiers": [dz[i % len(dz)]],
        "activations": [ac[i % len(ac)]],
    }


def engine_for(fl, seed_i, i, tb):
    """Engine number i of a run: everything about it is drawn from its own generator."""
    import random

    rng = random.Random(seed_i)
    d = 1 + (i % 9)
    flags = {}
    if rng.random() < 0.55:
        mode = "representable"
    else:
        mode = "free"
        if rng.random() < 0.12:
            flags["unstable"] = True
    if rng.random() < 0.08:
        flags["rule_disabled"] = True
    if rng.random() < 0.03:
        flags["heightless"] = True
    if rng.random() < 0.02:
        flags["function_variables"] = True
    e = make_engine(fl, rng, tb, d, mode, flags, forced_classes(i, tb))
    return e, d, mode, flags, rng


def engine_seeds(ctx, n):
    return [ctx.rng.getrandbits(63) for _ in range(n)]


def run(ctx, build, verdict, ev):
    import fuzzylite as fl

    tb = tables()
    n = ctx.n(300, 6000)
    stats = {"evaluations": 0, "representable": 0, "processed_ok": 0, "outcomes": {}, "variants": {}, "variant_accepted": 0,
             "variant_rejected": {}, "violations": {}, "modes": {}, "decimals": {}, "classes": {}, "component_checks": {}}
    cases, index = [], []
    seeds = engine_seeds(ctx, n)
    nviol = 0
    samples = []
    for i in range(n):
        e, d, mode, flags, rng = engine_for(fl, seeds[i], i, tb)
        meta = {"i": i, "n": n, "seed": ctx.seed, "mode": mode, "flags": sorted(flags), "variant_rate": 0.5}
        stats["modes"][mode + ("+" + "+".join(sorted(flags)) if flags else "")] = stats["modes"].get(mode + ("+" + "+".join(sorted(flags)) if flags else ""), 0) + 1
        stats["decimals"][d] = stats["decimals"].get(d, 0) + 1
        for v in list(e.input_variables) + list(e.output_variables):
            for t in v.terms:
                c = "term:" + type(t).__name__
                stats["classes"][c] = stats["classes"].get(c, 0) + 1
        for v in e.output_variables:
            for c in ("defuzzifier:" + (type(v.defuzzifier).__name__ if v.defuzzifier else "none"), "snorm:" + (type(v.aggregation).__name__ if v.aggregation else "none")):
                stats["classes"][c] = stats["classes"].get(c, 0) + 1
        for b in e.rule_blocks:
            for c in ("activation:" + (type(b.activation).__name__ if b.activation else "none"), "tnorm:" + (type(b.conjunction).__name__ if b.conjunction else "none"),
                      "snorm:" + (type(b.disjunction).__name__ if b.disjunction else "none"), "tnorm:" + (type(b.implication).__name__ if b.implication else "none")):
                stats["classes"][c] = stats["classes"].get(c, 0) + 1
        nviol += check_engine(fl, rng, verdict, tb, e, d, meta, stats, cases, index)
        if i % max(1, n // 4) == 0:
            with fl.settings.context(decimals=d):
                samples.append({"decimals": d, "mode": mode, "fll": fl.FllExporter().to_string(e)[:600]})
    # the model inside Coq
    mism = []
    if not build.translation_errors:
        bad, log = vlib.run_coq_cases(ctx.work, "c14", "From VF Require Import GenNorm GenTerm Core Fll FllChecked.\nOpen Scope string_scope.", [(CASE_TYPE, CHECKER, cases)], chunk=max(40, min(150, -(-len(cases) // vlib.NPROC))))
        for j in bad:
            if j < 0:
                verdict.add_broken("correspondence", "C14:coq-evaluation", log)
                break
            mism.append(index[j])
        if mism:
            verdict.add_broken("correspondence", f"FLL model vs implementation ({mism[0]['what']})",
                               f"model and implementation differ on {len(mism)} of {len(cases)} texts; first: {str(mism[0])[:3000]}")
    texts = {c["fll"] for c in index}
    c = ev["coverage"]
    c["evaluations"] = stats["evaluations"] + len(cases)
    c["distinct_nontrivial"] = len(texts)
    c["rule"] = ("engines drawn from the seed with round-robin coverage of every registered term / norm / defuzzifier / activation class; decimals cycle 1..9; "
                 "modes representable / free (+unstable heights, +disabled rule, +Function variables; +height attribute on Constant/Linear/Function as correspondence-only probes); each engine exported, imported, re-exported, "
                 "dumped, and (representable) processed on 8 input rows on both sides; half of the engines also through 5-9 variant texts; "
                 "non-trivial = distinct texts given to the model (every one contains at least an engine header; exports average ~30 lines)")
    c["distribution"] = {"engines": n, "modes": stats["modes"], "decimals": stats["decimals"], "classes": dict(sorted(stats["classes"].items())),
                         "representable_engines": stats["representable"], "processed_without_exception": stats["processed_ok"], "outcomes": stats["outcomes"],
                         "variants": stats["variants"], "variant_accepted": stats["variant_accepted"], "variant_rejected": stats["variant_rejected"],
                         "model_cases": len(cases), "violations_by_signature": stats["violations"],
                         "rows_where_the_original_raises_but_the_reimport_computes (float vs numpy.float64 parameters)": stats.get("original_raises_reimport_computes", 0),
                         "rejection_variants_accepted_by_the_importer": stats.get("variant_unexpectedly_accepted", 0),
                         "term_evaluations (original evaluates => re-imported term must not raise)": stats.get("term_evaluations", 0),
                         "correspondence_only_probes (height attribute set on Constant/Linear/Function)": stats.get("correspondence_only_probes", 0),
                         "probe_outcomes": stats.get("probe_outcomes", {}),
                         "component_configure_checks (configure(parameters()) on an object with stale state)": dict(sorted(stats["component_checks"].items()))}
    c["correspondence_mismatches"] = len(mism)
    c["oracle_violations"] = nviol
    c["samples"] = samples[:4]
    c["partial_theorems"] = []
    ev["assumptions"] += [
        "A-fmt: Python's '%.{d}f' formatting and float()/numpy.float64() parsing are correctly rounded and round-trip (the model's fmt/parse/round are abstract; the correspondence supplies the printed tokens)",
        "Op.is_close(x, 1.0) is taken from the implementation for every number (closeness bit / table of the tokens of the text)",
        "engines whose Constant / Linear / Function terms carry a non-unit `height` attribute (not offered by their constructors) are outside the property: "
        "the direct oracle skips them; they are still compared with the model (Constant: printed height -> the importer raises ValueError; Linear: the height is read back as "
        "one more coefficient; Function: the height is dropped) — proved about the model as C14_constant_height_rejected and by `normalize`",
        "the model side of the correspondence is `import_checked` (Model/FllChecked.v): `import_` of Model/Fll.v plus Rule.load (RuleText.load_rule, C16) against the engine under construction "
        "and Function.load (Formula.parse_text, C17), so texts rejected because a rule does not load or a formula is ill-formed are compared too; C14b_import_checked_refines ties it to `import_`",
    ]


def regenerate(fl, tb, seed: int, n: int, i: int):
    """Engine number i of the run with this seed and size (the text alone does not determine the engine: a rule's
    enabled flag, a Function's variables … are exactly what the text loses)."""
    import hashlib
    import random

    rng = random.Random((seed * 1000003) ^ int(hashlib.sha256(b"C14").hexdigest()[:8], 16))
    seeds = [rng.getrandbits(63) for _ in range(n)]
    return engine_for(fl, seeds[i], i, tb)


def replay(ctx, data):
    import fuzzylite as fl

    tb = tables()
    for v in data.get("violations", []):
        print(v["signature"], "-", v["what"][:300])
        r = v["replay"]
        d = r.get("decimals", 3)
        meta = r.get("meta", {})
        with fl.settings.context(decimals=d):
            if r.get("variant"):
                try:
                    e2 = fl.FllImporter().from_string(r["variant"])
                    t1 = fl.FllExporter().to_string(e2)
                    t2 = fl.FllExporter().to_string(fl.FllImporter().from_string(t1))
                    print("  now: variant accepted; one cycle gives a fixed point:", t1 == t2)
                except Exception as ex:
                    print("  now: variant:", type(ex).__name__, ex)
                continue
            if "i" not in meta:
                continue
            e, d2, mode, flags, rng = regenerate(fl, tb, meta.get("seed", ctx.seed), meta["n"], meta["i"])
            t1 = fl.FllExporter().to_string(e)
            print(f"  engine {meta['i']} of {meta['n']} (seed {meta.get('seed', ctx.seed)}), decimals={d}, mode={mode}, flags={sorted(flags)}; same text as recorded: {t1 == r.get('fll')}")
            try:
                e2 = fl.FllImporter().from_string(t1)
            except Exception as ex:
                print("  now: import of the exported text raises", type(ex).__name__, ex)
                continue
            t2 = fl.FllExporter().to_string(e2)
            print("  now: second export equals the first:", t1 == t2)
            for a, b in [(a, b) for a, b in zip(t1.split("\n"), t2.split("\n")) if a != b][:3]:
                print("     ", repr(a), "->", repr(b))
            paths = diff_paths(dump(e, d, tb), dump(e2, d, tb))
            print("  now: structure differs at:", paths[:5] if paths else "nowhere")
            if r.get("rows"):
                print("  now: outputs equal on the recorded rows:", same_outcome(outcome(e, r["rows"]), outcome(e2, r["rows"])))
    for b in data.get("broken", []):
        print(b["kind"], b["name"], b["detail"][:800])
    return 0
