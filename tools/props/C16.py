"""C16 — malformed rule and FLL text is rejected cleanly, never accepted or crashed on.

Rule stream.  Random engines (enginelib.gen_engine; one in five gets colliding / odd names: variables or terms called like
keywords, hedges, formula functions, numbers; a variable without terms; duplicated names) x valid rules generated from the
grammar (enginelib.gen_antecedent, 1-2 conclusions with hedges, optional weight in many float spellings) x mutations:
token deletion, duplication, substitution (keywords, names, hedges, numbers, parentheses, formula-operator characters,
comments), truncation at every token boundary, adjacent swaps, glued parentheses / odd blanks, plus ONE injected error
of each listed class (missing_if, missing_then, missing_is, missing_operand, missing_term, missing_variable,
unknown_variable, unknown_term, unbalanced_parenthesis, non_numeric_weight, trailing_token, and missing_connective: one
`and`/`or` between two propositions deleted, swept over EVERY connective position of every base rule, with and without parentheses).
For every text: `Rule.create(text)` (parse), `rule.load(engine)`, then `rule.is_loaded()`, `antecedent.is_loaded()`,
`consequent.is_loaded()` and the loaded trees.
Correspondence: the Coq model Model/RuleText.v (`create_gen ascii_float_syntax code_has_F6`, run by vm_compute) must give the
same exception class (err enum), the same three flags and the same loaded antecedent tree / conclusions; RuleBlock.load_rules
(after a first load against another engine) against `load_rules`; a second Rule.load against another engine without unload
against `rule_load`; the text setter on a loaded rule (Rule.parse with another text, then Rule.load) against parse_text +
`rule_load` on the old trees; Python's float() against `ascii_float_syntax`.
Direct oracle (the property, on the public API only): never an internal error class; never is_loaded() after a failed load;
an accepted rule exports (str, repr) and evaluates (activate_with, trigger) without exception; a rule with exactly one
injected error of a listed class (clean engines only) is never accepted.
FLL stream.  The 61 shipped .fll files and exported random engines, mutated at line level (delete / duplicate / swap /
truncate) and token level (delete / duplicate / substitute / truncate / colon removal); `FllImporter().from_string`.
Correspondence: Model/Fll.v's `import_` (numbers = tokens recognised by ascii_float_syntax) must accept exactly when the
implementation does and fail with the same class whenever the implementation's exception does not come from loading a rule
against the engine or from a Function formula (neither is part of Model/Fll.v; rule loading is the rule stream above).
Direct oracle: never an internal error class; an accepted text re-exports, the export imports, and export(import(export))
is the export (fixed point after one import/export).
"""
from __future__ import annotations

import glob
import math
import re
import traceback

import numpy as np

import enginelib
import vlib

COQ_TARGETS = ["Proofs/RejectProofs.vo"]

KEYWORDS = ["if", "then", "is", "and", "or", "with"]
HEDGES = ["any", "extremely", "not", "seldom", "somewhat", "very"]
UNKNOWN = ["foo", "Zz_9", "in9", "t99", "out7", "o77"]
NUMBERS = ["0.5", "1", "1.0", "1e-3", "nan", "inf", "-inf", "+.5", "1_0", "1__0", "0x10", "1e", "e5", ".", "1.", "--1", "Infinity", "NaN", "1E+2", "_1", "1_", "1._5", "1e1_0", "- 1", "5.", ".e1", "1.5.2", "+", "infinit"]
PUNCT = ["(", ")", ",", "+", "-", "*", "/", "^", "%", "!", "~", ".", "**", "#", "a+b", "x(y", "(("]
ODD_NAMES = ["is", "and", "or", "if", "then", "with", "very", "not", "any", "max", "pi", "abs", "1.5", "inf", "x(y", "a.b", "in0", "out0", "t00", "o00"]
CLASSES = ["missing_if", "missing_then", "missing_is", "missing_operand", "missing_connective", "missing_term", "missing_variable", "unknown_variable",
           "unknown_term", "unbalanced_parenthesis", "non_numeric_weight", "trailing_token"]
INTERNAL = "EInternal"

IMPORTS_HEAD = r"""From VF Require Import GenNorm GenHedge GenTerm GenOpTable Core ShuntingYard Antecedent Consequent RuleText.
Import ListNotations.
Local Open Scope string_scope.
Local Open Scope list_scope.
Definition oerr_eqb (a b : option err) : bool :=
  match a, b with Some x, Some y => err_eqb x y | None, None => true | _, _ => false end.
Definition varref_eqb (a b : varref) : bool :=
  match a, b with VIn i, VIn j | VOut i, VOut j => Nat.eqb i j | _, _ => false end.
Fixpoint list_eqb {A} (f : A -> A -> bool) (a b : list A) : bool :=
  match a, b with [], [] => true | x :: a', y :: b' => f x y && list_eqb f a' b' | _, _ => false end.
Definition hx_eqb (a b : hedgex) : bool := String.eqb (hedgex_name a) (hedgex_name b).
Definition onat_eqb (a b : option nat) : bool :=
  match a, b with Some x, Some y => Nat.eqb x y | None, None => true | _, _ => false end.
Fixpoint expr_eqb (a b : expr) : bool :=
  match a, b with
  | EProp v hs t, EProp v' hs' t' => varref_eqb v v' && list_eqb hx_eqb hs hs' && onat_eqb t t'
  | EOp o l r, EOp o' l' r' => Bool.eqb o o' && expr_eqb l l' && expr_eqb r r'
  | _, _ => false
  end.
Definition oexpr_eqb (a b : option expr) : bool :=
  match a, b with Some x, Some y => expr_eqb x y | None, None => true | _, _ => false end.
Definition concl_eqb (a b : conclusion) : bool :=
  Nat.eqb (c_var a) (c_var b) && list_eqb hx_eqb (c_hedges a) (c_hedges b) && Nat.eqb (c_term a) (c_term b).
Definition obj_eqb (o : @rule_obj) (x : option expr) (cs : list conclusion) : bool :=
  oexpr_eqb (ro_expression o) x && list_eqb concl_eqb (ro_conclusions o) cs.
(* one text: engine, text, (exception class, is_loaded, antecedent loaded, consequent loaded), loaded tree, conclusions *)
Definition c16_case : Type := (engine float * string * (option err * bool * bool * bool) * option expr * list conclusion)%type.
Definition c16_check (c : c16_case) : bool :=
  let '(e, text, (ex, l, a, q), x, cs) := c in
  let p := @create_gen float ascii_float_syntax code_has_F6 e text in
  let '(ex', l', a', q') := observe p in
  oerr_eqb ex ex' && Bool.eqb l l' && Bool.eqb a a' && Bool.eqb q q' && obj_eqb (fst p) x cs.
(* RuleBlock.load_rules: rules created from texts, loaded against eA (failures ignored), then block.load_rules(eB) *)
Definition c16_block_case : Type := (engine float * engine float * list string * option err * list (bool * bool))%type.
Definition c16_block_check (c : c16_block_case) : bool :=
  let '(eA, eB, texts, ex, flags) := c in
  let objs := map (fun t => fst (@create_gen float ascii_float_syntax code_has_F6 eA t)) texts in
  let '(objs', ex') := @load_rules float eB objs in
  oerr_eqb ex ex' &&
  list_eqb (fun (a b : bool * bool) => Bool.eqb (fst a) (fst b) && Bool.eqb (snd a) (snd b))
           (map (fun o => (antecedent_loaded o, consequent_loaded o)) objs') flags.
(* Rule.load again, against another engine, without unloading: rule created and loaded against eA, then rule.load(eB) *)
Definition c16_reload_case : Type := (engine float * engine float * string * (option err * bool * bool * bool))%type.
Definition c16_reload_check (c : c16_reload_case) : bool :=
  let '(eA, eB, text, (ex, l, a, q)) := c in
  let o := fst (@create_gen float ascii_float_syntax code_has_F6 eA text) in
  let '(ex', l', a', q') := observe (@rule_load float code_has_F6 eB o) in
  oerr_eqb ex ex' && Bool.eqb l l' && Bool.eqb a a' && Bool.eqb q q'.
(* the text setter on a loaded rule: rule created and loaded against e with text1, rule.parse(text2), rule.load(e).
   Rule.parse assigns only the texts and the weight (and nothing when it raises); the loaded trees stay until load. *)
Definition c16_reparse_case : Type := (engine float * string * string * (option err * bool * bool * bool))%type.
Definition c16_reparse_check (c : c16_reparse_case) : bool :=
  let '(e, text1, text2, (ex, l, a, q)) := c in
  let o := fst (@create_gen float ascii_float_syntax code_has_F6 e text1) in
  let p := match parse_text ascii_float_syntax text2 with
           | Err x => (o, Some x)
           | Ok rt => @rule_load float code_has_F6 e {| ro_text := rt; ro_expression := ro_expression o; ro_conclusions := ro_conclusions o |}
           end in
  let '(ex', l', a', q') := observe p in
  oerr_eqb ex ex' && Bool.eqb l l' && Bool.eqb a a' && Bool.eqb q q'.
(* float(token) *)
Definition c16_float_case : Type := (string * bool)%type.
Definition c16_float_check (c : c16_float_case) : bool := Bool.eqb (ascii_float_syntax (fst c)) (snd c).
"""


FLL_IMPORTS = r"""From VF Require Import Core RuleText.
From VF Require Fll.
Import ListNotations.
Local Open Scope string_scope.
Local Open Scope list_scope.
Definition c16_parse (s : string) : option string := if ascii_float_syntax s then Some s else None.
Definition c16_fll_import (lines : list string) := Fll.import_ c16_parse "nan" "inf" "-inf" "1.0" "0.0" lines.
(* expected: Some None = accepted; Some (Some cls) = rejected with cls by a modelled part of the importer;
   None = rejected while loading a rule or a Function formula (not modelled): the model must only not crash *)
Definition c16_fll_case : Type := (list string * option (option err))%type.
Definition c16_fll_check (c : c16_fll_case) : bool :=
  match c16_fll_import (fst c), snd c with
  | Err EInternal, _ => false
  | _, None => true
  | Ok _, Some None => true
  | Err x, Some (Some y) => err_eqb x y
  | _, _ => false
  end.
"""


# --------------------------------------------------------------------------- exception classes
def err_class(ex: BaseException) -> str:
    if isinstance(ex, (RecursionError, IndexError, TypeError, AttributeError)):
        return INTERNAL
    if isinstance(ex, SyntaxError):
        return "ESyntax"
    if isinstance(ex, LookupError):  # KeyError (IndexError handled above)
        return "ELookup"
    if isinstance(ex, ValueError):
        return "EValue"
    if isinstance(ex, RuntimeError):
        return "ERuntime"
    return INTERNAL


def where(ex: BaseException) -> str:
    tb = traceback.extract_tb(ex.__traceback__)
    for fr in reversed(tb):
        if "/fuzzylite/" in fr.filename:
            return f"{fr.filename.rsplit('/', 1)[-1]}:{fr.name}"
    return "?"


def unmodelled_by_fll(ex: BaseException) -> bool:
    """The exception comes from loading a rule against the engine or from a Function formula: not part of Model/Fll.v."""
    for fr in traceback.extract_tb(ex.__traceback__):
        f = fr.filename.rsplit("/", 1)[-1]
        if f == "rule.py" and fr.name == "load":
            return True
        if f == "term.py" and fr.name in ("parse", "infix_to_postfix", "format_infix", "load", "update_reference"):
            return True
    return False


# --------------------------------------------------------------------------- engines
def gen_world(rng, odd: bool):
    desc = enginelib.gen_engine(rng, "algebraic")
    desc["blocks"] = []
    if odd:
        for _ in range(rng.choice([1, 1, 2, 3])):
            k = rng.random()
            vs = desc["inputs"] + desc["outputs"]
            v = rng.choice(vs)
            if k < 0.35:
                v["name"] = rng.choice(ODD_NAMES)
            elif k < 0.75 and v["terms"]:
                rng.choice(v["terms"])["name"] = rng.choice(ODD_NAMES + [rng.choice(vs)["name"]])
            elif k < 0.85:
                v["terms"] = []
            elif k < 0.93 and v["terms"]:
                t = dict(rng.choice(v["terms"]))
                v["terms"].insert(rng.randrange(len(v["terms"]) + 1), t)
            else:
                v["name"] = rng.choice(vs)["name"]
    return desc


def world_names(desc):
    vs = [v["name"] for v in desc["inputs"] + desc["outputs"]]
    ts = [t["name"] for v in desc["inputs"] + desc["outputs"] for t in v["terms"]]
    return vs, ts


# --------------------------------------------------------------------------- valid rules (as token lists with roles)
def gen_weight(rng):
    return rng.choice(["0.5", "1.0", "0.25", "1", "1e-1", ".75", "0.300", "+0.5", "1E0", "nan", "inf", "0_1.5"])


def tokenize(text: str):
    return re.findall(r"\(|\)|[^\s()]+", text)


def gen_rule(rng, desc):
    """(tokens, n_antecedent_tokens) of a valid rule; tokens with parentheses as tokens of their own."""
    usable_in = [v for v in desc["inputs"] if v["terms"]]
    usable_out = [v for v in desc["outputs"] if v["terms"]]
    if not usable_in or not usable_out:
        return None
    ant = enginelib.gen_antecedent(rng, usable_in, usable_out, depth=rng.choice([0, 1, 1, 2, 2, 3]))
    cons = []
    for _ in range(rng.choice([1, 1, 2, 3])):
        o = rng.choice(usable_out)
        hs = [rng.choice(["very", "somewhat", "not", "extremely", "seldom"]) for _ in range(rng.choice([0, 0, 0, 1, 2]))]
        cons.append(f"{o['name']} is {' '.join(hs + [rng.choice(o['terms'])['name']])}")
    text = f"if {ant} then {' and '.join(cons)}"
    if rng.random() < 0.45:
        text += f" with {gen_weight(rng)}"
    return tokenize(text)


def spell(rng, toks):
    """Token list -> text: single blanks mostly; sometimes parentheses glued, odd blanks."""
    k = rng.random()
    if k < 0.7:
        return " ".join(toks)
    if k < 0.9:
        out = ""
        for i, t in enumerate(toks):
            if i and not (t == ")" or toks[i - 1] == "(") or (i and rng.random() < 0.3):
                out += " "
            out += t
        return out
    seps = [" ", "  ", "\t", "\n", " \r", "\x0b", "\x0c", "\x1c", "\x1f "]
    return rng.choice(["", " ", "\t"]) + "".join(t + rng.choice(seps) for t in toks)


def substitutes(rng, desc):
    vs, ts = world_names(desc)
    pool = rng.choice([KEYWORDS, KEYWORDS, vs or UNKNOWN, ts or UNKNOWN, HEDGES, UNKNOWN, NUMBERS, PUNCT, ["(", ")"]])
    return rng.choice(pool)


def mutate(rng, toks, desc):
    """(kind, tokens)"""
    n = len(toks)
    k = rng.random()
    i = rng.randrange(n)
    if k < 0.2:
        return "delete", toks[:i] + toks[i + 1:]
    if k < 0.32:
        return "duplicate", toks[:i + 1] + toks[i:]
    if k < 0.6:
        return "substitute", toks[:i] + [substitutes(rng, desc)] + toks[i + 1:]
    if k < 0.7:
        return "insert", toks[:i] + [substitutes(rng, desc)] + toks[i:]
    if k < 0.82:
        return "truncate", toks[:rng.randrange(n + 1)]
    if k < 0.92 and n > 1:
        j = rng.randrange(n - 1)
        return "swap", toks[:j] + [toks[j + 1], toks[j]] + toks[j + 2:]
    a, b = sorted([rng.randrange(n + 1), rng.randrange(n + 1)])
    return "delete-range", toks[:a] + toks[b:]


def proposition_spans(toks, lo, hi):
    """[(start, end)] of `v is h* t` runs among toks[lo:hi] (end exclusive), for a grammar-generated rule."""
    spans = []
    i = lo
    while i < hi:
        if toks[i] in ("(", ")", "and", "or"):
            i += 1
            continue
        j = i
        while j < hi and toks[j] not in ("(", ")", "and", "or"):
            j += 1
        spans.append((i, j))
        i = j
    return spans


def connective_positions(toks):
    """Positions of the `and` / `or` tokens of a grammar-generated rule (antecedent connectives and the consequent's `and`)."""
    iw = toks.index("with") if "with" in toks else len(toks)
    return [i for i in range(1, iw) if toks[i] in ("and", "or")]


def inject(rng, toks, desc, cls):
    """Exactly one error of class cls in a grammar-generated rule; None when the rule offers no place for it."""
    it = toks.index("then")
    iw = toks.index("with") if "with" in toks else len(toks)
    vs, ts = world_names(desc)
    fresh = next(u for u in UNKNOWN + ["qq_1"] if u not in vs and u not in ts)
    ant_spans = proposition_spans(toks, 1, it)
    con_spans = proposition_spans(toks, it + 1, iw)
    side = rng.choice(["ant", "ant", "con"])
    spans = ant_spans if side == "ant" else con_spans
    s, e = rng.choice(spans)
    if cls == "missing_if":
        return toks[1:]
    if cls == "missing_then":
        return toks[:it] + toks[it + 1:]
    if cls == "missing_is":
        return toks[:s + 1] + toks[s + 2:]
    if cls == "missing_variable":
        return toks[:s] + toks[s + 1:]
    if cls == "missing_term":
        if toks[e - 1] == "any":
            return None
        return toks[:e - 1] + toks[e:]
    if cls == "unknown_variable":
        return toks[:s] + [fresh] + toks[s + 1:]
    if cls == "unknown_term":
        if toks[e - 1] == "any":
            return None
        v = next(v for v in desc["inputs"] + desc["outputs"] if v["name"] == toks[s])
        others = [t for t in ts if t not in [x["name"] for x in v["terms"]]]
        return toks[:e - 1] + [rng.choice([fresh] + others[:3])] + toks[e:]
    if cls == "missing_operand":
        k = rng.random()
        ops = [i for i in range(1, iw) if toks[i] in ("and", "or") and i != it]
        if k < 0.4 or not ops:  # dangling connective at either end of the antecedent / after the consequent
            where_ = rng.choice(["ant-end", "ant-begin", "con-end"])
            if where_ == "ant-end":
                return toks[:it] + [rng.choice(["and", "or"])] + toks[it:]
            if where_ == "ant-begin":
                return toks[:1] + [rng.choice(["and", "or"])] + toks[1:]
            return toks[:iw] + ["and"] + toks[iw:]
        i = rng.choice(ops)  # remove the proposition on one side of a connective
        allspans = ant_spans + con_spans
        if k < 0.7:
            sp = next((sp for sp in allspans if sp[0] == i + 1), None)
        else:
            sp = next((sp for sp in allspans if sp[1] == i), None)
        if sp is None:  # the operand is parenthesised: double the connective instead
            return toks[:i] + [toks[i]] + toks[i:]
        return toks[:sp[0]] + toks[sp[1]:]
    if cls == "missing_connective":  # one `and` / `or` between two operands deleted (antecedent, or the `and` of the consequent)
        ops = connective_positions(toks)
        if not ops:
            return None
        i = rng.choice(ops)
        return toks[:i] + toks[i + 1:]
    if cls == "unbalanced_parenthesis":
        i = rng.randrange(1, it + 1)
        k = rng.random()
        parens = [j for j in range(1, it) if toks[j] in ("(", ")")]
        if k < 0.4 and parens:
            j = rng.choice(parens)
            return toks[:j] + toks[j + 1:]
        return toks[:i] + [rng.choice(["(", ")"])] + toks[i:]
    if cls == "non_numeric_weight":
        w = rng.choice(["abc", "1.0.0", "one", "1e", "0x1", "--1", "1__0", ".", "is", "with", "1,5"])
        return toks[:iw] + ["with", w]
    if cls == "trailing_token":
        extra = rng.choice(["x", "0.5", "and", "with", "then", "is", fresh, ")"])
        if iw == len(toks) and rng.random() < 0.5:
            return toks + [extra]
        base = toks if iw < len(toks) else toks + ["with", "0.5"]
        return base + [extra]
    raise AssertionError(cls)


# --------------------------------------------------------------------------- implementation
def clear_fuzzy(engine):
    for ov in engine.output_variables:
        ov.fuzzy.clear()


def run_rule(fl, engine, text):
    """Observation of Rule.create(text) + rule.load(engine): dict(exc, where, loaded, ante, cons, rule, ex)."""
    try:
        rule = fl.Rule.create(text)
    except BaseException as ex:  # noqa: BLE001
        return {"exc": err_class(ex), "cls": type(ex).__name__, "where": where(ex), "stage": "parse", "loaded": False, "ante": False, "cons": False, "rule": None, "msg": str(ex)}
    try:
        rule.load(engine)
    except BaseException as ex:  # noqa: BLE001
        return {"exc": err_class(ex), "cls": type(ex).__name__, "where": where(ex), "stage": "load", "loaded": bool(rule.is_loaded()),
                "ante": bool(rule.antecedent.is_loaded()), "cons": bool(rule.consequent.is_loaded()), "rule": rule, "msg": str(ex)}
    return {"exc": None, "cls": None, "where": "", "stage": "", "loaded": bool(rule.is_loaded()), "ante": bool(rule.antecedent.is_loaded()),
            "cons": bool(rule.consequent.is_loaded()), "rule": rule, "msg": ""}


def use_rule(fl, engine, rule):
    """An accepted rule must export and evaluate; returns None or a description of the exception."""
    try:
        s = str(rule)
        r = repr(rule)
        if not isinstance(s, str) or not isinstance(r, str):
            return "str/repr did not return text"
        with np.errstate(all="ignore"):
            rule.activate_with(fl.Minimum(), fl.Maximum())
            rule.trigger(fl.Minimum())
        rule.antecedent.postfix()
        rule.antecedent.infix()
        rule.antecedent.prefix()
    except BaseException as ex:  # noqa: BLE001
        return f"{type(ex).__name__} at {where(ex)}: {ex}"
    finally:
        clear_fuzzy(engine)
    return None


def obs_lit(fl, engine, o):
    exc = "None" if o["exc"] is None else f"(Some {o['exc']})"
    flags = f"({exc}, {str(o['loaded']).lower()}, {str(o['ante']).lower()}, {str(o['cons']).lower()})"
    rule = o["rule"]
    if rule is None or rule.antecedent.expression is None:
        x = "None"
    else:
        x = f"(Some {enginelib.lit_expr(fl, engine, rule.antecedent.expression)})"
    cs = []
    if rule is not None:
        for c in rule.consequent.conclusions:
            vi = next(i for i, ov in enumerate(engine.output_variables) if ov is c.variable)
            ti = next(i for i, t in enumerate(c.variable.terms) if t is c.term)
            cs.append(f"(Build_conclusion {vi} {vlib.coq_list(enginelib.lit_hedge(h.name) for h in c.hedges)} {ti})")
    return flags, x, vlib.coq_list(cs)


def shrink(fl, engine, text, pred):
    """Greedy token deletion while pred(observation) stays true."""
    toks = tokenize(text)
    changed = True
    while changed:
        changed = False
        for i in range(len(toks)):
            cand = toks[:i] + toks[i + 1:]
            if cand and pred(run_rule(fl, engine, " ".join(cand))):
                toks = cand
                changed = True
                break
    return " ".join(toks)


def is_f6(o):
    return o["cls"] == "TypeError" and o["where"] == "rule.py:load" and "unsupported operand" in o["msg"] and "&" in o["msg"]


# --------------------------------------------------------------------------- FLL stream
FLL_KEYS = ["Engine", "InputVariable", "OutputVariable", "RuleBlock", "description", "enabled", "range", "lock-range", "term", "aggregation",
            "defuzzifier", "default", "lock-previous", "conjunction", "disjunction", "implication", "activation", "rule", "key", ""]
FLL_WORDS = ["true", "false", "none", "nan", "inf", "-inf", "Triangle", "Ramp", "Discrete", "Function", "Linear", "Constant", "Gaussian", "Trapezoid",
             "Centroid", "WeightedAverage", "WeightedSum", "Bisector", "Minimum", "Maximum", "AlgebraicProduct", "General", "First", "Threshold",
             "Highest", "Proportional", "TakagiSugeno", "Tsukamoto", "Automatic", "Bogus", "1", "0.5", "-1.0", "1e3", "abc", "100", "0", "-3", "2.5",
             ">", "<=", "==", "(", ")", "+", "*", "x", ":", "#", "if", "then", "is", "and", "with", "any", "very"]


def fll_sources(fl, rng, n_generated):
    out = []
    import os

    for fn in sorted(glob.glob(os.path.join(os.path.dirname(fl.__file__), "examples", "**", "*.fll"), recursive=True)):
        out.append((fn.rsplit("/", 1)[-1], open(fn).read()))
    for k in range(n_generated):
        desc = enginelib.gen_engine(rng, "mixed", activations=("General", "First", "Last", "Highest", "Lowest", "Proportional", "Threshold"), weighted=True)
        for v in desc["outputs"]:  # the harness's lambda operators have no FLL syntax
            v["aggregation"] = "Maximum" if v["aggregation"] == "Sharp" else v["aggregation"]
        for b in desc["blocks"]:
            for key, sub in (("conjunction", "Minimum"), ("disjunction", "Maximum"), ("implication", "AlgebraicProduct")):
                b[key] = sub if b[key] == "Sharp" else b[key]
        out.append((f"gen{k}", str(enginelib.build_engine(fl, desc))))
    return out


def mutate_fll(rng, text):
    lines = text.split("\n")
    k = rng.random()
    nonempty = [i for i, ln in enumerate(lines) if ln.strip()]
    i = rng.choice(nonempty)
    if k < 0.1:
        return "line-delete", "\n".join(lines[:i] + lines[i + 1:])
    if k < 0.17:
        return "line-duplicate", "\n".join(lines[:i + 1] + lines[i:])
    if k < 0.25 and len(lines) > 1:
        j = rng.randrange(len(lines) - 1)
        return "line-swap", "\n".join(lines[:j] + [lines[j + 1], lines[j]] + lines[j + 2:])
    if k < 0.3:
        return "line-truncate", "\n".join(lines[:rng.randrange(len(lines) + 1)])
    if k < 0.35:
        return "line-move", "\n".join(lines[:i] + lines[i + 1:] + [lines[i]])
    # token level, in line i
    ln = lines[i]
    toks = re.findall(r"\s+|:|[^\s:]+", ln)
    idx = [j for j, t in enumerate(toks) if t.strip()]
    j = rng.choice(idx)
    if k < 0.5:
        kind, new = "token-delete", toks[:j] + toks[j + 1:]
    elif k < 0.58:
        kind, new = "token-duplicate", toks[:j + 1] + [" "] + toks[j:]
    elif k < 0.85:
        sub = rng.choice(FLL_KEYS) if (j == idx[0] and rng.random() < 0.5) else rng.choice(FLL_WORDS + (tokenize(ln) or ["x"]))
        kind, new = "token-substitute", toks[:j] + [sub] + toks[j + 1:]
    elif k < 0.93:
        kind, new = "token-truncate", toks[:j]
    else:
        kind, new = "token-insert", toks[:j] + [rng.choice(FLL_WORDS), " "] + toks[j:]
    return kind, "\n".join(lines[:i] + ["".join(new)] + lines[i + 1:])


def run_fll(fl, text):
    """('err', class, pyclass, where, msg) | ('ok', None | problem)"""
    try:
        engine = fl.FllImporter().from_string(text)
    except BaseException as ex:  # noqa: BLE001
        return ("err", err_class(ex), type(ex).__name__, where(ex), str(ex)[:200], unmodelled_by_fll(ex))
    try:
        e1 = str(engine)
    except BaseException as ex:  # noqa: BLE001
        return ("ok", f"accepted text cannot be exported: {type(ex).__name__} at {where(ex)}: {ex}", "fll:accepted-not-exportable")
    try:
        engine2 = fl.FllImporter().from_string(e1)
        e2 = str(engine2)
    except BaseException as ex:  # noqa: BLE001
        return ("ok", f"export of the accepted text is rejected: {type(ex).__name__} at {where(ex)}: {ex}", "fll:export-not-importable")
    if e2 != e1:
        d = next((f"{a!r} -> {b!r}" for a, b in zip(e1.split("\n"), e2.split("\n")) if a != b), "length")
        return ("ok", f"export is not a fixed point of import/export: {d}", "fll:not-a-fixed-point")
    return ("ok", None, None)


# --------------------------------------------------------------------------- the check
def run(ctx, build, verdict, ev):
    import fuzzylite as fl

    rng = ctx.rng
    n_texts = ctx.n(5000, 200000)
    per_engine = 100
    n_engines = max(1, n_texts // per_engine)
    dist = {"kind": {}, "outcome": {}, "engine": {"clean": 0, "odd": 0}, "injected": {c: {"texts": 0, "rejected": 0} for c in CLASSES},
            "internal_errors": {}}
    samples = []
    oracle_violations = 0
    nontrivial = set()
    f6_hits = 0
    f6_min = None
    batches = []  # (imports, groups, index)
    engines_lit, lits, index = [], [], []
    block_lits, block_index = [], []
    reload_lits, reload_index = [], []
    reparse_lits, reparse_index = [], []
    n_reload = n_reparse = 0
    float_tokens = set(NUMBERS + ["0.5", "1.0", "1e5", "nan", "inf"])
    accepted = rejected = 0
    sig_count: dict[str, int] = {}
    real_add = verdict.add_violation

    def add_once(signature, what, replay):
        # one concrete input per structural signature; the others are only counted (evidence: violation_signatures)
        sig_count[signature] = sig_count.get(signature, 0) + 1
        if sig_count[signature] == 1:
            real_add(signature, what, replay)

    def flush():
        nonlocal engines_lit, lits, index, block_lits, block_index, reload_lits, reload_index, reparse_lits, reparse_index
        if lits or block_lits:
            imports = IMPORTS_HEAD + "\n".join(f"Definition eng_{k} : engine float := {lit}." for k, lit in enumerate(engines_lit)) + "\n"
            batches.append((imports, lits, index, block_lits, block_index, reload_lits, reload_index, reparse_lits, reparse_index))
        engines_lit, lits, index, block_lits, block_index, reload_lits, reload_index = [], [], [], [], [], [], []
        reparse_lits, reparse_index = [], []

    prev = None  # (engine name in batch, real engine) of the previous world, for the load_rules cases
    for eno in range(n_engines):
        odd = rng.random() < 0.2
        desc = gen_world(rng, odd)
        engine = enginelib.build_engine(fl, desc)
        ek = len(engines_lit)
        engines_lit.append(enginelib.lit_engine(fl, desc, engine))
        dist["engine"]["odd" if odd else "clean"] += 1
        parsed_texts = []
        accepted_texts, all_texts = [], []
        base = None
        pending = []
        for tno in range(per_engine):
            if base is None or tno % 10 == 0:
                base = gen_rule(rng, desc) or tokenize("if in0 is t00 then out0 is o00")
                # every connective position of the new base rule (clean engines): the keyword `and` / `or` missing
                pending = [] if odd or "then" not in base else [base[:i] + base[i + 1:] for i in connective_positions(base)][:6]
            r = rng.random()
            cls = None
            if tno in (1, 2) and not odd and "then" in base:  # the two shapes of finding F6: an antecedent ending in `is` / in a hedge
                it = base.index("then")
                sp = proposition_spans(base, 1, it)[-1]
                kind = "probe:ends-in-is" if tno == 1 else "probe:ends-in-hedge"
                toks = base[:sp[0] + 2] + ([] if tno == 1 else [rng.choice(["very", "not", "somewhat"])]) + [")"] * base[sp[1]:it].count(")") + base[it:]
            elif pending and tno % 10 >= 3:
                cls, kind, toks = "missing_connective", "inject:missing_connective", pending.pop()
            elif r < 0.06:
                kind, toks = "valid", list(base)
            elif r < 0.30:
                cls = CLASSES[(tno + eno) % len(CLASSES)]
                toks = inject(rng, base, desc, cls) if not odd and "then" in base else None
                if toks is None:
                    cls = None
                    kind, toks = mutate(rng, base, desc)
                else:
                    kind = "inject:" + cls
            else:
                kind, toks = mutate(rng, base, desc)
                if rng.random() < 0.15 and toks:
                    k2, toks = mutate(rng, toks, desc)
                    kind = kind + "+" + k2
            text = spell(rng, toks) if kind == "valid" or (rng.random() < 0.5 and not kind.startswith("probe")) else " ".join(toks)
            if rng.random() < 0.03:
                cut = rng.randrange(len(text) + 1)
                text = text[:cut] + "#" + text[cut:]
                kind += "+comment"
                cls = None  # no longer "exactly one injected error"
            o = run_rule(fl, engine, text)
            for t in text.split("#")[0].split():
                float_tokens.add(t)
            # the same through Rule.create(text, engine)
            try:
                fl.Rule.create(text, engine)
                both = None
            except BaseException as ex:  # noqa: BLE001
                both = err_class(ex)
            if both != o["exc"]:
                verdict.add_broken("harness", "create-vs-parse+load", f"Rule.create(text, engine) gives {both}, parse+load gives {o['exc']} on {text!r}")
            replay = {"kind": "rule", "engine": desc, "text": text, "mutation": kind}
            # ---- direct oracle
            if o["exc"] == INTERNAL:
                key = f"{o['cls']}@{o['where']}"
                dist["internal_errors"][key] = dist["internal_errors"].get(key, 0) + 1
                if is_f6(o):
                    f6_hits += 1
                    if f6_min is None or len(text) < len(f6_min[0]):
                        f6_min = (text, desc, engine)
                else:
                    small = shrink(fl, engine, text, lambda q, c=o["cls"], w=o["where"]: q["cls"] == c and q["where"] == w)
                    add_once(f"rule:internal-error:{key}", f"rule text {small!r} raises {o['cls']} ({o['msg'][:120]}) at {o['where']} instead of a clean rejection",
                                          {**replay, "text": small, "original_text": text})
                    oracle_violations += 1
            if o["exc"] is not None and o["loaded"]:
                add_once("rule:loaded-after-failed-load", f"rule {text!r} failed to load ({o['cls']}) but is_loaded() is True", replay)
                oracle_violations += 1
            if o["exc"] is None:
                accepted += 1
                problem = use_rule(fl, engine, o["rule"]) if o["loaded"] else "is_loaded() is False after a successful load"
                if problem:
                    add_once("rule:accepted-not-usable", f"accepted rule {text!r} cannot be exported/evaluated: {problem}", replay)
                    oracle_violations += 1
                if cls is not None:
                    add_once(f"rule:accepted-malformed:{cls}", f"rule {text!r} with one injected error ({cls}) is accepted", replay)
                    oracle_violations += 1
                parsed_texts.append(text)
                accepted_texts.append(text)
            else:
                rejected += 1
                if o["stage"] == "load":
                    parsed_texts.append(text)
            if cls is not None:
                dist["injected"][cls]["texts"] += 1
                dist["injected"][cls]["rejected"] += o["exc"] is not None
            all_texts.append(text)
            # ---- correspondence case
            flags, x, cs = obs_lit(fl, engine, o)
            lits.append(f"(eng_{ek}, {vlib.coq_string(text)}, {flags}, {x}, {cs})")
            index.append({"text": text, "impl": {k: o[k] for k in ("exc", "cls", "where", "stage", "loaded", "ante", "cons")}, "replay": replay})
            kk = kind.split("+")[0]
            dist["kind"][kk] = dist["kind"].get(kk, 0) + 1
            oc = "accepted" if o["exc"] is None else f"{o['stage']}:{o['cls']}" + ("" if not o["ante"] else "(antecedent stays loaded)")
            dist["outcome"][oc] = dist["outcome"].get(oc, 0) + 1
            if kind != "valid":
                nontrivial.add(text)
            if len(samples) < 8 and (tno + eno) % 97 == 3:
                samples.append({"text": text, "mutation": kind, "implementation": index[-1]["impl"]})
        # ---- the text setter on a loaded rule: valid rule loaded, re-parsed with another text of this engine's stream, loaded again
        if accepted_texts and all_texts:
            for _ in range(12):
                t1 = rng.choice(accepted_texts)
                t2 = rng.choice(all_texts)
                rr = fl.Rule.create(t1, engine)
                stage = "parse"
                try:
                    rr.parse(t2)
                    stage = "load"
                    rr.load(engine)
                    rex = None
                except BaseException as ex:  # noqa: BLE001
                    rex = err_class(ex)
                    rp = {"kind": "reparse", "engine": desc, "text": t1, "text2": t2}
                    if rex == INTERNAL:
                        add_once(f"rule:internal-error:reparse:{type(ex).__name__}@{where(ex)}", f"rule {t1!r} re-parsed with {t2!r}: {stage} raises {type(ex).__name__}: {ex}", rp)
                        oracle_violations += 1
                    if stage == "load" and rr.is_loaded():
                        add_once("rule:loaded-after-failed-load", f"loaded rule {t1!r}, text set to {t2!r}: load fails ({type(ex).__name__}: {str(ex)[:80]}) but is_loaded() stays True", rp)
                        oracle_violations += 1
                if rex is None:
                    problem = use_rule(fl, engine, rr) if rr.is_loaded() else "is_loaded() is False after a successful load"
                    if problem:
                        add_once("rule:accepted-not-usable", f"rule {t1!r} re-parsed with {t2!r} cannot be exported/evaluated: {problem}", {"kind": "reparse", "engine": desc, "text": t1, "text2": t2})
                        oracle_violations += 1
                rexl = "None" if rex is None else f"(Some {rex})"
                reparse_lits.append(f"(eng_{ek}, {vlib.coq_string(t1)}, {vlib.coq_string(t2)}, ({rexl}, {str(bool(rr.is_loaded())).lower()}, "
                                    f"{str(bool(rr.antecedent.is_loaded())).lower()}, {str(bool(rr.consequent.is_loaded())).lower()}))")
                reparse_index.append({"text": t1, "text2": t2, "exc": rex, "stage": stage})
                n_reparse += 1
        # ---- RuleBlock.load_rules: rules first loaded against this engine, then the block loaded against the previous engine
        if prev is not None and parsed_texts:
            pk, pengine, pdesc = prev
            for _ in range(2):
                texts = [rng.choice(parsed_texts) for _ in range(rng.choice([1, 2, 3, 5]))]
                rules = [fl.Rule.create(t) for t in texts]
                for rr in rules:
                    try:
                        rr.load(engine)
                    except BaseException:  # noqa: BLE001
                        pass
                target_k, target = (pk, pengine) if rng.random() < 0.6 else (ek, engine)
                block = fl.RuleBlock(rules=rules)
                try:
                    block.load_rules(target)
                    bex = None
                except BaseException as ex:  # noqa: BLE001
                    bex = err_class(ex)
                    if bex != "ERuntime":
                        add_once(f"ruleblock:load_rules:{type(ex).__name__}", f"RuleBlock.load_rules raised {type(ex).__name__} on {texts}", {"kind": "block", "engine": desc, "texts": texts})
                        oracle_violations += 1
                for rr in rules:
                    if bex is not None and rr.is_loaded() and False:
                        pass
                flags = vlib.coq_list(f"({str(bool(rr.antecedent.is_loaded())).lower()}, {str(bool(rr.consequent.is_loaded())).lower()})" for rr in rules)
                bexl = "None" if bex is None else f"(Some {bex})"
                block_lits.append(f"(eng_{ek}, eng_{target_k}, {vlib.coq_list(vlib.coq_string(t) for t in texts)}, {bexl}, {flags})")
                block_index.append({"texts": texts, "exc": bex})
            # ---- Rule.load a second time, against the previous engine, without unload
            for t in [rng.choice(parsed_texts) for _ in range(6)]:
                rr = fl.Rule.create(t)
                try:
                    rr.load(engine)
                except BaseException:  # noqa: BLE001
                    pass
                try:
                    rr.load(pengine)
                    rex = None
                except BaseException as ex:  # noqa: BLE001
                    rex = err_class(ex)
                    if rex == INTERNAL:
                        add_once(f"rule:internal-error:reload:{type(ex).__name__}@{where(ex)}", f"reloading {t!r} against another engine raises {type(ex).__name__}: {ex}",
                                              {"kind": "reload", "engine": desc, "engine2": pdesc, "text": t})
                        oracle_violations += 1
                    if rr.is_loaded():
                        add_once("rule:loaded-after-failed-load", f"rule {t!r}, loaded against one engine, fails to load against another ({type(ex).__name__}) but is_loaded() stays True",
                                              {"kind": "reload", "engine": desc, "engine2": pdesc, "text": t})
                        oracle_violations += 1
                if rex is None:
                    problem = use_rule(fl, pengine, rr) if rr.is_loaded() else "is_loaded() is False after a successful load"
                    if problem:
                        add_once("rule:accepted-not-usable", f"rule {t!r} reloaded against another engine cannot be exported/evaluated: {problem}",
                                              {"kind": "reload", "engine": desc, "engine2": pdesc, "text": t})
                        oracle_violations += 1
                rexl = "None" if rex is None else f"(Some {rex})"
                reload_lits.append(f"(eng_{ek}, eng_{pk}, {vlib.coq_string(t)}, ({rexl}, {str(bool(rr.is_loaded())).lower()}, "
                                   f"{str(bool(rr.antecedent.is_loaded())).lower()}, {str(bool(rr.consequent.is_loaded())).lower()}))")
                reload_index.append({"text": t, "exc": rex})
                n_reload += 1
        prev = (ek, engine, desc)
        if len(engines_lit) >= ctx.n(25, 80):
            flush()
            prev = None
    flush()

    # ---- F6 (repaired in /repo: must not fire any more)
    f6_reported = False
    if f6_hits:
        text, desc, engine = f6_min
        small = shrink(fl, engine, text, is_f6)
        vin = next((v for v in desc["inputs"] if v["terms"]), None)
        vout = next((v for v in desc["outputs"] if v["terms"]), None)
        if vin and vout:  # the canonical minimal rule: valid but for the missing term
            canonical = f"if {vin['name']} is then {vout['name']} is {vout['terms'][0]['name']}"
            if is_f6(run_rule(fl, engine, canonical)):
                small = canonical
        add_once("antecedent:final-state-typeerror",
                              f"rule text {small!r} (an antecedent ending in `is` or in a hedge) raises TypeError: unsupported operand type(s) for &: 'collections.deque' and 'int' "
                              f"(rule.py Antecedent.load, final-state check `stack & (s_hedge | s_term)`) instead of SyntaxError; {f6_hits} texts of this run hit it",
                              {"kind": "rule", "engine": desc, "text": small, "original_text": text})
        oracle_violations += 1
        f6_reported = True

    # ---- float tokens
    float_lits, float_index = [], []
    for t in sorted(float_tokens):
        if not t.isascii() or not t:
            continue
        try:
            float(t)
            okf = True
        except ValueError:
            okf = False
        float_lits.append(f"({vlib.coq_string(t)}, {str(okf).lower()})")
        float_index.append(t)

    # ---- Coq evaluation of the model
    mism, block_mism, float_mism = [], [], []
    coq_failed = False
    if not build.translation_errors:
        for bno, (imports, lits_b, index_b, bl, bi, rl, ri, pl, pi) in enumerate(batches):
            groups = [("c16_case", "c16_check", lits_b), ("c16_block_case", "c16_block_check", bl + []), ("c16_reload_case", "c16_reload_check", rl),
                      ("c16_reparse_case", "c16_reparse_check", pl)]
            bi = bi + ri + pi
            if bno == 0:
                groups.append(("c16_float_case", "c16_float_check", float_lits))
            bad, log = vlib.run_coq_cases(ctx.work, f"c16_{bno}", imports, groups, chunk=500)
            for i in bad:
                if i < 0:
                    if not coq_failed:
                        verdict.add_broken("correspondence", "C16:coq-evaluation", log)
                    coq_failed = True
                    break
                if i < len(index_b):
                    mism.append(index_b[i])
                elif i < len(index_b) + len(bi):
                    block_mism.append(bi[i - len(index_b)])
                else:
                    float_mism.append(float_index[i - len(index_b) - len(bi)])
    if mism:
        m = mism[0]
        verdict.add_broken("correspondence", "C16:rule-text-model", f"Model/RuleText.v and Rule.create/load differ on {len(mism)} texts; first: {m['text']!r}: implementation {m['impl']}; replay: {m['replay']}")
    if block_mism:
        what = ("Rule.parse + Rule.load on a loaded rule" if "text2" in block_mism[0] else "Rule.load on an already loaded rule (rule_load)") if "text" in block_mism[0] else "RuleBlock.load_rules (load_rules)"
        verdict.add_broken("correspondence", "C16:reload-model", f"{what} and the model differ on {len(block_mism)} block/reload cases; first: {block_mism[0]}")
    if float_mism:
        verdict.add_broken("correspondence", "C16:float-syntax", f"float(token) and ascii_float_syntax differ on {float_mism[:10]}")

    # ---- FLL stream (direct oracle)
    n_fll = ctx.n(1500, 20000)
    sources = fll_sources(fl, rng, ctx.n(12, 60))
    fll_dist = {"kind": {}, "outcome": {}, "internal_errors": {}}
    fll_reported = set()
    base_ok = 0
    for name, text in sources:  # the unmutated documents must be accepted and be fixed points after one round
        res = run_fll(fl, text)
        if res[0] == "ok" and res[1] is None:
            base_ok += 1
        elif res[0] == "ok":
            if res[2] not in fll_reported:
                fll_reported.add(res[2])
                add_once(res[2], f"unmutated document {name}: {res[1]}", {"kind": "fll", "text": text, "source": name})
                oracle_violations += 1
        else:
            verdict.add_broken("harness", "fll-source", f"unmutated document {name} is rejected: {res}")
    fll_lits, fll_index = [], []

    fll_cap = ctx.n(400, 4000)

    def fll_case(name, kind, mtext, res):
        # string literals are expensive for coqc (memory): small documents only, a capped number of them
        if not mtext.isascii() or len(mtext) > 2500 or len(fll_lits) >= fll_cap:
            return
        if res[0] == "ok":
            exp = "(Some None)"
        elif res[5]:
            exp = "None"
        else:
            exp = f"(Some (Some {res[1]}))"
        fll_lits.append(f"({vlib.coq_list(vlib.coq_string(ln) for ln in mtext.split(chr(10)))}, {exp})")
        fll_index.append({"source": name, "mutation": kind, "text": mtext, "impl": res[:5] if res[0] == "err" else "accepted"})

    for name, text in sources:
        fll_case(name, "unmutated", text, ("ok", None, None))
    for k in range(n_fll):
        name, text = rng.choice(sources)
        kind, mtext = mutate_fll(rng, text)
        if rng.random() < 0.1:
            k2, mtext = mutate_fll(rng, mtext) if mtext.strip() else (kind, mtext)
        res = run_fll(fl, mtext)
        fll_case(name, kind, mtext, res)
        fll_dist["kind"][kind] = fll_dist["kind"].get(kind, 0) + 1
        if res[0] == "err":
            oc = f"rejected:{res[2]}" + (" (rule loading / Function formula)" if res[5] else "")
            if res[1] == INTERNAL:
                key = f"{res[2]}@{res[3]}"
                fll_dist["internal_errors"][key] = fll_dist["internal_errors"].get(key, 0) + 1
                is6 = res[2] == "TypeError" and res[3] == "rule.py:load" and "&" in res[4]
                sig = "antecedent:final-state-typeerror" if is6 else f"fll:internal-error:{key}"
                f6_hits += is6
                if sig not in fll_reported and not (is6 and f6_reported):
                    fll_reported.add(sig)
                    small = shrink_fll(fl, mtext, res[2], res[3])
                    add_once(sig, f"FLL text raises {res[2]} at {res[3]} ({res[4][:120]}) instead of a clean rejection; minimal document: {small!r}",
                                          {"kind": "fll", "text": small, "source": name, "mutation": kind})
                    oracle_violations += 1
        else:
            oc = "accepted"
            if res[1] is not None and res[2] not in fll_reported:
                fll_reported.add(res[2])
                add_once(res[2], f"mutated document ({name}, {kind}): {res[1]}", {"kind": "fll", "text": mtext, "source": name, "mutation": kind})
                oracle_violations += 1
        fll_dist["outcome"][oc] = fll_dist["outcome"].get(oc, 0) + 1
    fll_mism = []
    if not build.translation_errors and fll_lits:
        bad, log = vlib.run_coq_cases(ctx.work, "c16_fll", FLL_IMPORTS, [("c16_fll_case", "c16_fll_check", fll_lits)], chunk=40)
        for i in bad:
            if i < 0:
                if not coq_failed:
                    verdict.add_broken("correspondence", "C16:coq-evaluation", log)
                coq_failed = True
                break
            fll_mism.append(fll_index[i])
    if fll_mism:
        m = fll_mism[0]
        verdict.add_broken("correspondence", "C16:fll-import-model", f"Model/Fll.v import_ and FllImporter.from_string differ on {len(fll_mism)} of {len(fll_lits)} documents; first "
                           f"({m['source']}, {m['mutation']}): implementation {m['impl']}; document:\n{m['text'][:1500]}")

    c = ev["coverage"]
    n_rule_cases = sum(len(b[1]) for b in batches)
    n_block_cases = sum(len(b[3]) for b in batches)
    c["evaluations"] = n_rule_cases + n_block_cases + n_reload + n_reparse + len(float_lits) + n_fll + len(sources)
    c["rule_reloads"] = n_reload
    c["rule_reparses"] = n_reparse
    c["rule_texts"] = n_rule_cases
    c["rule_blocks"] = n_block_cases
    c["float_tokens"] = len(float_lits)
    c["fll_documents"] = {"sources": len(sources), "sources_accepted_and_fixed_point": base_ok, "mutated": n_fll, **fll_dist}
    c["distinct_nontrivial"] = len(nontrivial)
    c["rule"] = ("random engines (enginelib.gen_engine; 20% with colliding/odd names, a variable without terms, duplicated names) x valid grammar rules "
                 "(depth 0-3 antecedents with parentheses, hedges, any, output variables; 1-3 conclusions; weights in many float spellings) x "
                 "token deletion/duplication/substitution/insertion/truncation/swap/range deletion, glued parentheses, odd blanks, comments, "
                 "and one injected error of each of the 12 classes (the 11 listed + missing connective, swept over every connective position); non-trivial = distinct mutated (not valid) texts")
    c["distribution"] = dist
    c["accepted"] = accepted
    c["rejected"] = rejected
    c["F6_hits"] = f6_hits
    c["fll_model_cases"] = len(fll_lits)
    c["correspondence_mismatches"] = len(mism) + len(block_mism) + len(float_mism) + len(fll_mism)
    c["oracle_violations"] = oracle_violations
    c["violation_signatures"] = sig_count
    c["samples"] = samples
    ev["assumptions"] += [
        "rule and FLL text is ASCII (Python's str.split()/\\s also treat some non-ASCII characters as blanks; float() also accepts non-ASCII digits)",
        "float(token) is modelled by the decidable class ascii_float_syntax (checked against float() on every token of the run); the theorems take is_float as a parameter",
        "rejection theorems for the antecedent/consequent classes assume an engine whose variable names, term names, hedge names and keywords are pairwise distinct classes (names_distinct); the direct oracle checks the injected classes on such engines",
        "Model/Fll.v does not model rule loading nor Function formulas: documents the implementation rejects there are only checked by the direct oracle (and for the model not crashing); int() with '_' separators is not modelled",
        "Rule.deactivate() (activation_degree, triggered) is not part of the rule-text model",
    ]


def shrink_fll(fl, text, cls, where_):
    lines = text.split("\n")
    changed = True
    while changed:
        changed = False
        for i in range(len(lines)):
            cand = lines[:i] + lines[i + 1:]
            res = run_fll(fl, "\n".join(cand))
            if res[0] == "err" and res[2] == cls and res[3] == where_:
                lines = cand
                changed = True
                break
    return "\n".join(lines)


def replay(ctx, data):
    import fuzzylite as fl

    for v in data.get("violations", []):
        print(v["signature"], "—", v["what"])
        r = v["replay"]
        if r.get("kind") == "rule":
            engine = enginelib.build_engine(fl, r["engine"])
            o = run_rule(fl, engine, r["text"])
            print("  engine variables:", [(x["name"], [t["name"] for t in x["terms"]]) for x in r["engine"]["inputs"] + r["engine"]["outputs"]])
            print("  text:", repr(r["text"]))
            print("  now:", {k: o[k] for k in ("exc", "cls", "where", "stage", "loaded", "ante", "cons", "msg")})
        elif r.get("kind") == "fll":
            print("  document:\n" + r["text"])
            print("  now:", run_fll(fl, r["text"]))
        elif r.get("kind") == "block":
            print("  texts:", r["texts"])
        elif r.get("kind") == "reparse":
            eng = enginelib.build_engine(fl, r["engine"])
            rr = fl.Rule.create(r["text"], eng)
            print("  loaded with", repr(r["text"]), "is_loaded:", rr.is_loaded())
            try:
                rr.parse(r["text2"])
                rr.load(eng)
                out = "ok"
            except BaseException as ex:  # noqa: BLE001
                out = f"{type(ex).__name__}: {ex}"
            print("  text set to", repr(r["text2"]), "-> load:", out, " is_loaded:", rr.is_loaded())
        elif r.get("kind") == "reload":
            e1, e2 = enginelib.build_engine(fl, r["engine"]), enginelib.build_engine(fl, r["engine2"])
            rr = fl.Rule.create(r["text"])
            for eng in (e1, e2):
                try:
                    rr.load(eng)
                    out = "ok"
                except BaseException as ex:  # noqa: BLE001
                    out = f"{type(ex).__name__}: {ex}"
                print("  load:", out, " is_loaded:", rr.is_loaded())
    for b in data.get("broken", []):
        print("BROKEN", b["kind"], b["name"], "\n", b["detail"][:3000])
    return 0
