"""C01 — engine output equals the documented inference pipeline (scalar mode)."""
from __future__ import annotations

import math

import numpy as np

import enginelib as E
import pipeline_oracle
import vlib

COQ_TARGETS = ["Model/Engine.vo", "Model/EngineF.vo", "Model/Observe.vo", "Proofs/EngineProofs.vo", "Proofs/EngineFProofs.vo", "Proofs/EngineAllProofs.vo"]
ALL_ACTIVATIONS = ("General", "General", "General", "First", "Last", "Highest", "Lowest", "Proportional", "Threshold")
IMPORTS = "From VF Require Import GenNorm GenHedge GenTerm Core Engine EngineF Observe."
CHECKER = ("fun c => let '(e, expected, tbl) := c in "
           "result_obs_eqb (@process_f float (NumF true tbl) (fun _ _ _ => None) e) expected")
CASE_TYPE = "engine float * (obs + nat) * oracle"


def err_code(ex):
    if isinstance(ex, SyntaxError):
        return 1
    if isinstance(ex, ValueError):
        return 2
    if isinstance(ex, (KeyError, LookupError)) and not isinstance(ex, IndexError):
        return 3
    if isinstance(ex, RuntimeError):
        return 4
    return 5


def last(x):
    return float(np.asarray(x, dtype=float).ravel()[-1])


def observe_lit(engine):
    vals = vlib.coq_list(f"({vlib.fhex(last(ov.value))}, {vlib.fhex(last(ov.previous_value))})" for ov in engine.output_variables)
    fz = vlib.coq_list(vlib.coq_list(f"({vlib.coq_string(a.term.name)}, {vlib.fhex(last(a.degree))})" for a in ov.fuzzy.terms) for ov in engine.output_variables)
    rl = vlib.coq_list(vlib.coq_list(f"({vlib.fhex(last(r.activation_degree))}, {str(bool(np.asarray(r.triggered).ravel()[-1])).lower()})" for r in rb.rules) for rb in engine.rule_blocks)
    return f"(inl ({vals}, {fz}, {rl}))"


def close(a, b, scale=1.0):
    if a != a and b != b:
        return True
    if a != a or b != b:
        return False
    if math.isinf(a) or math.isinf(b):
        return a == b
    return abs(a - b) <= 1e-9 * max(1.0, abs(a), abs(b), scale)


def run_cases(ctx, verdict, fl, n_engines, n_rows, profiles, activations, weighted, seedtag=""):
    lits, index = [], []
    stats = {"engines": 0, "rows": 0, "raised": 0, "oracle_checked": 0, "oracle_skipped": 0, "nontrivial": 0, "nan_outputs": 0, "by_profile": {}, "by_activation": {}, "error_classes": {}}
    nviol = 0
    distinct = set()
    for k in range(n_engines):
        profile = ctx.rng.choice(profiles)
        desc = E.gen_engine(ctx.rng, profile=profile, activations=activations, weighted=weighted, refs=True)
        engine = E.build_engine(fl, desc)
        stats["engines"] += 1
        stats["by_profile"][profile] = stats["by_profile"].get(profile, 0) + 1
        for b in desc["blocks"]:
            stats["by_activation"][b["activation"][0]] = stats["by_activation"].get(b["activation"][0], 0) + 1
        for _ in range(n_rows):
            row = E.gen_row(ctx.rng, desc)
            for iv, x in zip(engine.input_variables, row):
                iv.value = x
            pre = E.lit_engine(fl, desc, engine)
            # independent statement of the pipeline, on the state before the call
            try:
                want, _ = pipeline_oracle.pipeline(fl, engine, leak=False)
                want_leak, _ = pipeline_oracle.pipeline(fl, engine, leak=True)
            except Exception:  # the oracle does not cover this case (e.g. a configuration that raises)
                want = want_leak = None
            raised = None
            fll_before = str(engine)
            with vlib.patch_observed():
                vlib.RECORDER.reset()
                try:
                    with np.errstate(all="ignore"):
                        engine.process()
                except Exception as ex:  # noqa
                    raised = ex
                tbl = vlib.RECORDER.take()
            stats["rows"] += 1
            if str(engine) != fll_before:
                verdict.add_violation("pipeline:process-changes-configuration", "Engine.process() changed the engine's configuration (its FuzzyLite Language text differs before and after)",
                                      {"engine_fll": fll_before, "after": str(engine), "inputs": row})
                nviol += 1
            if raised is not None:
                stats["raised"] += 1
                stats["error_classes"][type(raised).__name__] = stats["error_classes"].get(type(raised).__name__, 0) + 1
                expected = f"(inr {err_code(raised)})"
                for ov in engine.output_variables:  # leave a clean state for the next row
                    ov.clear()
            else:
                expected = observe_lit(engine)
                got = [last(ov.value) for ov in engine.output_variables]
                fired = any(bool(np.asarray(r.triggered).any()) for rb in engine.rule_blocks for r in rb.rules)
                if fired and any(g == g for g in got):
                    stats["nontrivial"] += 1
                    distinct.add((k, tuple(vlib.fkey(x) for x in row)))
                if any(g != g for g in got):
                    stats["nan_outputs"] += 1
                if want is None:
                    stats["oracle_skipped"] += 1
                else:
                    stats["oracle_checked"] += 1
                    scales = [abs(v["max"] - v["min"]) for v in desc["outputs"]]
                    if not all(close(g, w, s) for g, w, s in zip(got, want, scales)):
                        replay = {"engine_fll": str(engine), "inputs": row, "got": got, "documented_pipeline": want}
                        if all(close(g, w, s) for g, w, s in zip(got, want_leak, scales)):
                            verdict.add_violation("pipeline:hedged-consequent-leak", f"Engine.process outputs {got} differ from the documented pipeline {want} (a hedged conclusion leaks its degree into the next conclusion)", replay)
                        else:
                            verdict.add_violation("pipeline:output", f"Engine.process outputs {got} differ from the documented pipeline {want} for inputs {row}", replay)
                        nviol += 1
            if len(tbl) > 6000:
                continue  # keep literals small; huge transcendental tables are covered in thorough runs with smaller resolutions
            lits.append(f"({pre}, {expected}, {vlib.oracle_lit(tbl)})")
            index.append({"engine": k, "profile": profile, "inputs": row, "raised": type(raised).__name__ if raised else None, "fll": None})
    return lits, index, stats, nviol, len(distinct)


def run(ctx, build, verdict, ev):
    import fuzzylite as fl

    lits, index, stats, nviol, distinct = run_cases(
        ctx, verdict, fl, n_engines=ctx.n(400, 6000), n_rows=ctx.n(5, 10),
        profiles=["algebraic", "algebraic", "mixed"], activations=ALL_ACTIVATIONS, weighted=True)
    bad, log = ([], "") if build.translation_errors else vlib.run_coq_cases(ctx.work, "c01", IMPORTS, [(CASE_TYPE, CHECKER, lits)], chunk=ctx.n(60, 100))
    mism = []
    for i in bad:
        if i < 0:
            verdict.add_broken("correspondence", "C01:coq-evaluation", log)
            break
        mism.append(index[i])
    if mism:
        verdict.add_broken("correspondence", "Engine.process (scalar mode)", f"model and implementation differ on {len(mism)} of {len(index)} cases, first: {mism[:3]}")
    c = ev["coverage"]
    c["evaluations"] = stats["rows"]
    c["distinct_nontrivial"] = distinct
    c["rule"] = ("random engines (1-3 inputs, 1-2 outputs, 1-2 blocks, 1-6 rules, nested and/or antecedents with 0-3 hedges and `any`, output variables in antecedents, 1-2 conclusions with hedges, "
                 "weights in {1,.75,.5,.3,0}, every enabled flag, all 7 activation methods, all norms or the non-commutative lambda operators, integral defuzzifiers with resolution 1-64 and weighted defuzzifiers) x "
                 "rows (interior, range bounds, term break-points and float neighbours, out of range, +-inf, NaN); compared: output value, previous value, every fuzzy-output term and degree, every rule's degree and triggered flag, or the exception class; "
                 "non-trivial = distinct (engine,row) where a rule fired and an output is not NaN")
    c["distribution"] = stats
    c["correspondence_mismatches"] = len(mism)
    c["oracle_violations"] = nviol
    c["samples"] = index[:: max(1, len(index) // 5)][:5]
    ev["assumptions"] += ["rule trees in the model are the trees the implementation loaded (parsing is C06's subject)",
                          "Python value kinds (float / numpy.float64 / 0-d array) are not modelled",
                          "Linear terms and Function terms over + - * / are generated in weighted outputs and evaluated by the formula model; transcendental formula functions are C17's subject"]


def replay(ctx, data):
    import fuzzylite as fl

    for v in data.get("violations", []):
        print(v["what"])
        r = v["replay"]
        if "engine_fll" in r:
            e = fl.FllImporter().from_string(r["engine_fll"])
            for iv, x in zip(e.input_variables, r["inputs"]):
                iv.value = x
            e.process()
            print("  now:", [last(ov.value) for ov in e.output_variables], " documented:", r.get("documented_pipeline"))
    for b in data.get("broken", []):
        print("BROKEN", b["kind"], b["name"], "\n", b["detail"][:1500])
    return 0
