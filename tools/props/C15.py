"""C15 — Python export reconstructs an identical engine.

Direct oracle: exec(import_statement) in a fresh namespace, eval/exec the exported text, and compare the rebuilt object's
repr, FLL text and (when representable) outputs with the original's — for the engine and for each of its components,
alias in {fl, '', '*', custom} x {repr, encapsulated} x {unformatted, black-formatted}.
Correspondence: the implementation's text, parsed with Python's `ast` into the model's `pyexpr` shape, must be what
Model/PyRepr.v's `repr` computes for a dump of the same object (class + vars(self)), and the model's `eval` /
`normalize` of it must be the dump of the rebuilt Python object; plus a stream of hand-made constructor calls
(keyword / positional mixes, shorthand constructors, malformed calls and rule texts) evaluated by both sides.
"""
from __future__ import annotations

import ast
import inspect
import keyword
import math
import struct

import numpy as np

import vlib

COQ_TARGETS = ["Proofs/PyReprFix.vo"]

ALIASES = ["fl", "", "*", "fzl"]
SHAPES = ["Arc", "Bell", "Binary", "Concave", "Cosine", "Gaussian", "GaussianProduct", "PiShape", "Ramp", "Rectangle", "SemiEllipse",
          "Sigmoid", "SigmoidDifference", "SigmoidProduct", "Spike", "SShape", "Trapezoid", "Triangle", "ZShape"]
TNORMS = ["AlgebraicProduct", "BoundedDifference", "DrasticProduct", "EinsteinProduct", "HamacherProduct", "Minimum", "NilpotentMinimum"]
SNORMS = ["AlgebraicSum", "BoundedSum", "DrasticSum", "EinsteinSum", "HamacherSum", "Maximum", "NilpotentMaximum", "NormalizedSum", "UnboundedSum"]
INTEGRAL = ["Bisector", "Centroid", "LargestOfMaximum", "MeanOfMaximum", "SmallestOfMaximum"]
HEDGES = ["very", "somewhat", "not", "extremely", "seldom", "any"]
DESCRIPTIONS = ["", "", "", "plain words", "it's", 'say "hi"', "back\\slash", "mixed ' \" \\ end", "tab\there", "café μ(x) ≤ 1", "\\n is not a newline",
                "curly {x} and %s", "trailing\\", "'", '"', "#not a comment", "a: b"]
ERRKIND = {"TypeError": "EInternal", "AttributeError": "EInternal", "NameError": "EInternal", "KeyError": "ELookup", "ValueError": "EValue",
           "SyntaxError": "ESyntax", "RuntimeError": "ERuntime"}


# =============================================================================================== floats
def bits(x: float) -> str:
    x = float(x)
    return "nan" if x != x else struct.pack(">d", x).hex()


def any_finite(rng) -> float:
    k = rng.random()
    if k < 0.35:
        while True:
            x = struct.unpack("<d", struct.pack("<Q", rng.getrandbits(64)))[0]
            if math.isfinite(x):
                return x
    if k < 0.6:
        return rng.choice([0.0, -0.0, 1.0, -1.0, 0.5, 0.1, 0.2, 0.3, 1 / 3, 1e-320, 5e-324, 1.7976931348623157e308, -1.7976931348623157e308, 2.5, 1e22, 1e16,
                           123456789.12345679, 0.30000000000000004, 1e-7, 9007199254740993.0, 1e21, 1e-5, 0.0001, 123456.7, -2.2250738585072014e-308])
    if k < 0.85:
        return rng.uniform(-10, 10)
    return round(rng.uniform(-100, 100), rng.choice([0, 1, 2, 3]))


def wild_float(rng, nan_ok: bool) -> float:
    k = rng.random()
    if k < 0.08:
        return math.inf
    if k < 0.16:
        return -math.inf
    if nan_ok and k < 0.24:
        return math.nan
    return any_finite(rng)


def gen_height(rng) -> float:
    if rng.random() < 0.04:  # within the comparison tolerance of 1: dropped by __repr__ (outside the hypothesis of the output clause)
        return rng.choice([1.0004, 0.9995, 1.001, 0.999])
    return rng.choice([1.0, 1.0, 1.0, 1.0, 0.5, 2.0, 0.75, 1.0011, 0.9989, any_finite(rng), -1.0, 1e-3])


def grid_weight(rng, decimals: int) -> float:
    k = rng.random()
    if k < 0.5:
        return 1.0
    if k < 0.53:  # on the grid but within the tolerance of 1: the weight is omitted from the text (not representable)
        return float(f"{1.0 + rng.choice([-1, 1]) * 10.0 ** -decimals:.{decimals}f}")
    w = rng.choice([0.0, 0.5, 0.25, 0.3, 0.75, 2.0, rng.uniform(0, 1), rng.uniform(0, 3), 1.002, 0.998, 12.5])
    return float(f"{w:.{decimals}f}")


# =============================================================================================== generation
def assign(obj, **fields):
    """Set every generated field AGAIN by attribute assignment: the original engine must not depend on the constructors
    routing their arguments correctly (the rebuilt engine does: that is what is being checked)."""
    for k, v in fields.items():
        setattr(obj, k, v)
    return obj


def shape_params(fl, cls: str) -> list[str]:
    return [p for p in inspect.signature(getattr(fl, cls).__init__).parameters if p not in ("self", "name", "height")]


def gen_shape(fl, rng, name: str, lo: float, hi: float, wild: bool, classes=None):
    cls = rng.choice(classes or SHAPES)
    names = shape_params(fl, cls)
    if wild:
        vals = [wild_float(rng, nan_ok=False) for _ in names]  # NaN in a trailing shape parameter is the shorthand constructor's trigger
    else:
        span = hi - lo
        pts = sorted(rng.uniform(lo, hi) for _ in names)
        vals = []
        for n, p in zip(names, pts):
            if n in ("width", "standard_deviation", "standard_deviation_a", "standard_deviation_b"):
                vals.append(rng.uniform(0.05, 0.5) * span)
            elif n in ("slope", "rising", "falling"):
                vals.append(rng.choice([-1, 1]) * rng.uniform(0.5, 20) / span)
            elif n == "direction":
                vals.append(rng.choice([math.inf, -math.inf]))
            else:
                vals.append(p)
        if cls in ("Trapezoid", "PiShape", "Rectangle", "Triangle") and rng.random() < 0.15:  # infinite shoulders
            vals[0] = -math.inf
        if cls in ("Trapezoid", "PiShape", "Rectangle", "Triangle") and rng.random() < 0.15:
            vals[-1] = math.inf
    h = gen_height(rng)
    t = getattr(fl, cls)(name, *[float(v) for v in vals], h)
    return assign(t, name=name, height=h, **{n: float(v) for n, v in zip(names, vals)})


def gen_discrete(fl, rng, name, lo, hi, wild):
    n = rng.choice([0, 1, 2, 3, 5])
    if wild:
        xy = [any_finite(rng) for _ in range(2 * n)]
    else:
        xs = sorted(rng.uniform(lo, hi) for _ in range(n))
        xy = [v for x in xs for v in (x, rng.random())]
    h = gen_height(rng)
    if n == 0 and rng.random() < 0.5:
        return assign(fl.Discrete(name, None, h), name=name, height=h)
    t = assign(fl.Discrete(name, xy, h), name=name, height=h)
    if n > 0:
        t.values = np.array([[float(xy[2 * i]), float(xy[2 * i + 1])] for i in range(n)], dtype=float)
    return t


def ident(rng, base: str) -> str:
    s = base + rng.choice(["", "", "_x", "A", "_1", "Temp"])
    return s if not keyword.iskeyword(s) else s + "_"


def gen_engine(fl, rng):
    """A random engine built with the public constructors.  Returns (engine, info)."""
    wild = rng.random() < 0.4
    decimals = 3
    n_in, n_out = rng.choice([1, 2, 2, 3]), rng.choice([1, 1, 2])
    names_in = [ident(rng, f"in{i}") for i in range(n_in)]
    inputs = []
    for i in range(n_in):
        lo = rng.choice([0.0, -1.0, -10.0, 2.5])
        hi = lo + rng.choice([1.0, 2.0, 10.0, 7.5])
        terms = []
        for k in range(rng.choice([1, 2, 3])):
            tn = ident(rng, f"t{i}{k}")
            c = rng.random()
            if c < 0.08:  # terms that need the engine (reference set / formula parsed by Engine.__init__) also inside INPUT variables
                cf = [float(any_finite(rng) if wild else rng.uniform(-1, 1)) for _ in range(n_in + 1)]
                terms.append(assign(fl.Linear(tn, list(cf)), name=tn, coefficients=list(cf)))
            elif c < 0.18:
                formula = rng.choice(["x", "x * 0.5", f"{rng.choice(names_in)} / 4", f"abs(x) + {rng.choice(names_in)} * 0.125", "1 - x ^ 2"])
                terms.append(assign(fl.Function(tn, formula), name=tn, formula=formula, variables={}))
            elif c < 0.22:
                cv = float(rng.uniform(0, 1))
                terms.append(assign(fl.Constant(tn, cv), name=tn, value=cv))
            else:
                terms.append(gen_discrete(fl, rng, tn, lo, hi, wild) if rng.random() < 0.12 else gen_shape(fl, rng, tn, lo, hi, wild))
        vmin, vmax = (wild_float(rng, True), wild_float(rng, True)) if wild else (lo, hi)
        f = dict(name=names_in[i], description=rng.choice(DESCRIPTIONS), enabled=rng.random() > 0.1, minimum=float(vmin), maximum=float(vmax),
                 lock_range=rng.random() < 0.25, terms=terms)
        inputs.append(assign(fl.InputVariable(**f), **f))
    outputs = []
    for i in range(n_out):
        lo = rng.choice([0.0, -1.0, -5.0])
        hi = lo + rng.choice([1.0, 4.0, 10.0])
        kind = rng.choice(["integral", "integral", "sugeno", "tsukamoto"])
        terms = []
        for k in range(rng.choice([1, 2, 3])):
            tn = ident(rng, f"o{i}{k}")
            if kind == "sugeno":
                c = rng.random()
                if c < 0.4:
                    cv = float(wild_float(rng, True) if wild or rng.random() < 0.2 else rng.uniform(lo, hi))
                    terms.append(assign(fl.Constant(tn, cv), name=tn, value=cv))
                elif c < 0.7:
                    cf = [float(any_finite(rng) if wild else rng.uniform(-2, 2)) for _ in range(n_in + 1)]
                    terms.append(assign(fl.Linear(tn, list(cf)), name=tn, coefficients=list(cf)))
                else:
                    v = {}
                    formula = " + ".join(rng.sample(names_in, rng.randint(1, n_in))) + rng.choice(["", " * 2", " / 3.5", " - 1e-3", " ^ 2"])
                    if rng.random() < 0.4:
                        for key in rng.sample(["k", "zeta", "alpha", "b2"], rng.choice([1, 2, 3])):
                            v[key] = float(any_finite(rng))
                        formula += " + " + " * ".join(v)
                    terms.append(assign(fl.Function(tn, formula, variables=v or None), name=tn, formula=formula, variables=dict(v)))
            elif kind == "tsukamoto":
                terms.append(gen_shape(fl, rng, tn, lo, hi, wild, ["Ramp", "SShape", "ZShape", "Sigmoid", "Concave", "Arc"]))
            else:
                terms.append(gen_discrete(fl, rng, tn, lo, hi, wild) if rng.random() < 0.12 else gen_shape(fl, rng, tn, lo, hi, wild))
        if kind == "integral":
            res = rng.choice([None, 1000, 100, 50, 17, 1, 2, 1001])
            defuzz = assign(getattr(fl, rng.choice(INTEGRAL))(res), resolution=res or fl.IntegralDefuzzifier.default_resolution)
        else:
            ty = rng.choice(["Automatic", "Automatic", "TakagiSugeno" if kind == "sugeno" else "Tsukamoto"])
            defuzz = assign(getattr(fl, rng.choice(["WeightedAverage", "WeightedSum"]))(ty), type=fl.WeightedDefuzzifier.Type[ty])
        if rng.random() < 0.04:
            defuzz = None
        vmin, vmax = (wild_float(rng, True), wild_float(rng, True)) if wild else (lo, hi)
        default = rng.choice([math.nan, math.nan, wild_float(rng, True), round(rng.uniform(lo, hi), 2)])
        f = dict(name=ident(rng, f"out{i}"), description=rng.choice(DESCRIPTIONS), enabled=rng.random() > 0.1, minimum=float(vmin), maximum=float(vmax),
                 lock_range=rng.random() < 0.3, lock_previous=rng.random() < 0.3, default_value=float(default),
                 aggregation=None if rng.random() < 0.1 else getattr(fl, rng.choice(SNORMS))(), defuzzifier=defuzz, terms=terms)
        outputs.append(assign(fl.OutputVariable(**f), **f))
    blocks = []

    def proposition(vars_):
        v = rng.choice(vars_)
        hs = [rng.choice(HEDGES[:5]) for _ in range(rng.choice([0, 0, 1, 2]))]
        if rng.random() < 0.06 or not v.terms:
            return f"{v.name} is {' '.join(hs + ['any'])}"
        return f"{v.name} is {' '.join(hs + [rng.choice(v.terms).name])}"

    def antecedent(depth):
        if depth == 0:
            return proposition(inputs + (outputs if rng.random() < 0.15 else []))
        l, r = antecedent(depth - 1), antecedent(rng.choice([0, depth - 1]))
        if rng.random() < 0.4:
            l = f"( {l} )" if rng.random() < 0.5 else f"({l})"
        return f"{l} {rng.choice(['and', 'or'])} {r}"

    for b in range(rng.choice([1, 1, 2])):
        rules = []
        for _ in range(rng.choice([0, 1, 2, 3, 5])):
            outs_with_terms = [o for o in outputs if o.terms]
            cons = " and ".join(f"{o.name} is {' '.join([rng.choice(HEDGES[:5]) for _ in range(rng.choice([0, 0, 0, 1]))] + [rng.choice(o.terms).name])}"
                                for o in rng.sample(outs_with_terms, rng.randint(1, len(outs_with_terms))))
            w = grid_weight(rng, decimals)
            text = f"if {antecedent(rng.choice([0, 1, 1, 2]))} then {cons}" + (f" with {w:.{decimals}f}" if rng.random() < 0.8 or w != 1.0 else "")
            rule = fl.Rule.create(text)
            rule.weight = w
            rule.enabled = rng.random() > 0.03
            rules.append(rule)
        act = rng.choice(["General", "General", "First", "Last", "Highest", "Lowest", "Proportional", "Threshold"])
        if act in ("First", "Last"):
            f = dict(rules=rng.choice([0, 1, 2, 3, 10]), threshold=float(rng.choice([0.0, 0.1, 0.5, any_finite(rng)])))
            activation = assign(getattr(fl, act)(**f), **f)
        elif act in ("Highest", "Lowest"):
            f = dict(rules=rng.choice([0, 1, 2, 3]))
            activation = assign(getattr(fl, act)(**f), **f)
        elif act == "Threshold":
            cmp_, thr = rng.choice(["<", "<=", "==", "!=", ">=", ">"]), float(rng.choice([0.0, 0.25, 0.5, wild_float(rng, True)]))
            activation = assign(fl.Threshold(cmp_, thr), comparator=fl.Threshold.Comparator(cmp_), threshold=thr)
        else:
            activation = getattr(fl, act)()
        if rng.random() < 0.03:
            activation = None
        f = dict(name=ident(rng, f"rb{b}"), description=rng.choice(DESCRIPTIONS), enabled=rng.random() > 0.1,
                 conjunction=None if rng.random() < 0.04 else getattr(fl, rng.choice(TNORMS))(),
                 disjunction=None if rng.random() < 0.04 else getattr(fl, rng.choice(SNORMS))(),
                 implication=None if rng.random() < 0.04 else getattr(fl, rng.choice(TNORMS))(), activation=activation, rules=rules)
        blocks.append(assign(fl.RuleBlock(**f), **f))
    f = dict(name=ident(rng, rng.choice(["e", "Engine", "my_engine", "tipper2", "x9"])), description=rng.choice(DESCRIPTIONS),
             input_variables=inputs, output_variables=outputs, rule_blocks=blocks)
    engine = assign(fl.Engine(**f), **f)   # lists: the same list objects the constructor copied from; rules are loaded by the constructor
    for v in engine.input_variables + engine.output_variables:  # references and formulas of the ORIGINAL do not rely on Engine.__init__
        for t in v.terms:
            t.update_reference(engine)
    rows = []
    for _ in range(8):
        row = []
        for iv in inputs:
            k = rng.random()
            lo, hi = (iv.minimum, iv.maximum) if math.isfinite(iv.minimum) and math.isfinite(iv.maximum) and iv.minimum < iv.maximum else (-10.0, 10.0)
            if k < 0.7:
                row.append(rng.uniform(lo, hi))
            elif k < 0.8:
                row.append(rng.choice([lo, hi]))
            elif k < 0.9:
                row.append(any_finite(rng))
            else:
                row.append(rng.choice([math.nan, math.inf, -math.inf]))
        rows.append(row)
    return engine, {"wild": wild, "rows": rows}


def all_terms(engine):
    return [t for v in engine.input_variables + engine.output_variables for t in v.terms]


def close_to_one(fl, x: float) -> bool:
    """The documented comparison tolerance (settings.atol / rtol), stated independently of Op.is_close."""
    return math.isfinite(x) and abs(x - 1.0) <= fl.settings.atol + fl.settings.rtol * 1.0


def representable(fl, engine) -> bool:
    """The hypothesis of the output clause: heights and weights are 1 or further from 1 than the tolerance, weights on
    the decimals grid (disabled rules, F5, are handled by the caller)."""
    for t in all_terms(engine):
        if t.height != 1.0 and close_to_one(fl, t.height):
            return False
    for rb in engine.rule_blocks:
        for r in rb.rules:
            if r.weight != 1.0 and close_to_one(fl, r.weight):
                return False
            if float(f"{float(r.weight):.{fl.settings.decimals}f}") != r.weight:
                return False
    return True


def run_rows(engine, rows):
    out = []
    for row in rows:
        try:
            for iv, x in zip(engine.input_variables, row):
                iv.value = x
            with np.errstate(all="ignore"):
                engine.process()
            out.append(tuple(bits(float(np.asarray(ov.value).ravel()[-1])) for ov in engine.output_variables))
        except Exception as ex:  # the same exception class is expected from the rebuilt engine
            out.append(("EXC", type(ex).__name__))
    return out


def components(engine):
    """(kind, object) for every component that has a representation of its own."""
    out = []
    for v in engine.input_variables + engine.output_variables:
        out.append(("variable", v))
        out += [("term", t) for t in v.terms]
    for ov in engine.output_variables:
        if ov.defuzzifier is not None:
            out.append(("defuzzifier", ov.defuzzifier))
        if ov.aggregation is not None:
            out.append(("norm", ov.aggregation))
    for rb in engine.rule_blocks:
        out.append(("ruleblock", rb))
        out += [("norm", n) for n in (rb.conjunction, rb.disjunction, rb.implication) if n is not None]
        if rb.activation is not None:
            out.append(("activation", rb.activation))
        out += [("rule", r) for r in rb.rules]
        out += [("antecedent", r.antecedent) for r in rb.rules[:1]] + [("consequent", r.consequent) for r in rb.rules[:1]]
    return out


# =============================================================================================== expression trees
# Python-side mirror of Model/PyRepr.v's pyexpr: tuples
#   ("call", path, [args], [(k, v)]) ("str", s) ("raw", s) ("float", x) ("int", z) ("bool", b) ("none",) ("name", path) ("neg", e) ("list", [..]) ("dict", [(k, e)])
def path_of(n: ast.AST):
    if isinstance(n, ast.Name):
        return [n.id]
    if isinstance(n, ast.Attribute):
        p = path_of(n.value)
        return None if p is None else p + [n.attr]
    return None


class Unparsable(Exception):
    pass


def from_ast(n: ast.AST, src: str):
    if isinstance(n, ast.Call):
        p = path_of(n.func)
        if p is None or any(k.arg is None for k in n.keywords) or any(isinstance(a, ast.Starred) for a in n.args):
            raise Unparsable(ast.dump(n)[:80])
        args = [from_ast(a, src) for a in n.args]
        if p[-2:] == ["Rule", "create"] and len(args) == 1 and args[0][0] == "str":
            # Rule.__repr__ pastes the text between single quotes: check that it is a raw paste
            seg = ast.get_source_segment(src, n.args[0])
            if seg == "'" + args[0][1] + "'" or seg == '"' + args[0][1] + '"':  # black rewrites the quotes
                args = [("raw", args[0][1])]
        return ("call", p, args, [(k.arg, from_ast(k.value, src)) for k in n.keywords])
    if isinstance(n, ast.Constant):
        v = n.value
        if v is None:
            return ("none",)
        if isinstance(v, bool):
            return ("bool", v)
        if isinstance(v, int):
            return ("int", v)
        if isinstance(v, float):
            return ("float", v)
        if isinstance(v, str):
            return ("str", v)
        if v is Ellipsis:
            return ("ellipsis",)
        raise Unparsable(repr(v))
    if isinstance(n, ast.UnaryOp) and isinstance(n.op, ast.USub):
        e = from_ast(n.operand, src)
        if e[0] == "float":
            return ("float", -e[1])
        if e[0] == "int":
            return ("int", -e[1])
        return ("neg", e)
    if isinstance(n, (ast.Name, ast.Attribute)):
        p = path_of(n)
        if p is None:
            raise Unparsable(ast.dump(n)[:80])
        return ("name", p)
    if isinstance(n, ast.List):
        return ("list", [from_ast(x, src) for x in n.elts])
    if isinstance(n, ast.Dict):
        items = []
        for k, v in zip(n.keys, n.values):
            if not (isinstance(k, ast.Constant) and isinstance(k.value, str)):
                raise Unparsable("dict key")
            items.append((k.value, from_ast(v, src)))
        return ("dict", items)
    if isinstance(n, ast.Lambda):
        return ("lambda",)
    raise Unparsable(type(n).__name__)


def parse_expr(text: str):
    tree = ast.parse(text.strip(), mode="eval")
    return from_ast(tree.body, text.strip())


def parse_module(text: str):
    """The encapsulated export: [import, class/def] -> ("import", module, asname) / ("star", module) / ("class", name, attr, e) / ("def", name, path, e)."""
    tree = ast.parse(text)
    out = []
    for s in tree.body:
        if isinstance(s, ast.Import) and len(s.names) == 1:
            out.append(("import", s.names[0].name, s.names[0].asname))
        elif isinstance(s, ast.ImportFrom) and s.level == 0 and len(s.names) == 1 and s.names[0].name == "*":
            out.append(("star", s.module))
        elif isinstance(s, ast.ClassDef) and len(s.body) == 1 and isinstance(s.body[0], ast.FunctionDef) and s.body[0].name == "__init__" and not s.bases:
            fn = s.body[0]
            if not (len(fn.body) == 1 and isinstance(fn.body[0], ast.Assign) and len(fn.body[0].targets) == 1 and path_of(fn.body[0].targets[0]) is not None
                    and path_of(fn.body[0].targets[0])[0] == "self" and len(path_of(fn.body[0].targets[0])) == 2 and [a.arg for a in fn.args.args] == ["self"]
                    and ast.unparse(fn.returns) == "None"):
                raise Unparsable("class body")
            out.append(("class", s.name, fn.body[0].targets[0].attr, from_ast(fn.body[0].value, text)))
        elif isinstance(s, ast.FunctionDef) and len(s.body) == 1 and isinstance(s.body[0], ast.Return) and not s.args.args and s.returns is not None:
            out.append(("def", s.name, path_of(s.returns), from_ast(s.body[0].value, text)))
        else:
            raise Unparsable(ast.dump(s)[:80])
    return out


def cstr(s: str) -> str:
    return vlib.coq_string(s)


def cpath(p) -> str:
    return vlib.coq_list(cstr(x) for x in p)


def expr_lit(e) -> str:
    k = e[0]
    if k == "call":
        return f"(ECall {cpath(e[1])} {vlib.coq_list(expr_lit(a) for a in e[2])} {vlib.coq_list(f'({cstr(n)}, {expr_lit(v)})' for n, v in e[3])})"
    if k == "str":
        return f"(EStr {cstr(e[1])})"
    if k == "raw":
        return f"(ERawStr {cstr(e[1])})"
    if k == "float":
        return f"(EFloat {vlib.fhex(e[1])})"
    if k == "int":
        return f"(EInt ({e[1]})%Z)"
    if k == "bool":
        return f"(EBool {'true' if e[1] else 'false'})"
    if k == "none":
        return "ENone"
    if k == "name":
        return f"(EName {cpath(e[1])})"
    if k == "neg":
        return f"(ENeg {expr_lit(e[1])})"
    if k == "list":
        return f"(EList {vlib.coq_list(expr_lit(a) for a in e[1])})"
    if k == "dict":
        return f"(EDict {vlib.coq_list(f'({cstr(n)}, {expr_lit(v)})' for n, v in e[1])})"
    if k == "lambda":
        return "ELambdaStub"
    raise Unparsable(k)


def expr_src(e) -> str:
    """Python source of a tree (used for the hand-made constructor calls)."""
    k = e[0]
    if k == "call":
        return ".".join(e[1]) + "(" + ", ".join([expr_src(a) for a in e[2]] + [f"{n}={expr_src(v)}" for n, v in e[3]]) + ")"
    if k == "str":
        return repr(e[1])
    if k == "raw":
        return "'" + e[1] + "'"
    if k == "float":
        return repr(float(e[1]))
    if k == "int":
        return repr(e[1])
    if k == "bool":
        return repr(e[1])
    if k == "none":
        return "None"
    if k == "name":
        return ".".join(e[1])
    if k == "neg":
        return "-" + expr_src(e[1])
    if k == "list":
        return "[" + ", ".join(expr_src(a) for a in e[1]) + "]"
    if k == "dict":
        return "{" + ", ".join(f"{n!r}: {expr_src(v)}" for n, v in e[1]) + "}"
    raise Unparsable(k)


def stmt_lit(s) -> str:
    if s[0] == "import":
        return f"(SImport {cstr(s[1])} {'None' if s[2] is None else '(Some ' + cstr(s[2]) + ')'})"
    if s[0] == "star":
        return f"(SImportStar {cstr(s[1])})"
    if s[0] == "class":
        return f"(SClassInit {cstr(s[1])} {cstr(s[2])} {expr_lit(s[3])})"
    return f"(SDefReturn {cstr(s[1])} {cpath(s[2])} {expr_lit(s[3])})"


# =============================================================================================== object dumps
class DumpError(Exception):
    pass


_SORT_DICTS = False


def canon_lit(fl, v) -> str:
    """val_lit with dict keys sorted (dicts are equal regardless of insertion order; reprlib prints them sorted)."""
    global _SORT_DICTS
    _SORT_DICTS = True
    try:
        return val_lit(fl, v)
    finally:
        _SORT_DICTS = False


def val_lit(fl, v, engine=None) -> str:
    """A Python object as a Model/PyRepr.v `pyval` literal: class name + vars(self) in order."""
    if v is None:
        return "VNone"
    if isinstance(v, (bool, np.bool_)):
        return f"(VBool {'true' if v else 'false'})"
    if isinstance(v, (int, np.integer)):
        return f"(VInt ({int(v)})%Z)"
    if isinstance(v, (float, np.floating)):
        return f"(VFloat {vlib.fhex(float(v))})"
    if isinstance(v, str):
        return f"(VStr {cstr(v)})"
    if isinstance(v, np.ndarray):
        if v.ndim == 0:
            return val_lit(fl, v.item(), engine)
        return f"(VArr {vlib.coq_list(val_lit(fl, y, engine) for y in v)})"
    if isinstance(v, list):
        return f"(VList {vlib.coq_list(val_lit(fl, y, engine) for y in v)})"
    if isinstance(v, dict):
        items = sorted(v.items()) if _SORT_DICTS else list(v.items())
        return f"(VDict {vlib.coq_list(f'({cstr(k)}, {val_lit(fl, y, engine)})' for k, y in items)})"
    if isinstance(v, fl.WeightedDefuzzifier.Type):
        return f'(VEnum "WeightedDefuzzifier.Type" {cstr(v.name)})'
    if isinstance(v, fl.Threshold.Comparator):
        return f'(VEnum "Threshold.Comparator" {cstr(v.value)})'
    if isinstance(v, fl.Engine) and engine is not None:
        return "VEngineRef"
    if callable(v) and not hasattr(v, "__dict__"):
        return '(VOpaque "callable")'
    cls = type(v).__name__
    if type(v).__module__.startswith("fuzzylite."):
        fields = []
        for k, y in vars(v).items():
            if k == "root" and isinstance(v, fl.Function):
                lit = "VNone" if y is None else f"(VTree {cstr(v.formula)})"
            elif k == "expression" and isinstance(v, fl.Antecedent):
                lit = "VNone" if y is None else "VLoaded"
            elif k == "conclusions" and isinstance(v, fl.Consequent):
                lit = "VLoaded" if y else "(VList [])"
            elif k == "engine" and isinstance(v, (fl.Linear, fl.Function)):
                lit = "VNone" if y is None else "VEngineRef"
            else:
                lit = val_lit(fl, y, engine if engine is not None else (v if isinstance(v, fl.Engine) else None))
            fields.append(f"({cstr(k)}, {lit})")
        return f"(VObj {cstr(cls)} {vlib.coq_list(fields)})"
    raise DumpError(f"cannot dump {type(v)}")


# =============================================================================================== rebuilding
def with_alias(fl, alias: str):
    return fl.settings.context(alias=alias)  # only None is ignored by the context manager: "" is set


def fresh_namespace(fl, alias: str) -> dict:
    ns: dict = {}
    with with_alias(fl, alias):
        stmt = fl.representation.import_statement()
    exec(stmt, ns)
    return ns


def rebuild(fl, text: str, alias: str, encapsulated: bool, is_engine: bool, class_name: str | None):
    ns = fresh_namespace(fl, alias)
    if not encapsulated:
        return eval(text.strip(), ns)
    exec(text, ns)
    if is_engine:
        return ns[class_name]().engine
    return ns["create"]()


# =============================================================================================== the check
class Sink:
    """What one engine's checks produce (picklable: the engines are checked in worker processes)."""

    def __init__(self):
        self.evaluations = 0
        self.oracle_violations = 0
        self.dist: dict[str, int] = {}
        self.violations: list = []  # (signature, what, replay)
        self.broken: list = []  # (kind, name, detail)
        self.cases_a: list = []  # (literal, index entry)
        self.cases_b: list = []
        self.cases_d: list = []
        self.weights: dict[str, float] = {}
        self.pascal: dict[str, str] = {}
        self.nontrivial = 0
        self.formatted = {"black": 0, "unavailable": 0}
        self.f5_hits = 0
        self.shadow_hits = 0
        self.sample = None

    def count(self, key, n=1):
        self.dist[key] = self.dist.get(key, 0) + n

    def violation(self, sig, what, replay):
        self.violations.append((sig, what, replay))
        if sig == "pyrepr:encapsulated-name-shadows-library":
            self.shadow_hits += 1
        elif sig != "pyrepr:rule-enabled-lost":
            self.oracle_violations += 1


def engine_replay(fl, engine, info, alias, mode, fmt):
    with with_alias(fl, "fl"):
        text = repr(engine)
    return {"engine_repr_fl": text, "disabled_rules": [[i, j] for i, rb in enumerate(engine.rule_blocks) for j, r in enumerate(rb.rules) if not r.enabled],
            "rows": [[repr(x) for x in row] for row in info["rows"]], "alias": alias, "mode": mode, "formatted": fmt}


def library_names(fl) -> set:
    import fuzzylite

    return {n for n in vars(fuzzylite) if not n.startswith("_")}


def check_engine(fl, sk: Sink, engine, info, formatted_combo, alias_m):
    """Direct oracle for one engine + the model cases of the alias `alias_m`."""
    rows = info["rows"]
    rep_ok = representable(fl, engine)
    disabled = [(i, j) for i, rb in enumerate(engine.rule_blocks) for j, r in enumerate(rb.rules) if not r.enabled]
    fll0 = str(engine)
    dump0 = val_lit(fl, engine)
    canon0 = canon_lit(fl, engine)
    for rb in engine.rule_blocks:
        for r in rb.rules:
            sk.weights[bits(r.weight)] = float(r.weight)
    cname = fl.Op.pascal_case(engine.name)
    sk.pascal[engine.name] = cname
    texts = {}
    for alias in ALIASES:
        with with_alias(fl, alias):
            texts[(alias, "repr", False)] = repr(engine)
            texts[(alias, "encapsulated", False)] = fl.PythonExporter(formatted=False, encapsulated=True).to_string(engine)
            if alias == formatted_combo[0]:
                mode = formatted_combo[1]
                try:
                    t = fl.PythonExporter(formatted=True, encapsulated=(mode == "encapsulated")).to_string(engine)
                except Exception as ex:  # black refuses text that is not Python
                    sk.violation(f"pyrepr:engine-export:{type(ex).__name__}", f"formatted export raises ({alias!r}, {mode}): {type(ex).__name__}: {str(ex)[:160]}", engine_replay(fl, engine, info, alias, mode, True))
                    continue
                try:
                    import black  # noqa: F401

                    texts[(alias, mode, True)] = t
                    sk.formatted["black"] += 1
                except ModuleNotFoundError:  # without black the exporter logs an error and returns the code unformatted
                    sk.formatted["unavailable"] += 1
                    if t != texts[(alias, mode, False)]:
                        sk.violation("pyrepr:format-fallback", "formatted export without black differs from the unformatted text", engine_replay(fl, engine, info, alias, mode, True))
    sk.sample = texts[("fl", "repr", False)][:400]
    plain_dump = {}
    model_parts = {}
    outputs0 = None
    for (alias, mode, fmt), text in sorted(texts.items(), key=lambda kv: (kv[0][0], kv[0][1] != "repr", kv[0][2])):
        sk.evaluations += 1
        sk.count(f"engine:{alias or 'qualified'}:{mode}:{'black' if fmt else 'plain'}")
        rp = lambda: engine_replay(fl, engine, info, alias, mode, fmt)
        try:
            e2 = rebuild(fl, text, alias, mode == "encapsulated", True, cname)
        except Exception as ex:
            if mode == "encapsulated" and alias == "*" and cname in library_names(fl):
                sk.violation("pyrepr:encapsulated-name-shadows-library", f"engine named {engine.name!r}: `class {cname}:` shadows fuzzylite.{cname} after `from fuzzylite import *`: {type(ex).__name__}: {str(ex)[:120]}", rp())
                if not fmt:
                    try:  # the model must fail here too (run_module: the class statement rebinds the name the expression calls)
                        e_plain = parse_expr(texts[(alias, "repr", False)])
                        sk.cases_d.append((f"({cstr(alias)}, {dump0}, {expr_lit(e_plain)}, {enc_header(parse_module(text), e_plain)[6:-1]})", ("D", "engine-shadowed", alias, text[:200])))
                    except (Unparsable, DumpError, SyntaxError) as ex2:
                        sk.broken.append(("correspondence", "C15:unparsable-engine", f"{type(ex2).__name__}: {ex2}"))
            else:
                sk.violation(f"pyrepr:engine-rebuild:{type(ex).__name__}", f"exported engine text does not evaluate ({alias!r}, {mode}, formatted={fmt}): {type(ex).__name__}: {str(ex)[:200]}", rp())
            continue
        for v2 in e2.input_variables + e2.output_variables:
            for t2 in v2.terms:
                if isinstance(t2, (fl.Linear, fl.Function)) and t2.engine is not e2:
                    sk.violation("pyrepr:term-engine-reference", f"{type(t2).__name__} term {v2.name}.{t2.name} of the rebuilt engine does not refer to it ({alias!r}, {mode})", rp())
                if isinstance(t2, fl.Function) and not t2.is_loaded():
                    sk.violation("pyrepr:function-not-loaded", f"Function term {v2.name}.{t2.name} of the rebuilt engine is not loaded ({alias!r}, {mode})", rp())
        d2 = val_lit(fl, e2)  # before the rebuilt engine is processed
        if mode == "repr" and not fmt:
            plain_dump[alias] = d2
            with with_alias(fl, alias):
                r2 = repr(e2)
            if r2 != text:
                sk.violation("pyrepr:engine-repr", f"repr of the rebuilt engine differs ({alias!r})", rp())
        elif d2 != plain_dump.get(alias):
            # the encapsulated / formatted text must build the same object as the plain repr under the same alias
            sk.violation("pyrepr:engine-encapsulated", f"{mode} (formatted={fmt}) export builds a different engine than repr under alias {alias!r}", rp())
        if str(e2) != fll0:
            sk.violation("pyrepr:engine-fll", f"FLL of the rebuilt engine differs ({alias!r}, {mode}, formatted={fmt})", rp())
        lost = [(i, j) for (i, j) in disabled if e2.rule_blocks[i].rules[j].enabled]
        if lost:
            sk.f5_hits += 1
            sk.violation("pyrepr:rule-enabled-lost", f"Rule.enabled=False is not exported: rule {lost[0]} of the rebuilt engine is enabled ({alias!r}, {mode})", rp())
        elif rep_ok:
            if canon_lit(fl, e2) != canon0:
                sk.violation("pyrepr:engine-not-identical", f"a representable, freshly built engine is not rebuilt identically: some attribute differs ({alias!r}, {mode}, formatted={fmt})", rp())
            if outputs0 is None:
                outputs0 = run_rows(engine, rows)  # the original is processed once, after everything was printed and dumped
                if any(o[0] != "EXC" and any(b != "nan" for b in o) for o in outputs0):
                    sk.nontrivial += 1
            out2 = run_rows(e2, rows)
            if out2 != outputs0:
                k = next(i for i, (a, b) in enumerate(zip(outputs0, out2)) if a != b)
                sk.violation("pyrepr:engine-outputs", f"outputs of the rebuilt engine differ on row {k} ({alias!r}, {mode}, formatted={fmt}): {outputs0[k]} vs {out2[k]}", rp())
        if fmt and ast.dump(ast.parse(texts[(alias, mode, False)])) != ast.dump(ast.parse(text)):
            sk.broken.append(("correspondence", "black-preserves-tree", f"formatted and unformatted exports parse to different trees ({alias!r}, {mode})"))
        if alias == alias_m and not fmt:
            model_parts[mode] = (text, d2)
    if "repr" in model_parts:
        try:
            text, d2 = model_parts["repr"]
            e_plain = parse_expr(text)
            enc = "None"
            if "encapsulated" in model_parts and model_parts["encapsulated"][1] == d2:
                enc = enc_header(parse_module(model_parts["encapsulated"][0]), e_plain)
            sk.cases_a.append((f"({cstr(alias_m)}, {dump0}, {expr_lit(e_plain)}, {d2}, {enc})", ("A", "engine", alias_m, text[:300])))
        except (Unparsable, DumpError, SyntaxError) as ex:
            sk.broken.append(("correspondence", "C15:unparsable-engine", f"{type(ex).__name__}: {ex}"))


def enc_header(module, e_plain) -> str:
    """The encapsulated module without its expression (which must be the plain repr's): Some (import, class/def header)."""
    if len(module) != 2 or module[1][-1] != e_plain:
        raise Unparsable("encapsulated module does not wrap the expression that repr prints")
    imp, body = module
    if body[0] == "class":
        return f"(Some ({stmt_lit(imp)}, inl ({cstr(body[1])}, {cstr(body[2])})))"
    return f"(Some ({stmt_lit(imp)}, inr ({cstr(body[1])}, {cpath(body[2])})))"


def check_components(fl, sk: Sink, engine, alias_m):
    """Every component on its own: all four aliases for the first component of each kind, the rotating alias for the rest."""
    seen = set()
    for kind, c in components(engine):
        cls = type(c).__name__
        first = (kind, cls) not in seen
        seen.add((kind, cls))
        for alias in (ALIASES if first else [alias_m]):
            sk.evaluations += 1
            sk.count(f"component:{kind}")
            with_model = alias == alias_m
            with with_alias(fl, alias):
                text = repr(c)
                enc = fl.PythonExporter(formatted=False, encapsulated=True).to_string(c) if (first or with_model) else None
            rp = {"component": kind, "repr": text, "alias": alias}
            try:
                c2 = rebuild(fl, text, alias, False, False, None)
                c3 = rebuild(fl, enc, alias, True, False, None) if enc is not None else None
            except Exception as ex:
                sk.violation(f"pyrepr:{kind}-rebuild:{type(ex).__name__}", f"repr of a {kind} does not evaluate under alias {alias!r}: {text[:120]}: {type(ex).__name__}: {str(ex)[:120]}", rp)
                continue
            if c3 is not None and val_lit(fl, c3) != val_lit(fl, c2):
                sk.violation(f"pyrepr:{kind}-encapsulated", f"encapsulated export of a {kind} builds a different object than its repr under alias {alias!r}: {text[:120]}", rp)
            for cc in (c2, c3):
                if cc is None:
                    continue
                with with_alias(fl, alias):
                    r2 = repr(cc)
                if r2 != text:
                    sk.violation(f"pyrepr:{kind}-repr", f"repr of the rebuilt {kind} differs under alias {alias!r}: {text[:100]} -> {r2[:100]}", rp)
                if str(cc) != str(c):
                    sk.violation(f"pyrepr:{kind}-fll", f"FLL of the rebuilt {kind} differs under alias {alias!r}: {str(c)[:100]} -> {str(cc)[:100]}", rp)
                if kind == "rule" and not c.enabled and cc.enabled:
                    sk.f5_hits += 1
                    sk.violation("pyrepr:rule-enabled-lost", f"Rule.enabled=False is not exported: {text[:120]}", rp)
            if with_model:
                try:
                    e_plain = parse_expr(text)
                    d2 = val_lit(fl, c2)
                    enc_lit = "None"
                    if first and c3 is not None and val_lit(fl, c3) == d2:
                        enc_lit = enc_header(parse_module(enc), e_plain)
                    sk.cases_a.append((f"({cstr(alias)}, {val_lit(fl, c, engine)}, {expr_lit(e_plain)}, {d2}, {enc_lit})", ("A", kind, alias, text[:200])))
                except (Unparsable, DumpError, SyntaxError) as ex:
                    sk.broken.append(("correspondence", f"C15:unparsable-{kind}", f"{type(ex).__name__}: {ex}: {text[:300]}"))
    # the exporter's own entry points, including the None cases
    px = fl.PythonExporter(formatted=False)
    if px.norm(None) != "None" or px.activation(None) != "None" or px.defuzzifier(None) != "None":
        sk.violation("pyrepr:none-component", "PythonExporter.norm/activation/defuzzifier(None) is not 'None'", {})


def work_engine(job):
    """One engine, in a worker process: generation (from its own seed), direct oracle, model cases."""
    import random

    import fuzzylite as fl

    i, seed, with_model = job
    rng = random.Random(seed)
    sk = Sink()
    combos = [(a, m) for a in ALIASES for m in ("repr", "encapsulated")]
    try:
        engine, info = gen_engine(fl, rng)
        sk.count("engines:wild" if info["wild"] else "engines:sane")
        for t in all_terms(engine):
            sk.count("term:" + type(t).__name__)
        alias_m = ALIASES[i % len(ALIASES)]
        check_components(fl, sk, engine, alias_m)  # first: the engine has not been processed yet, every dump shows the freshly built state
        check_engine(fl, sk, engine, info, combos[i % len(combos)], alias_m)
    except Exception:
        import traceback

        sk.broken.append(("harness", "harness-crash", f"engine {i} seed {seed}: " + traceback.format_exc()))
    if not with_model:
        sk.cases_a, sk.cases_d = [], []
    return sk


# ----------------------------------------------------------------------------------------------- hand-made calls
def gen_variants(fl, rng, n: int):
    """Constructor calls that no __repr__ prints: (alias, tree).  Evaluated by Python and by the model's `eval`."""
    out = []
    F = lambda x: ("float", float(x))
    classes = {}
    for name in SHAPES + ["Constant", "Discrete", "Linear", "Function", "Aggregated", "Activated", "Variable", "InputVariable", "OutputVariable", "RuleBlock", "Rule",
                          "Antecedent", "Consequent", "Engine", "First", "Last", "Highest", "Lowest", "Threshold", "General", "Proportional", "WeightedAverage", "WeightedSum",
                          "Very", "NormFunction", "HedgeFunction"] + INTEGRAL + TNORMS[:2] + SNORMS[:2]:
        cls = getattr(fl, name)
        if cls.__init__ is object.__init__:
            classes[name] = []
        else:
            classes[name] = [(p.name, p.annotation if isinstance(p.annotation, str) else str(p.annotation), p.default is not p.empty)
                             for p in list(inspect.signature(cls.__init__).parameters.values())[1:]]

    def qual(alias, name):
        cls = getattr(fl, name)
        if alias == "":
            return cls.__module__.split(".") + [name]
        return ([] if alias == "*" else [alias]) + [name]

    def lib(alias, name):
        return (["fuzzylite", "library", name] if alias == "" else ([] if alias == "*" else [alias]) + [name])

    def fval(alias):
        k = rng.random()
        if k < 0.1:
            return ("name", lib(alias, "nan"))
        if k < 0.17:
            return ("name", lib(alias, "inf"))
        if k < 0.24:
            return ("neg", ("name", lib(alias, "inf")))
        if k < 0.3:
            return ("int", rng.choice([0, 1, -2, 7]))
        return F(any_finite(rng))

    def value(alias, ann, depth=0):
        if ann == "str":
            return ("str", rng.choice(STRING_POOL[:6]))
        if ann in ("float", "Scalar"):
            return fval(alias)
        if ann == "int":
            return ("int", rng.choice([0, 1, 2, 5]))
        if ann == "bool":
            return ("bool", rng.random() < 0.5)
        if ann == "int | None":
            return rng.choice([("none",), ("int", 0), ("int", 100), ("int", 1000)])
        if ann in ("TNorm | None",):
            return rng.choice([("none",), ("call", qual(alias, rng.choice(TNORMS[:2])), [], [])])
        if ann in ("SNorm | None",):
            return rng.choice([("none",), ("call", qual(alias, rng.choice(SNORMS[:2])), [], [])])
        if ann == "Activation | None":
            return rng.choice([("none",), ("call", qual(alias, "General"), [], []), ("call", qual(alias, "First"), [("int", 2)], [])])
        if ann == "Defuzzifier | None":
            return rng.choice([("none",), ("call", qual(alias, "Centroid"), [], []), ("call", qual(alias, "WeightedSum"), [("str", "TakagiSugeno")], [])])
        if ann in ("Antecedent | None", "Consequent | None"):
            return rng.choice([("none",), ("call", qual(alias, ann.split()[0]), [("str", "a is b")], [])])
        if ann == "Engine | None":
            return ("none",)
        if ann.startswith("Iterable["):
            inner = ann[len("Iterable["):ann.index("]")]
            if depth > 1 or rng.random() < 0.3:
                return rng.choice([("none",), ("list", [])])
            if inner == "Term":
                return ("list", [call(alias, rng.choice(["Triangle", "Ramp", "Constant", "Linear", "Function", "Discrete"]), depth + 1, clean=True) for _ in range(rng.choice([1, 2]))])
            if inner == "Activated":
                return ("list", [call(alias, "Activated", depth + 1, clean=True)])
            if inner == "Rule":
                return ("list", [("call", qual(alias, "Rule") + ["create"], [("raw", rng.choice(["if a is b then c is d", "if a is b then c is d with 0.500"]))], [])])
            return ("list", [call(alias, inner, depth + 1, clean=True) for _ in range(rng.choice([1, 2]))])
        if ann == "str | WeightedDefuzzifier.Type":
            return ("str", rng.choice(["Automatic", "TakagiSugeno", "Tsukamoto", "Bogus"]))
        if ann == "Comparator | str":
            return ("str", rng.choice(["<", "<=", "==", "!=", ">=", ">", "~"]))
        if ann == "dict[str, Scalar] | None":
            return rng.choice([("none",), ("dict", []), ("dict", [("k", F(2.5))]), ("dict", [("z", F(1.0)), ("a", F(any_finite(rng)))])])
        if ann == "Sequence[float] | None":
            return rng.choice([("none",), ("list", []), ("list", [F(any_finite(rng)) for _ in range(rng.choice([1, 2, 3]))])])
        if ann == "ScalarArray | Sequence[Floatable] | None":
            n_ = rng.choice([0, 2, 4, 3, 6])
            flat = ("list", [fval(alias) if rng.random() < 0.2 else F(any_finite(rng)) for _ in range(n_)])
            rowsv = ("call", lib(alias, "array"), [("list", [("call", lib(alias, "array"), [("list", [F(any_finite(rng)), F(any_finite(rng))])], []) for _ in range(rng.choice([0, 1, 3]))])], [])
            return rng.choice([("none",), flat, flat, rowsv])
        if ann == "Term":
            return call(alias, rng.choice(["Triangle", "Constant", "Ramp"]), depth + 1, clean=True)
        if ann == "Function":
            return ("call", qual(alias, "Function"), [("str", "f"), ("str", "a*b")], ([("load", ("bool", True))] if rng.random() < 0.5 else []))
        raise KeyError(ann)

    def call(alias, name, depth=0, clean=False):
        params = classes[name]
        chosen = [p for p in params if (not p[2]) or rng.random() < 0.7]
        # positional prefix: only while no parameter was skipped
        npos = 0
        for p in params:
            if npos < len(chosen) and chosen[npos][0] == p[0] and rng.random() < 0.6:
                npos += 1
            else:
                break
        pos = [value(alias, p[1], depth) for p in chosen[:npos]]
        kws = [(p[0], value(alias, p[1], depth)) for p in chosen[npos:]]
        rng.shuffle(kws)
        if not clean:
            k = rng.random()
            if k < 0.06:
                kws.append(("bogus", ("int", 1)))
            elif k < 0.1 and npos > 0:
                kws.append((chosen[0][0], pos[0]))  # multiple values for an argument
            elif k < 0.14:
                pos = pos + [("none",)] * (len(params) - npos + 1)  # too many positional arguments
                kws = []
            elif k < 0.17 and kws:
                kws.append(kws[0])  # keyword argument repeated
        if name == "Engine":
            # whether a rule loads depends on the engine's variables (the model takes it from `rule_ok`): hand-made engines carry
            # rules only in the dedicated branch below
            pos, kws = [strip_rules(x) for x in pos], [(k_, strip_rules(x)) for k_, x in kws]
            if rng.random() < 0.3:
                kws = [kw for kw in kws if kw[0] != "load"] + [("load", ("bool", False))]
        return ("call", qual(alias, name), pos, kws)

    def strip_rules(t):
        if t[0] == "list":
            return ("list", [strip_rules(x) for x in t[1]])
        if t[0] == "call" and t[1][-1] == "RuleBlock":
            return ("call", t[1], t[2][:7], [kv for kv in t[3] if kv[0] != "rules"])
        return t

    def engine_with_rules(alias):
        good = rng.random() < 0.6
        loadkw = rng.choice([[], [], [("load", ("bool", True))], [("load", ("bool", False))]])
        rules = [("call", qual(alias, "Rule") + ["create"], [("raw", "if a is b then c is d" + rng.choice(["", " with 0.500"]))], [])]
        if not good:
            rules.insert(rng.choice([0, 1]), ("call", qual(alias, "Rule") + ["create"], [("raw", "if nope is b then c is d")], []))
        terms_out = [("call", qual(alias, "Constant"), [("str", "d"), F(1.0)], []), ("call", qual(alias, "Linear"), [("str", "lin"), ("list", [F(1.0), F(2.0)])], []),
                     ("call", qual(alias, "Function"), [("str", "fn"), ("str", rng.choice(["a*b", "a*b", "1 +"]))], [])]
        return ("call", qual(alias, "Engine"), [("str", "e")],
                [("input_variables", ("list", [("call", qual(alias, "InputVariable"), [("str", "a")], [("terms", ("list", [("call", qual(alias, "Triangle"), [("str", "b"), F(0.0), F(1.0)], [])]))])])),
                 ("output_variables", ("list", [("call", qual(alias, "OutputVariable"), [], [("name", ("str", "c")), ("terms", ("list", terms_out[: rng.choice([1, 2, 3])]))])])),
                 ("rule_blocks", ("list", [("call", qual(alias, "RuleBlock"), [("str", "rb")], [("rules", ("list", rules))])]))] + loadkw)

    names = list(classes)
    for _ in range(n):
        alias = rng.choice(ALIASES)
        k = rng.random()
        if k < 0.12:  # shorthand constructors
            cls = rng.choice(["Triangle", "Trapezoid"])
            args = [("str", "t")] + [fval(alias) if rng.random() < 0.3 else F(any_finite(rng)) for _ in range(rng.choice([1, 2, 3, 4] if cls == "Trapezoid" else [1, 2, 3]))]
            out.append((alias, ("call", qual(alias, cls), args, ([("height", F(0.5))] if rng.random() < 0.3 else []))))
        elif k < 0.24:  # rule texts
            t = rng.choice(["if a is b then c is d", "if a is b then c is d with 0.500", "if a is b and e is very f then c is d and g is h with 0.250", "", "   ", "if", "if a is b",
                            "if a is b then", "if then c is d", "a is b then c is d", "if a is b then c is d with", "if a is b then c is d with abc", "if a is b then c is d with 0.500 extra",
                            "if a is b then c is d # with 0.500", "# all comment", "if  a   is b\tthen c is  d", "if a is b then c is d with 1e-3", "IF a is b then c is d",
                            "if a is b then c is d with with", "if a is b then then c is d", "if a is b then c is d with nan", "if if then with 2"])
            arg = ("raw", t) if rng.random() < 0.8 else ("str", t)
            tail = [("engine", ("none",))] if rng.random() < 0.1 else []
            out.append((alias, ("call", qual(alias, "Rule") + ["create"], [arg] if rng.random() < 0.8 else [], tail if rng.random() < 0.8 or tail else [("text", arg)])))
        elif k < 0.28:  # engines whose rules load or not
            out.append((alias, engine_with_rules(alias)))
        elif k < 0.34:  # unknown names
            out.append((alias, rng.choice([("call", qual(alias, "Triangle")[:-1] + ["Node"], [], []), ("name", ["nope", "inf"]), ("call", ["Triangle" if alias != "*" else "fl", "x"], [], []),
                                           ("call", lib(alias, "array"), [("list", [F(1.0), ("list", [])])], []), ("neg", ("str", "a")), ("call", lib(alias, "inf"), [], [])])))
        else:
            out.append((alias, call(alias, rng.choice(names))))
    return out


STRING_POOL = ["a", "", "x y", "it's", "in0 + 1", "1 +", "a*b", "f"]


def formula_errors(fl) -> dict:
    """Function.parse on the strings the hand-made calls use as formulas: formula -> model error kind (absent = parses)."""
    out = {}
    for f in STRING_POOL:
        try:
            fl.Function("f", f, load=True)
        except Exception as ex:
            out[f] = ERRKIND.get(type(ex).__name__, "EInternal")
    return out


def probe_arguments(fl):
    """The translated __init__ programs copy their list / dict arguments (`list(p or [])`, `p.copy()`) and compute a new
    degree (`nan_to_num`): a constructor must neither modify a mutable argument nor keep a reference to it.  Returns
    [(label, what, call)] for every disagreement (object identity is not part of the Coq model, so this is checked here)."""
    problems = []

    def snap(a):
        if isinstance(a, np.ndarray):
            return [bits(x) for x in a.ravel()]
        if isinstance(a, dict):
            return [(k, repr(v)) for k, v in a.items()]
        return [id(x) if hasattr(x, "__dict__") else repr(x) for x in a]

    def check(label, call, build, arg, mutate):
        before = snap(arg)
        obj = build(arg)
        if snap(arg) != before:
            problems.append((label, "modifies its argument", call))
        d1 = val_lit(fl, obj)
        mutate(arg)
        if val_lit(fl, obj) != d1:
            problems.append((label, "keeps a reference to its argument", call))

    t = lambda: fl.Constant("c", 1.0)
    check("Function.variables", "Function('f', 'k', variables=d); d['zz'] = 1.0", lambda d: fl.Function("f", "k", variables=d), {"k": 2.0}, lambda d: d.__setitem__("zz", 1.0))
    check("Linear.coefficients", "Linear('l', c); c.append(9.0)", lambda c: fl.Linear("l", c), [1.0, 2.0], lambda c: c.append(9.0))
    check("Discrete.values", "Discrete('d', xy); xy.extend([5.0, 6.0])", lambda xy: fl.Discrete("d", xy), [1.0, 2.0, 3.0, 4.0], lambda xy: xy.extend([5.0, 6.0]))
    for cls in ("Variable", "InputVariable", "OutputVariable"):
        check(f"{cls}.terms", f"{cls}('v', terms=ts); ts.append(term)", lambda ts, cls=cls: getattr(fl, cls)("v", terms=ts), [t()], lambda ts: ts.append(t()))
    check("Aggregated.terms", "Aggregated('a', terms=ts); ts.append(activated)", lambda ts: fl.Aggregated("a", terms=ts), [fl.Activated(t(), 0.5)], lambda ts: ts.append(fl.Activated(t(), 0.25)))
    check("RuleBlock.rules", "RuleBlock('rb', rules=rs); rs.append(rule)", lambda rs: fl.RuleBlock("rb", rules=rs), [fl.Rule.create("if a is b then c is d")], lambda rs: rs.append(fl.Rule.create("if a is b then c is e")))
    for param, mk in (("input_variables", lambda: fl.InputVariable("i")), ("output_variables", lambda: fl.OutputVariable("o")), ("rule_blocks", lambda: fl.RuleBlock("r"))):
        check(f"Engine.{param}", f"Engine('e', {param}=xs); xs.append(x)", lambda xs, param=param: fl.Engine("e", **{param: xs}), [mk()], lambda xs, mk=mk: xs.append(mk()))
    check("Activated.degree", "Activated(term, a) with a = array([nan, inf, -inf, 0.5]); a[3] = 0.25", lambda a: fl.Activated(t(), a), np.array([math.nan, math.inf, -math.inf, 0.5]), lambda a: a.__setitem__(3, 0.25))
    return problems


def eval_variant(fl, alias, tree):
    src = expr_src(tree)
    try:
        ns = fresh_namespace(fl, alias)
    except Exception as ex:  # the import statement itself is not valid (reported by the engine checks)
        return src, None, "import:" + type(ex).__name__
    try:
        with np.errstate(all="ignore"):
            v = eval(src, ns)
    except SyntaxError:
        return src, "(Err ESyntax)", None
    except Exception as ex:
        kind = ERRKIND.get(type(ex).__name__)
        return src, (f"(Err {kind})" if kind else None), type(ex).__name__
    try:
        return src, f"(Ok {val_lit(fl, v)})", None
    except DumpError as ex:
        return src, None, str(ex)


# ----------------------------------------------------------------------------------------------- Coq side
def coq_env(st, fl) -> str:
    wt = vlib.coq_list(f"({vlib.fhex(w)}, {cstr(fl.Op.str(float(w)))})" for w in st.weights.values())
    # float(token) for the tokens that occur
    toks = {fl.Op.str(float(w)) for w in st.weights.values()} | {"0.500", "0.250", "1e-3", "2", "nan"}
    pt = vlib.coq_list(f"({cstr(t)}, {vlib.fhex(float(t))})" for t in sorted(toks))
    pc = vlib.coq_list(f"({cstr(a)}, {cstr(b)})" for a, b in st.pascal.items())
    ft = vlib.coq_list(f"({cstr(f)}, {k})" for f, k in formula_errors(fl).items())
    return f"""From VF Require Import Core GenSignatures PyRepr.
Import ListNotations.
Local Open Scope string_scope.
Local Open Scope list_scope.
Definition NF : Num float := NumF true [].
Definition fmt_tbl : list (float * string) := {wt}.
Definition parse_tbl : list (string * float) := {pt}.
Definition pascal_tbl : list (string * string) := {pc}.
Fixpoint lookup_fmt (t : list (float * string)) (x : float) : string :=
  match t with [] => "?" | (y, s) :: tl => if fsame x y then s else lookup_fmt tl x end.
Definition formula_tbl : list (string * err) := {ft}.
Definition E : penv float := {{|
  reparse := fun x => x;
  fmt_w := lookup_fmt fmt_tbl;
  parse_w := fun s => assoc s parse_tbl;
  formula_err := fun f => assoc f formula_tbl;
  rule_ok := fun _ _ a c => negb (String.eqb a "nope is b");
  pascal_case := fun s => match assoc s pascal_tbl with Some p => p | None => "?" end;
  atol := {vlib.fhex(fl.settings.atol)}; rtol := {vlib.fhex(fl.settings.rtol)} |}}.
Definition veq := pyval_eqb fsame.
Definition eeq := pyexpr_eqb fsame.
Definition header : Type := (pystmt float * (string * string + string * list string))%type.
Definition check_a (c : string * pyval float * pyexpr float * pyval float * option header) : bool :=
  let '(al, v, e, v2, enc) := c in let a := alias_of al in
  result_eqb eeq (@repr float NF E a v) (Ok e) && result_eqb veq (@eval float NF E a e) (Ok v2) && result_eqb veq (@normalize float NF E v) (Ok v2)
  && match enc with
     | None => true
     | Some (imp, hd) =>
         let m := [imp; match hd with inl (n, at_) => SClassInit n at_ e | inr (f, ann) => SDefReturn f ann e end] in
         result_eqb (list_eqb (pystmt_eqb fsame)) (@encapsulate float NF E a v) (Ok m) && result_eqb veq (@run_module float NF E m) (Ok v2)
     end.
Definition check_d (c : string * pyval float * pyexpr float * header) : bool :=
  let '(al, v, e, (imp, hd)) := c in let a := alias_of al in
  let m := [imp; match hd with inl (n, at_) => SClassInit n at_ e | inr (f, ann) => SDefReturn f ann e end] in
  result_eqb eeq (@repr float NF E a v) (Ok e) && result_eqb (list_eqb (pystmt_eqb fsame)) (@encapsulate float NF E a v) (Ok m)
  && result_eqb veq (@run_module float NF E m) (Err EInternal).
Definition check_c (c : string * pyexpr float * result (pyval float)) : bool :=
  let '(al, e, want) := c in result_eqb veq (@eval float NF E (alias_of al) e) want.
"""


def run(ctx, build, verdict, ev):
    if vlib.pins_changed():
        ctx.source_changed = True  # a hand-modelled function of the representation machinery was edited: search deeper

    import multiprocessing

    import fuzzylite as fl

    rng = ctx.rng
    n_engines = ctx.n(200, 4000)
    # the model (Coq) cases are collected for the first engines only: a deepened quick run (edited sources) searches with the
    # direct oracle on 5x more engines, the Coq evaluation keeps its size (and its time on a loaded machine)
    model_engines = 200 if ctx.tier == "quick" else 1500
    jobs = [(i, rng.getrandbits(64), i < model_engines) for i in range(n_engines)]
    with multiprocessing.get_context("fork").Pool(min(vlib.NPROC, 12)) as pool:
        sinks = pool.map(work_engine, jobs, chunksize=4)
    st = Sink()
    cases_a, cases_b, index_a, index_b, samples = [], [], [], [], []
    for sk in sinks:
        st.evaluations += sk.evaluations
        st.oracle_violations += sk.oracle_violations
        st.nontrivial += sk.nontrivial
        st.f5_hits += sk.f5_hits
        st.shadow_hits += sk.shadow_hits
        for k, v in sk.dist.items():
            st.count(k, v)
        for k, v in sk.formatted.items():
            st.formatted[k] += v
        st.weights.update(sk.weights)
        st.pascal.update(sk.pascal)
        for sig, what, rp in sk.violations:
            verdict.add_violation(sig, what, rp)
        for kind, name, detail in sk.broken:
            verdict.add_broken(kind, name, detail)
        cases_a += [c for c, _ in sk.cases_a]
        index_a += [x for _, x in sk.cases_a]
        cases_b += [c for c, _ in sk.cases_d]
        index_b += [x for _, x in sk.cases_d]
        if sk.sample and len(samples) < 3:
            samples.append(sk.sample)

    # ---- hand-made constructor calls
    variants = gen_variants(fl, rng, ctx.n(600, 8000))
    cases_c, index_c = [], []
    unknown_exc = {}
    for alias, tree in variants:
        src, want, note = eval_variant(fl, alias, tree)
        st.evaluations += 1
        if want is None:
            unknown_exc[note] = unknown_exc.get(note, 0) + 1
            continue
        st.count("variant:" + ("ok" if want.startswith("(Ok") else want[5:-1]))
        cases_c.append(f"({cstr(alias)}, {expr_lit(tree)}, {want})")
        index_c.append(("C", alias, src[:300], want[:200]))
    if unknown_exc:
        st.dist["variant:skipped-unmapped-exception"] = sum(unknown_exc.values())
    for label, what, call in probe_arguments(fl):
        verdict.add_broken("correspondence", f"C15:constructor-argument:{label}", f"the constructor {what} (the translated __init__ program copies it): {call}")
    st.count("probe:constructor-arguments", 12)

    mism = []
    if not build.translation_errors:
        groups = [("string * pyval float * pyexpr float * pyval float * option header", "check_a", cases_a),
                  ("string * pyval float * pyexpr float * header", "check_d", cases_b),
                  ("string * pyexpr float * result (pyval float)", "check_c", cases_c)]
        bad, log = vlib.run_coq_cases(ctx.work, "c15", coq_env(st, fl), groups, chunk=(100 if ctx.tier == "quick" else 200), timeout=2400)
        index = index_a + index_b + index_c
        for k in bad:
            if k < 0:
                verdict.add_broken("correspondence", "C15:coq-evaluation", log)
                break
            mism.append(index[k])
        if mism:
            verdict.add_broken("correspondence", f"PyRepr model vs implementation ({mism[0][0]}:{mism[0][1]})", f"model and implementation differ on {len(mism)} cases, first: {mism[:4]}")
    c = ev["coverage"]
    c["evaluations"] = st.evaluations + len(cases_a) + len(cases_b) + len(cases_c)
    c["distinct_nontrivial"] = st.nontrivial
    c["rule"] = ("random engines built with the public constructors (40% with arbitrary finite doubles / +-inf as term parameters and NaN/inf ranges and defaults, 60% with terms inside the "
                 "variable's range), every term/norm/defuzzifier/activation class, descriptions with quotes/backslashes/non-ASCII, rule weights on the decimals grid; each engine exported under "
                 "4 aliases x {repr, encapsulated} unformatted plus one black-formatted combination (rotating), rebuilt in a fresh namespace; every component likewise; "
                 "non-trivial = engines whose 8-row output comparison ran (representable, no disabled rule) and produced at least one non-NaN output")
    c["distribution"] = dict(sorted(st.dist.items()))
    c["engines"] = n_engines
    c["model_cases"] = {"repr_eval_normalize": len(cases_a), "of_which_with_encapsulated_module": sum(1 for x in cases_a if not x.endswith(", None)")), "shadowed_class_name_cases": len(cases_b), "constructor_variants": len(cases_c)}
    c["formatted"] = st.formatted
    c["correspondence_mismatches"] = len(mism)
    c["oracle_violations"] = st.oracle_violations
    c["known_finding_hits_F5"] = st.f5_hits
    c["known_finding_hits_class_name_shadow"] = st.shadow_hits
    c["samples"] = samples
    ev["assumptions"] += [
        "A-py: Python's parser/eval, reprlib, keyword binding and black are trusted; the model is about call trees (the implementation's text is parsed with Python's ast)",
        "A-fmt: repr(float) round-trips through Python's parser (checked empirically: rebuilt parameters are compared bit for bit), Op.str/float() results for rule weights are taken from the implementation",
        "Function.parse and Rule.load are abstract predicates of the model (generated formulas and rules load)",
        "hand-modelled functions (as_constructor, construction_arguments, repr_float, repr_ndarray, package_of, Rule.parse/create/text, Engine load loop, ...) are pinned by source hash in tools/translate_signatures.py",
    ]


def replay(ctx, data):
    import fuzzylite as fl

    for v in data.get("violations", []):
        print(v["signature"], "-", v["what"])
        r = v["replay"]
        if "engine_repr_fl" in r:
            e = eval(r["engine_repr_fl"], {"fl": fl})
            for i, j in r.get("disabled_rules", []):
                e.rule_blocks[i].rules[j].enabled = False
            alias, mode = r["alias"], r["mode"]
            with with_alias(fl, alias):
                text = fl.PythonExporter(formatted=r.get("formatted", False), encapsulated=(mode == "encapsulated")).to_string(e)
                try:
                    e2 = rebuild(fl, text, alias, mode == "encapsulated", True, fl.Op.pascal_case(e.name))
                    print("  now: repr equal:", repr(e2) == repr(e), " FLL equal:", str(e2) == str(e),
                          " enabled flags:", [[x.enabled for x in rb.rules] for rb in e.rule_blocks], "->", [[x.enabled for x in rb.rules] for rb in e2.rule_blocks])
                    rows = [[float(x) for x in row] for row in r["rows"]]
                    print("  outputs:", run_rows(e, rows)[:3], "vs", run_rows(e2, rows)[:3])
                except Exception as ex:
                    print("  now:", type(ex).__name__, ex)
        elif "repr" in r:
            print("  text:", r["repr"][:300])
    for b in data.get("broken", []):
        print("BROKEN", b["kind"], b["name"], "\n", b["detail"][:1500])
    return 0
