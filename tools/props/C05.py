"""C05 — hedges compute their formulas and keep degrees in [0,1]."""
from __future__ import annotations

import math
from fractions import Fraction

import numpy as np

import vlib

HEDGES = ["Any", "Extremely", "Not", "Seldom", "Somewhat", "Very"]
COQ_TARGETS = ["Proofs/HedgeR.vo"]


def doc(name, x):
    if name == "Any":
        return 1.0
    if name == "Extremely":
        return 2 * x * x if x <= 0.5 else 1 - 2 * (1 - x) * (1 - x)
    if name == "Not":
        return 1 - x
    if name == "Seldom":
        return math.sqrt(x / 2) if x <= 0.5 else 1 - math.sqrt((1 - x) / 2)
    if name == "Somewhat":
        return math.sqrt(x)
    if name == "Very":
        return x * x
    raise KeyError(name)


def inputs(ctx):
    g = ctx.n(1024, 8192)
    grid = [i / g for i in range(g + 1)]
    rnd = [ctx.rng.random() for _ in range(ctx.n(2000, 40000))]
    near = []
    for c in (0.5, 0.25, 0.0, 1.0, 0.125, 0.75):
        x = c
        for _ in range(4):
            x = math.nextafter(x, -math.inf)
        for _ in range(9):
            if 0.0 <= x <= 1.0:
                near.append(x)
            x = math.nextafter(x, math.inf)
    special = vlib.SPECIALS + [5e-324, 2.0, -1.0, 1e308]
    return grid, rnd, near, special


def run(ctx, build, verdict, ev):
    import fuzzylite as fl

    obs = vlib.observed_module("hedge")
    grid, rnd, near, special = inputs(ctx)
    xs = grid + rnd + near + special
    groups, index = [], []
    clone_diff = 0
    oracle_entries = 0
    for name in HEDGES:
        real = getattr(fl, name)()
        clone = getattr(obs, name)()
        lits = []
        for x in xs:
            with np.errstate(all="ignore"):
                try:
                    raw = real.hedge(x)
                except Exception as ex:  # noqa  (a hedge never raises on a float)
                    verdict.add_violation(f"{name}:exception", f"{name}.hedge({x!r}) raises {type(ex).__name__}: {ex}", {"hedge": name, "x": x})
                    continue
                if np.shape(raw) != ():
                    verdict.add_violation(f"{name}:scalar-shape", f"{name}.hedge({x!r}) returns shape {np.shape(raw)} for a scalar argument", {"hedge": name, "x": x})
                    raw = np.asarray(raw).ravel()[0] if np.size(raw) else math.nan
                r = float(raw)
                vlib.RECORDER.reset()
                rc = float(np.asarray(clone.hedge(x)).ravel()[0])
                tbl = vlib.RECORDER.take()
            if not vlib.same_float(r, rc):
                clone_diff += 1
            oracle_entries += len(tbl)
            lits.append(f"({vlib.fhex(x)}, {vlib.fhex(r)}, true, {vlib.oracle_lit(tbl)})")
            index.append((name, "scalar", x, r))
        arr = np.array(rnd[: ctx.n(400, 4000)] + near + special)
        keep = arr.copy()
        with np.errstate(all="ignore"):
            rr = np.asarray(real.hedge(arr))
            r2 = np.asarray(real.hedge(arr.reshape(1, -1)))
        if not all(vlib.same_float(a, b) for a, b in zip(arr, keep)):
            verdict.add_violation(f"{name}:argument-overwritten", f"{name}.hedge(array) modifies its argument in place", {"hedge": name})
            arr = keep.copy()
        if rr.shape != arr.shape or r2.shape != (1, arr.size):
            verdict.add_violation(f"{name}:array-shape", f"{name}.hedge changes the shape of an array argument: {arr.shape} -> {rr.shape}, (1,{arr.size}) -> {r2.shape}", {"hedge": name})
            rr = np.resize(rr, arr.shape)
            r2 = np.resize(r2, (1, arr.size))
        for x, r, q in zip(arr, rr, r2[0]):
            if not vlib.same_float(r, q):
                verdict.add_violation(f"{name}:array-2d", f"{name}.hedge differs between 1-d and 2-d array at {x}", {"hedge": name, "x": float(x)})
            lits.append(f"({vlib.fhex(x)}, {vlib.fhex(r)}, false, [])")
            index.append((name, "array", float(x), float(r)))
        # elementwise on arrays: the array result equals the scalar results bit for bit (a float path through libm pow and an
        # array path through an exact square differ in about 1 of 1000 inputs)
        probe = np.array([ctx.rng.random() for _ in range(ctx.n(3000, 40000))])
        with np.errstate(all="ignore"):
            pa = np.asarray(real.hedge(probe), dtype=float)
            for x, a in zip(probe, pa):
                try:
                    r = float(real.hedge(float(x)))
                except Exception:  # noqa (reported by the scalar stream above)
                    break
                if not vlib.same_float(r, float(a)):
                    verdict.add_violation(f"{name}:array-vs-scalar", f"{name}.hedge: array evaluation {float(a)!r} differs from scalar evaluation {r!r} at x={float(x)!r}", {"hedge": name, "x": float(x), "scalar": r, "array": float(a)})
                    break
        try:
            with np.errstate(all="ignore"):
                lst = [float(v) for v in probe[:6]]
                got = np.asarray(real.hedge(lst), dtype=float)
                want = [float(real.hedge(v)) for v in lst]
            if got.shape != (len(lst),) or not all(vlib.same_float(g, w) for g, w in zip(got, want)):
                verdict.add_violation(f"{name}:list-argument", f"{name}.hedge(list) is not the elementwise result", {"hedge": name, "x": lst})
        except Exception as ex:  # noqa
            verdict.add_violation(f"{name}:list-argument", f"{name}.hedge(list) raises {type(ex).__name__}: {ex}", {"hedge": name, "x": lst})
        checker = f"fun c => let '(x, e, m, t) := c in feq (@{name}_hedge float (NumF m t) x) e"
        groups.append(("float * float * bool * oracle", checker, lits))
    if clone_diff:
        verdict.add_broken("harness", "observer-clone", f"observer clone of hedge.py disagrees with the real module on {clone_diff} inputs")
    bad, log = ([], "") if build.translation_errors else vlib.run_coq_cases(ctx.work, "c05", "From VF Require Import GenHedge.", groups, chunk=1500)
    mism = []
    for i in bad:
        if i < 0:
            verdict.add_broken("correspondence", "C05:coq-evaluation", log)
            break
        mism.append(index[i])
    if mism:
        verdict.add_broken("correspondence", f"hedge kernel {mism[0][0]} ({mism[0][1]} mode)", f"model and implementation differ on {len(mism)} cases, first: {mism[:5]}")
    nviol = oracle(ctx, verdict, fl, grid + near)
    import floatlaws  # exact (tolerance-free) oracles: exactly the binary64-level theorems of Properties/C05b.v

    fx = floatlaws.hedges(ctx, verdict, fl)
    nviol += fx["exact_float_law_violations"]
    c = ev["coverage"]
    c["exact_float_law_checks"] = fx["exact_float_law_checks"]
    c["exact_float_laws"] = fx
    c["evaluations"] = len(index)
    c["distinct_nontrivial"] = len({(n, x) for n, _, x, r in index if r == r and 0 < r < 1})
    c["rule"] = ("every hedge x (exhaustive dyadic grid k/%d, random doubles, the branch point 0.5 and fix points with 4 float neighbours each side, special values) "
                 "in scalar mode (libm pow results recorded by an observer clone) and array mode; non-trivial = distinct (hedge,x) with result strictly in (0,1)" % ctx.n(1024, 8192))
    c["distribution"] = {"grid": len(grid), "random": len(rnd), "near_breakpoints": len(near), "special": len(special), "oracle_entries": oracle_entries}
    c["correspondence_mismatches"] = len(mism)
    c["oracle_violations"] = nviol
    c["samples"] = [dict(hedge=n, mode=m, x=x, result=r) for n, m, x, r in index[:: max(1, len(index) // 6)][:6]]
    ev["assumptions"] += ["libm pow(x, 2) results are taken from the implementation (oracle table), sqrt is IEEE-exact in Coq's PrimFloat"]


def oracle(ctx, verdict, fl, xs):
    n = 0
    tol = 1e-12
    H = {name: getattr(fl, name)() for name in HEDGES}
    f = {name: (lambda x, h=h: float(h.hedge(x))) for name, h in H.items()}
    xs = sorted(set(xs))
    prev = {name: None for name in HEDGES}
    for x in xs:
        for name in HEDGES:
            r = f[name](x)
            want = doc(name, x)
            if not abs(r - want) <= tol:
                verdict.add_violation(f"{name}:formula", f"{name}.hedge({x}) = {r}, documented {want}", {"hedge": name, "x": x, "got": r, "want": want}); n += 1
            if not (-tol <= r <= 1 + tol):
                verdict.add_violation(f"{name}:range", f"{name}.hedge({x}) = {r} outside [0,1]", {"hedge": name, "x": x, "got": r}); n += 1
            p = prev[name]
            if p is not None:
                if name == "Not" and r > p + tol:
                    verdict.add_violation("Not:antitone", f"not is not antitone at {x}", {"hedge": name, "x": x}); n += 1
                if name != "Not" and r < p - tol:
                    verdict.add_violation(f"{name}:mono", f"{name} is not monotone at {x}: {p} then {r}", {"hedge": name, "x": x}); n += 1
            prev[name] = r
        if not (f["Very"](x) <= x + tol and x <= f["Somewhat"](x) + tol):
            verdict.add_violation("order", f"very(x) <= x <= somewhat(x) fails at {x}", {"x": x}); n += 1
        for a, b in (("Very", "Somewhat"), ("Somewhat", "Very"), ("Extremely", "Seldom"), ("Seldom", "Extremely"), ("Not", "Not")):
            y = f[a](f[b](x))
            if abs(y - x) > 1e-7:  # sqrt amplifies rounding next to 0: |sqrt(x+e)^2 ...|; generous on purpose
                verdict.add_violation(f"inverse:{a}.{b}", f"{a}({b}({x})) = {y}", {"outer": a, "inner": b, "x": x, "got": y}); n += 1
    for name in HEDGES:
        e0, e1 = (1.0, 0.0) if name == "Not" else ((1.0, 1.0) if name == "Any" else (0.0, 1.0))
        if f[name](0.0) != e0 or f[name](1.0) != e1:
            verdict.add_violation(f"{name}:fixpoints", f"{name}(0)={f[name](0.0)}, {name}(1)={f[name](1.0)}", {"hedge": name}); n += 1
    return n


def replay(ctx, data):
    import fuzzylite as fl

    for v in data.get("violations", []):
        print(v["what"])
        r = v["replay"]
        if "hedge" in r and "x" in r:
            print("  now:", getattr(fl, r["hedge"])().hedge(r["x"]))
    for b in data.get("broken", []):
        print("BROKEN", b["kind"], b["name"], "\n", b["detail"][:1500])
    return 0
