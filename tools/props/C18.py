"""C18 — FuzzyLite Dataset export is a faithful tabulation of the engine (`FldExporter`, exporter.py:537-805; `Op.increment`).

(a) grid shape, exhaustive: v x n = 1..4 x both scopes on a cheap real engine with n inputs, `FldExporter.write` replaced on a
    subclass instance so that only the matrix built by `write_from_scope` is captured.  Number of rows, distinct values per
    input, first/last row and a sequential checksum of the whole matrix are compared with Model/Fld.v evaluated in Coq
    (given `int(round(pow(v, 1.0/n)))` as Python computes it; the model runs the two integer correction loops) and -- direct oracle -- with the documented k = largest integer with
    k^n <= v computed with integers, the lexicographic order, equidistance and end points.
(b) whole exports: engines (shipped examples and generated ones, 1-4 inputs, 1-4 outputs) x v x scope x switches x separators
    x decimals x active subsets: the text is compared byte for byte with the model (fmt = a table float -> "%.<d>f" built
    with Python's own formatting, outputs = the engine's batch outputs, accepted only if the model built bit-identical
    inputs); the direct oracle re-derives every row: inputs from exact rational grid points, outputs by sequential scalar
    processing on a deep copy of the engine.
(c) reader contents with comments, blank lines, surrounding whitespace, skipped lines, extra columns and the error cases.
(d) engine pipeline (Model/FldEngine.v, C18b): small General-activation engines from enginelib (1-3 inputs, small grids, sometimes
    holding state from an earlier run): the Coq side computes the numeric matrix from the ENGINE model (restart, clipping
    setter, vectorised process of Model/Batch.v, getters, hstack) and the whole text; compared with the matrix the
    implementation hands to numpy.savetxt (captured on a harness subclass) and with the exported text.
"""
from __future__ import annotations

import copy
import io
import itertools
import math
from fractions import Fraction

import numpy as np

import vlib

COQ_TARGETS = ["Proofs/FldProofs.vo", "Proofs/FldEngineProofs.vo", "Model/Observe.vo", "Model/EngineF.vo"]
RANGES = [(-1.5, 2.25), (0.0, 1.0), (10.0, 20.0), (-3.0, -1.0)]
RANGES_DESC = [(1.0, 0.0), (2.25, -1.5), (20.0, 10.0), (-1.0, -3.0)]  # minimum > maximum: the grid runs downwards from minimum to maximum
RANGES_MIXED = [(2.0, 2.0), (1.0, 0.0), (0.0, 1.0), (-3.0, -3.0)]  # zero-width, descending, ascending
SEPARATORS = [" ", ",", ", ", "\t", ";", " | ", "  "]
DECIMALS = [0, 1, 2, 3, 3, 3, 4, 6, 9]

PRELUDE = r"""From Coq Require Import Ascii.
From VF Require Import Core Fld.
Import ListNotations.
Local Open Scope Z_scope.
Definition NF : Num float := NumF true [].
Definition frow_eq (a b : list float) : bool :=
  Nat.eqb (List.length a) (List.length b) && forallb (fun xy => fsame (fst xy) (snd xy)) (combine a b).
Definition fmat_eq (a b : list (list float)) : bool :=
  Nat.eqb (List.length a) (List.length b) && forallb (fun xy => frow_eq (fst xy) (snd xy)) (combine a b).
Fixpoint flook (tbl : list (float * string)) (x : float) : string :=
  match tbl with [] => "?"%string | (k, s) :: tl => if fsame k x then s else flook tl x end.
Fixpoint slook (tbl : list (string * option float)) (s : string) : option float :=
  match tbl with [] => None | (k, v) :: tl => if String.eqb k s then v else slook tl s end.
Definition res_eq (a b : result string) : bool :=
  match a, b with Ok x, Ok y => String.eqb x y | Err e, Err f => err_eqb e f | _, _ => false end.
Definition str (l : list N) : string := string_of_list_ascii (map ascii_of_N l).
Definition ranges : list (float * float) := RANGES_.
Definition shape_engine (n : nat) : engine float :=
  fld_engine (map (fun ab => fld_input EmptyString (fst ab) (snd ab) false PrimFloat.nan) (firstn n ranges)) [].
Definition checksum (m : list (list float)) : float := fold_left (fun acc r => fold_left PrimFloat.add r acc) m 0%float.
Definition sc_of (b : bool) : scope := if b then AllVariables else EachVariable.
Definition shape_check (c : bool * Z * nat * Z * (Z * Z * list float * list float * float)) : bool :=
  let '(sc, v, n, p, (rows, kobs, f, l, chk)) := c in
  match resolution (fun _ _ => p) (sc_of sc) v n,
        @scope_inputs float NF (fun _ _ => p) (sc_of sc) v (shape_engine n) (fun _ => true) with
  | Ok res, Ok m => Z.eqb (Z.of_nat (List.length m)) rows && Z.eqb (values_per_input res) kobs
                    && frow_eq (hd [] m) f && frow_eq (last m []) l && fsame (checksum m) chk
  | _, _ => false
  end.
Definition shape_engine_r (rs : list (float * float)) : engine float :=
  fld_engine (map (fun ab => fld_input EmptyString (fst ab) (snd ab) false PrimFloat.nan) rs) [].
Definition shape_var_check (c : list (float * float) * (bool * Z * Z * (Z * Z * list float * list float * float))) : bool :=
  let '(rs, (sc, v, p, (rows, kobs, f, l, chk))) := c in
  let n := List.length rs in
  match resolution (fun _ _ => p) (sc_of sc) v n,
        @scope_inputs float NF (fun _ _ => p) (sc_of sc) v (shape_engine_r rs) (fun _ => true) with
  | Ok res, Ok m => Z.eqb (Z.of_nat (List.length m)) rows && Z.eqb (values_per_input res) kobs
                    && frow_eq (hd [] m) f && frow_eq (last m []) l && fsame (checksum m) chk
  | _, _ => false
  end.
Definition edge_check (c : bool * Z * nat * Z * Z) : bool :=
  let '(sc, v, n, p, expect) := c in
  match @scope_inputs float NF (fun _ _ => p) (sc_of sc) v (shape_engine n) (fun _ => true) with
  | Ok m => Z.eqb (Z.of_nat (List.length m)) expect
  | Err EValue => Z.eqb expect (-1)
  | Err EInternal => Z.eqb expect (-2)
  | Err _ => false
  end.
Definition res_is (r : result Z) (z : Z) : bool := match r with Ok x => Z.eqb x z | Err _ => false end.
Definition kroot_check (c : Z * nat * Z) : bool :=
  let '(v, n, k) := c in
  Z.eqb (kroot v n) k &&
  forallb (fun p => res_is (resolution (fun _ _ => p) AllVariables v n) (k - 1)) [k - 1; k; k + 1; 1; 0; 2 * k + 3].
Definition mk_engine (ins : list (string * float * float * bool * float)) (outs : list string) : engine float :=
  fld_engine (map (fun i => let '(nm, a, b, lk, v) := i in fld_input nm a b lk v) ins)
             (map (fun nm => fld_output nm PrimFloat.nan) outs).
Definition outs_of (rin rout ins : list (list float)) : list (list float) := if fmat_eq ins rin then rout else [].
Definition mk_x (x : string * bool * bool * bool) : exporter :=
  let '(sep, h, xi, xo) := x in {| x_separator := sep; x_headers := h; x_inputs := xi; x_outputs := xo |}.
Definition scope_check (c : list (string * float * float * bool * float) * list string * (string * bool * bool * bool)
                            * (bool * Z * Z * list bool) * list (float * string)
                            * (list (list float) * list (list float)) * result string) : bool :=
  let '(ins, outs, x, (sc, v, p, act), ftbl, (rin, rout), expect) := c in
  res_eq (@write_from_scope float NF (fun _ _ => p) (flook ftbl) (outs_of rin rout) (mk_x x) (mk_engine ins outs)
            v (sc_of sc) (fun i => nth i act true)) expect.
Definition reader_check (c : list (string * float * float * bool * float) * list string * (string * bool * bool * bool)
                             * (string * Z) * list (string * option float) * list (float * string)
                             * (list (list float) * list (list float)) * result string) : bool :=
  let '(ins, outs, x, (text, skip), ptbl, ftbl, (rin, rout), expect) := c in
  res_eq (@write_from_reader float NF (flook ftbl) (outs_of rin rout) (slook ptbl) (mk_x x) (mk_engine ins outs) text skip) expect.
"""


# --------------------------------------------------------------------------- small helpers
def kroot(v: int, n: int) -> int:
    """the documented root: the largest k with k**n <= v (integers only)"""
    k = 0
    while (k + 1) ** n <= v:
        k += 1
    return k


def cbool(b) -> str:
    return "true" if b else "false"


def cstr(s: str) -> str:
    if all((32 <= ord(ch) < 127) or ch in "\n\t" for ch in s):
        return vlib.coq_string(s) + "%string"
    return "(str " + vlib.coq_list(f"{b}%N" for b in s.encode("latin-1")) + ")"


def crow(r) -> str:
    return vlib.coq_list(vlib.fhex(float(x)) for x in r)


def cmat(m) -> str:
    return vlib.coq_list(crow(r) for r in m)


def fmt_num(x: float, d: int) -> str:
    return "%.*f" % (d, float(x))


def perfect_powers(limit: int) -> set[int]:
    s = set()
    for n in (2, 3, 4):
        k = 2
        while k**n <= limit:
            for d in (-1, 0, 1):
                if 1 <= k**n + d <= limit:
                    s.add(k**n + d)
            k += 1
    return s


# --------------------------------------------------------------------------- (a) grid shape
def shape_engine(fl, n, ranges=None):
    return fl.Engine(name=f"shape{n}", input_variables=[fl.InputVariable(name=f"i{j}", minimum=a, maximum=b) for j, (a, b) in enumerate((ranges or RANGES)[:n])])


def make_capture(fl):
    class Capture(fl.FldExporter):
        """`write` replaced on the harness's own subclass: keeps the matrix write_from_scope built, runs no engine"""

        def write(self, engine, writer, input_values):  # noqa: D102
            self.captured = np.array(input_values, dtype=float)

    return Capture()


def py_checksum(m: np.ndarray) -> float:
    s = 0.0
    for x in m.ravel().tolist():
        s += x
    return s


def grid_content_ok(m: np.ndarray, counts: list[int], rng_: list[tuple[float, float]]) -> str | None:
    """direct oracle on a captured matrix: lexicographic (last input fastest), equidistant min..max per input"""
    n = m.shape[1]
    total = 1
    for c in counts:
        total *= c
    if m.shape[0] != total:
        return f"{m.shape[0]} rows for per-input counts {counts}"
    idx = np.indices(counts).reshape(n, -1).T if n else np.zeros((1, 0))
    for j in range(n):
        a, b = rng_[j]
        k = counts[j]
        col = a + idx[:, j] * ((b - a) / (k - 1)) if k > 1 else np.full(total, a)
        if not np.allclose(m[:, j], col, rtol=1e-12, atol=1e-12):
            r = int(np.argmax(~np.isclose(m[:, j], col, rtol=1e-12, atol=1e-12)))
            return f"input {j}, row {r}: {m[r, j]} instead of {col[r]} (index vector {idx[r].tolist()})"
        if k > 1 and not (m[0, j] == a and abs(m[-1, j] - b) <= 1e-12 * max(1.0, abs(b))):
            return f"input {j}: end points {m[0, j]}, {m[-1, j]} instead of {a}, {b}"
    return None


def export_call(verdict, stats, what, replay, fn):
    """Run one call of the exporter on an input INSIDE the property's quantifier (well-formed engine with 1-4 inputs,
    v = 1..2000): an exception raised by the implementation is a concrete violation, not a harness crash."""
    try:
        return True, fn()
    except Exception as ex:  # noqa
        verdict.add_violation("fld:export-raises", f"{what} raises {type(ex).__name__}: {ex}", replay)
        stats["oracle_violations"] += 1
        stats["export_raises"] += 1
        return False, None


def shape_engine_fll(fl, n, ranges=None):
    """the same engine as shape_engine, imported from FLL: its ranges are numpy.float64, not Python floats"""
    L = [f"Engine: shape{n}"]
    for j, (a, b) in enumerate((ranges or RANGES)[:n]):
        L += [f"InputVariable: i{j}", "  enabled: true", f"  range: {a!r} {b!r}", "  lock-range: false"]
    return fl.FllImporter().from_string("\n".join(L) + "\n")


def floatify(engine):
    """ranges as plain Python floats (what an engine built directly in Python has)"""
    for var in list(engine.input_variables) + list(engine.output_variables):
        var.minimum, var.maximum = float(var.minimum), float(var.maximum)
    return engine


def shape_part(ctx, fl, verdict, stats):
    S = fl.FldExporter.ScopeOfValues
    cap = make_capture(fl)
    vmax = 2000
    vs = sorted(set(range(1, 301)) | perfect_powers(vmax)) if ctx.tier == "quick" else list(range(1, vmax + 1))
    each_limit = ctx.n(4096, 20000)
    lits, index, klits = [], [], []
    root_bad = []
    for n in range(1, 5):
        eng = shape_engine(fl, n)
        for v in vs:
            k_doc = kroot(v, n)
            klits.append(f"({v}, {n}%nat, {k_doc})")
            for sc in (S.AllVariables, S.EachVariable):
                is_all = sc == S.AllVariables
                if not is_all and v**n > each_limit:
                    stats["each_skipped_too_large"] += 1
                    continue
                ok, _ = export_call(verdict, stats, f"FldExporter.write_from_scope(engine with {n} inputs (float ranges {RANGES[:n]}), writer, values={v}, scope={sc.name})",
                                    {"kind": "raises", "v": v, "n": n, "all": is_all, "ranges": "float"}, lambda: cap.write_from_scope(eng, io.StringIO(), v, sc))
                if not ok:
                    continue
                m = cap.captured
                p = int(round(pow(v, 1.0 / n)))  # the same expression as exporter.py (start of the integer correction loops)
                kobs = [len(set(m[:, j].tolist())) for j in range(n)]
                want = k_doc if is_all else v
                stats["shape_cases"] += 1
                stats["keys"].add(("shape", is_all, v, n))
                stats["rows_total"] += m.shape[0]
                if len(set(kobs)) != 1 or kobs[0] != want or m.shape[0] != want**n:
                    if is_all:
                        root_bad.append((v, n, kobs[0], want, m.shape[0]))
                        verdict.add_violation(
                            "fld:all-variables-root",
                            f"all variables = {v} with {n} inputs: {kobs[0]} values per input and {m.shape[0]} rows; the largest k with k^{n} <= {v} is {want} ({want**n} rows); int(round(pow({v}, 1/{n}))) = {p}",
                            {"kind": "root", "v": v, "n": n, "got_k": kobs[0], "want_k": want, "rows": int(m.shape[0])},
                        )
                    else:
                        verdict.add_violation("fld:each-variable-count", f"each variable = {v} with {n} inputs: per-input counts {kobs}, {m.shape[0]} rows", {"kind": "each", "v": v, "n": n})
                    stats["oracle_violations"] += 1
                why = grid_content_ok(m, kobs, RANGES[:n]) if len(m) == math.prod(kobs) else f"{len(m)} rows but per-input counts {kobs}"
                if why:
                    verdict.add_violation("fld:grid-content", f"{'all' if is_all else 'each'} variables = {v}, {n} inputs: {why}", {"kind": "grid", "v": v, "n": n, "all": is_all})
                    stats["oracle_violations"] += 1
                lits.append(f"({cbool(is_all)}, {v}, {n}%nat, {p}, ({m.shape[0]}, {kobs[0]}, {crow(m[0])}, {crow(m[-1])}, {vlib.fhex(py_checksum(m))}))")
                index.append(("shape", "all" if is_all else "each", v, n))
    # the same grids on engines imported from FLL (numpy.float64 ranges) and on descending / zero-width ranges (both kinds of
    # engine): one-point grids, their neighbours and a few larger sizes; direct oracle with the DOCUMENTED counts
    # (value_j = minimum + j (maximum - minimum) / max(1, k - 1), whatever the sign of maximum - minimum) and the Coq model
    vlits, vindex = [], []
    for label, ranges in (("asc", RANGES), ("desc", RANGES_DESC), ("mixed", RANGES_MIXED)):
        for kind in ("float", "fll"):
            if (label, kind) == ("asc", "float"):
                continue  # the exhaustive loop above
            for n in range(1, 5):
                eng = (shape_engine_fll if kind == "fll" else shape_engine)(fl, n, ranges)
                for v in sorted({1, 2, 3, 5, 12, 2**n - 1, 2**n, 3**n}):
                    for sc in (S.AllVariables, S.EachVariable):
                        is_all = sc == S.AllVariables
                        if not is_all and v**n > 4096:
                            continue
                        rp = {"v": v, "n": n, "all": is_all, "ranges": kind, "range_values": ranges[:n]}
                        with np.errstate(all="ignore"):
                            ok, _ = export_call(verdict, stats, f"FldExporter.write_from_scope({'FLL-imported engine' if kind == 'fll' else 'engine'} with {n} inputs ({kind} ranges (minimum, maximum) = {ranges[:n]}), writer, values={v}, scope={sc.name})",
                                                dict(rp, kind="raises"), lambda: cap.write_from_scope(eng, io.StringIO(), v, sc))
                        if not ok:
                            continue
                        m = cap.captured
                        k = max(1, kroot(v, n)) if is_all else v
                        stats["shape_variant_cases"] += 1
                        stats["keys"].add(("shape-variant", label, kind, is_all, v, n))
                        stats["one_point_grids"] += k == 1
                        stats["cls_shape_" + label + "_" + kind] += 1
                        why = grid_content_ok(m, [k] * n, ranges[:n])
                        if why:
                            verdict.add_violation("fld:grid-content", f"{'FLL-imported engine' if kind == 'fll' else 'engine'} with {kind} ranges (minimum, maximum) = {ranges[:n]}, {'all' if is_all else 'each'} variables = {v}: {why}; "
                                                  f"first rows {m[:3].tolist()}, the documented grid runs from minimum to maximum", dict(rp, kind="grid"))
                            stats["oracle_violations"] += 1
                        if len(m):
                            p = int(round(pow(v, 1.0 / n)))
                            kk = kroot(len(m), n)
                            vlits.append(f"({vlib.coq_list(f'({vlib.fhex(a)}, {vlib.fhex(b)})' for a, b in ranges[:n])}, ({cbool(is_all)}, {v}, {p}, ({m.shape[0]}, {kk if kk**n == len(m) else -1}, {crow(m[0])}, {crow(m[-1])}, {vlib.fhex(py_checksum(m))})))")
                            vindex.append(("shape-variant", label, kind, "all" if is_all else "each", v, n))
    # outside the quantifier: zero / negative sizes, no input variables
    elits, eindex = [], []
    for n in range(0, 4):
        eng = shape_engine(fl, n)
        for v in (0, -1, -5, 1, 2):
            for sc in (S.AllVariables, S.EachVariable):
                try:
                    p = int(round(pow(v, 1.0 / n)))
                except Exception:
                    p = 0
                if n >= 1 and v >= 1:  # inside the quantifier: covered (and guarded) by the loop above
                    continue
                try:
                    cap.write_from_scope(eng, io.StringIO(), v, sc)
                    expect = cap.captured.shape[0]
                except ValueError:
                    expect = -1
                except Exception:
                    expect = -2
                elits.append(f"({cbool(sc == S.AllVariables)}, {v}, {n}%nat, {p}, {expect})")
                eindex.append(("edge", sc.name, v, n, expect))
    stats["edge_cases"] = len(elits)
    stats["root_bad"] = root_bad
    groups = [
        ("bool * Z * nat * Z * (Z * Z * list float * list float * float)", "shape_check", lits),
        ("bool * Z * nat * Z * Z", "edge_check", elits),
        ("Z * nat * Z", "kroot_check", klits),
        ("list (float * float) * (bool * Z * Z * (Z * Z * list float * list float * float))", "shape_var_check", vlits),
    ]
    return groups, index + eindex + [("kroot", v, n) for n in range(1, 5) for v in vs] + vindex


# --------------------------------------------------------------------------- engines for (b), (c)
NAMES = ["Ambient", "service", "food", "x", "obstacle", "Load", "Dirt", "speed", "t1", "in_A", "zeta", "Q"]
ONAMES = ["Power", "tip", "y", "steer", "Cycle", "out_1", "Fx", "w"]


def example_engines(fl):
    ex = fl.examples
    return [
        lambda: ex.mamdani.simple_dimmer.SimpleDimmer().engine,
        lambda: ex.mamdani.simple_dimmer_chained.SimpleDimmerChained().engine,
        lambda: ex.mamdani.laundry.Laundry().engine,
        lambda: ex.hybrid.tipper.Tipper().engine,
        lambda: ex.takagi_sugeno.approximation.Approximation().engine,
        lambda: ex.takagi_sugeno.simple_dimmer.SimpleDimmer().engine,
        lambda: ex.tsukamoto.tsukamoto.Tsukamoto().engine,
        lambda: ex.mamdani.obstacle_avoidance.ObstacleAvoidance().engine,
        lambda: ex.terms.gaussian.Gaussian().engine,
        lambda: ex.terms.rectangle.Rectangle().engine,
    ]


def gen_engine(fl, rng, n_in, n_out, range_mode=None, disable_output=None):
    """a small generated engine (FLL text -> FllImporter): Mamdani/Centroid or Takagi-Sugeno/WeightedAverage outputs.
    range_mode: None = per input mostly ascending, sometimes descending (minimum > maximum) or zero-width (minimum == maximum);
    "desc" = every input descending; "zero" = the first input zero-width.  The terms always live on the ascending interval.
    disable_output: None = sometimes one of >= 2 outputs disabled; True / False = forced."""
    ins = rng.sample(NAMES, n_in)
    outs = rng.sample(ONAMES, n_out)
    L = [f"Engine: gen_{n_in}_{n_out}"]
    nice = [(0.0, 1.0), (-1.0, 1.0), (0.0, 10.0), (-5.5, 2.25), (100.0, 1000.0), (-0.0, 0.3)]
    for nm in ins:
        if rng.random() < 0.6:
            lo, hi = rng.choice(nice)
        else:
            lo = rng.uniform(-10, 10)
            hi = lo + rng.uniform(0.1, 20)
        mid = (lo + hi) / 2
        c = rng.random()
        mode = "desc" if range_mode == "desc" else "zero" if (range_mode == "zero" and nm == ins[0]) else "asc" if range_mode == "asc" else ("desc" if c < 0.12 else "zero" if c < 0.17 else "asc")
        rlo, rhi = {"asc": (lo, hi), "desc": (hi, lo), "zero": (lo, lo)}[mode]
        # lock-range only on ascending ranges: numpy.clip(x, 1.0, 0.0) is 0.0 for every x (reported, not generated)
        lock = rng.random() < 0.3 and mode == "asc"
        L += [f"InputVariable: {nm}", "  enabled: true", f"  range: {rlo!r} {rhi!r}", f"  lock-range: {cbool(lock)}",
              f"  term: L Ramp {mid!r} {lo!r}", f"  term: M Triangle {lo!r} {mid!r} {hi!r}", f"  term: H Ramp {mid!r} {hi!r}"]
    kinds = []
    disabled = None
    if n_out >= 2 and (disable_output is True or (disable_output is None and rng.random() < 0.2)):
        disabled = rng.choice(outs)
    all_disabled = disable_output == "all"  # every output value 0-d: one row of outputs repeated for every grid point (repaired)
    for nm in outs:
        ts = rng.random() < 0.5
        kinds.append(ts)
        L += [f"OutputVariable: {nm}", f"  enabled: {cbool(nm != disabled and not all_disabled)}", "  range: 0.0 1.0", f"  lock-range: {cbool(rng.random() < 0.2)}"]
        if ts:
            L += ["  aggregation: none", "  defuzzifier: WeightedAverage TakagiSugeno"]
        else:
            L += ["  aggregation: Maximum", "  defuzzifier: Centroid 40"]
        L += [f"  default: {rng.choice(['nan', 'nan', '0.25'])}", f"  lock-previous: {cbool(rng.random() < 0.25)}"]
        if ts:
            L += ["  term: A Constant 0.125", "  term: B Linear " + " ".join(repr(round(rng.uniform(-1, 1), 3)) for _ in range(n_in + 1)), "  term: C Constant 0.875"]
        else:
            L += ["  term: A Triangle 0.0 0.25 0.5", "  term: B Triangle 0.25 0.5 0.75", "  term: C Triangle 0.5 0.75 1.0"]
    L += ["RuleBlock: rb", "  enabled: true", "  conjunction: Minimum", "  disjunction: Maximum", "  implication: Minimum", "  activation: General"]
    for nm in outs:
        for t in rng.sample(["A", "B", "C"], rng.choice([1, 2, 3])):
            props = [f"{i} is {rng.choice(['L', 'M', 'H'])}" for i in rng.sample(ins, rng.choice([1, min(2, n_in)]))]
            L.append(f"  rule: if {rng.choice([' and ', ' or ']).join(props)} then {nm} is {t}")
    return fl.FllImporter().from_string("\n".join(L) + "\n")


def pick_engine(fl, rng):
    if rng.random() < 0.35:
        return rng.choice(example_engines(fl))()
    return gen_engine(fl, rng, rng.choice([1, 2, 2, 3, 3, 4]), rng.choice([1, 1, 2]))


def engine_lit(engine, last_values):
    ins = vlib.coq_list(
        f"({cstr(iv.name)}, {vlib.fhex(iv.minimum)}, {vlib.fhex(iv.maximum)}, {cbool(iv.lock_range)}, {vlib.fhex(lv)})" for iv, lv in zip(engine.input_variables, last_values)
    )
    outs = vlib.coq_list(cstr(ov.name) for ov in engine.output_variables)
    return ins, outs


def scalar_rows(engine, rows):
    """sequential scalar processing on a deep copy (one restart, then row after row); if float inputs crash
    (TypeError), everything is redone with 1-element arrays"""
    for mode in ("float", "array"):
        e = copy.deepcopy(engine)
        e.restart()
        out = []
        try:
            with np.errstate(all="ignore"):
                for row in rows:
                    for iv, x in zip(e.input_variables, row):
                        iv.value = float(x) if mode == "float" else np.array([float(x)])
                    e.process()
                    out.append([float(np.take(ov.value, -1)) for ov in e.output_variables])
            return out, mode
        except TypeError:
            if mode == "array":
                raise
    raise AssertionError


def batch_has_vector_output(engine, rows) -> bool:
    """Engine.process on the batch (not the exporter, not Engine.output_values): does some output variable hold one value
    per row?  (When every output value is 0-d -- disabled variables, variables no rule concludes on -- the unchanged code
    cannot stack inputs and outputs of a grid of several rows: a defect reported separately, not exercised here.)"""
    e = copy.deepcopy(engine)
    e.restart()
    m = np.array(rows, dtype=float).reshape(len(rows), len(e.input_variables))
    with np.errstate(all="ignore"):
        for i, iv in enumerate(e.input_variables):
            iv.value = m[:, i].copy()
        e.process()
    return any(np.ndim(ov.value) >= 1 and np.size(ov.value) == len(rows) for ov in e.output_variables)


def value_matrix(variables, rows=None) -> np.ndarray:
    """the values the variables hold after an export, one column per variable, one row per grid point -- read from the
    variables themselves (0-d values broadcast), not through Engine.input_values / Engine.output_values"""
    if not variables:
        return np.zeros((0, 0))
    cols = [np.atleast_1d(np.asarray(var.value, dtype=float)).ravel() for var in variables]
    k = max([len(c) for c in cols] + ([rows] if rows else []))  # 0-d values are repeated for every row (of the inputs)
    return np.column_stack([c if len(c) == k else np.full(k, c[-1]) for c in cols])


def all_outputs_scalar(engine, rows):
    """the cause of the former known finding fld:all-scalar-outputs-raise (repaired: FldExporter.write broadcasts the one row
    of output values; the signature stays as a violation kind so that a regression is reported), checked explicitly on the batch (Engine.process, not the
    exporter): after processing the k > 1 rows at once EVERY output variable holds a 0-d value because it is disabled or
    its fuzzy output is empty / has only 0-d degrees (no rule that depends on the inputs concludes on it)"""
    e = copy.deepcopy(engine)
    e.restart()
    m = np.array(rows, dtype=float).reshape(len(rows), len(e.input_variables))
    with np.errstate(all="ignore"):
        for i, iv in enumerate(e.input_variables):
            iv.value = m[:, i].copy()
        e.process()
    if not (len(rows) > 1 and bool(e.output_variables) and all(np.ndim(ov.value) == 0 for ov in e.output_variables)):
        return False
    if all(not ov.enabled or all(np.ndim(a.degree) == 0 for a in ov.fuzzy.terms) for ov in e.output_variables):
        return True
    # per-row degrees but a 0-d value: an integral defuzzifier of resolution 1 on a batch (C02's recorded finding
    # batch:resolution-1: the (k, 1) sample matrix is squeezed and read as ONE row) -- neither this finding nor a new one
    if all(not ov.enabled or all(np.ndim(a.degree) == 0 for a in ov.fuzzy.terms) or getattr(ov.defuzzifier, "resolution", None) == 1 for ov in e.output_variables):
        return None
    return False


def close_printed(token: str, y: float, d: int) -> bool:
    try:
        t = float(token)
    except ValueError:
        return False
    if math.isnan(y) or math.isnan(t):
        return math.isnan(y) and math.isnan(t)
    if math.isinf(y) or math.isinf(t):
        return y == t
    return token == fmt_num(y, d) or abs(t - y) <= 0.5 * 10.0**-d + 1e-7 * max(1.0, abs(y))


def check_rows(verdict, stats, what, replay, data_lines, sep, xi, xo, d, ins, exp_inputs, engine_before, names_in, names_out):
    """direct oracle for the data lines of one export. ins: the engine's input matrix; exp_inputs: per row the independently
    derived inputs (exact Fractions or floats) or None (reader rows are checked against their tokens by the caller)"""
    n, m = len(names_in), len(names_out)
    bad = 0
    scal, mode = scalar_rows(engine_before, ins)
    stats["scalar_mode_" + mode] += 1
    for r, line in enumerate(data_lines):
        toks = line.split(sep)
        if len(toks) != (n if xi else 0) + (m if xo else 0):
            verdict.add_violation("fld:row-width", f"{what}: row {r} has {len(toks)} columns: {line!r}", replay)
            return bad + 1
        if xi:
            for j in range(n):
                want = exp_inputs[r][j]
                if isinstance(want, Fraction):
                    try:
                        tv = Fraction(toks[j])
                    except ValueError:  # "nan", "inf": never a grid value
                        tv = None
                    ok = tv is not None and abs(tv - want) <= Fraction(1, 2 * 10**d) + Fraction(1, 10**9) * max(1, abs(want)) and toks[j] == fmt_num(ins[r][j], d)
                else:
                    g = float(ins[r][j])
                    ok = toks[j] == fmt_num(g, d) and (g == want or (math.isnan(want) and math.isnan(g)))
                if not ok:
                    verdict.add_violation("fld:row-inputs", f"{what}: row {r} input {names_in[j]} printed {toks[j]!r}, expected {float(want)!r} at {d} decimals", replay)
                    bad += 1
        if xo:
            off = n if xi else 0
            for j in range(m):
                if not close_printed(toks[off + j], scal[r][j], d):
                    verdict.add_violation("fld:row-outputs", f"{what}: row {r} output {names_out[j]} printed {toks[off + j]!r}; processing the inputs {list(map(float, ins[r]))} row by row gives {scal[r][j]!r}", replay)
                    bad += 1
        if bad > 3:
            break
    return bad


def text_part(ctx, fl, verdict, stats):
    S = fl.FldExporter.ScopeOfValues
    rng = ctx.rng
    lits, index = [], []
    ncases = ctx.n(200, 3000)
    max_rows = 160
    # in every run: one-point grids (each variable = 1; all variables = v < 2**inputs) on engines built directly
    # (Python float ranges) and on engines imported from FLL (numpy.float64 ranges), 1-4 inputs
    forced = [(kind, n_, all_, v_, "asc", False) for kind in ("direct", "fll") for n_ in (1, 2, 3, 4) for all_, v_ in ((False, 1), (True, 1), (True, 2**n_ - 1))]
    # ... descending (minimum > maximum) and zero-width input ranges, and an engine with a disabled output variable next to an
    # enabled one (a 0-d value next to per-row vectors) on a grid of several rows
    forced += [(kind, n_, all_, v_, mode, dis) for kind in ("direct", "fll") for n_, all_, v_, mode, dis in (
        (1, False, 5, "desc", False), (2, True, 9, "desc", False), (3, False, 2, "desc", False), (1, False, 4, "zero", False), (2, True, 16, "zero", False),
        (1, False, 4, None, True), (2, True, 9, None, True), (1, False, 4, None, "all"), (2, True, 9, None, "all"))]
    for case in range(ncases):
        force = forced[case] if case < len(forced) else None
        if force:
            engine = gen_engine(fl, rng, force[1], 2 if force[5] else rng.choice([1, 2]), range_mode=force[4], disable_output=force[5])
            if force[0] == "direct":
                floatify(engine)
        else:
            engine = pick_engine(fl, rng)
        ivs, ovs = engine.input_variables, engine.output_variables
        n = len(ivs)
        is_all = rng.random() < 0.55
        if is_all:
            v = rng.choice([rng.randint(1, max_rows), rng.randint(1, max_rows), rng.choice([1, 2, 4, 8, 9, 16, 27, 64, 81, 100, 125])])
        else:
            v = rng.randint(1, max(1, int(max_rows ** (1.0 / n))))
        sep = rng.choice(SEPARATORS)
        hdr, xi, xo = (rng.random() < 0.7, rng.random() < 0.8, rng.random() < 0.85)
        d = rng.choice(DECIMALS)
        active = None
        if force:
            is_all, v, xi = force[2], force[3], True
            xo = xo or bool(force[5])
        elif rng.random() < 0.2:
            flags = [rng.random() < 0.5 for _ in ivs]
            active = {iv for iv, f in zip(ivs, flags) if f}
            for iv, f in zip(ivs, flags):
                if not f:
                    c = rng.random()
                    if c < 0.4:
                        iv.value = rng.uniform(iv.minimum - 0.2 * iv.drange, iv.maximum + 0.2 * iv.drange)
                    elif c < 0.7:
                        iv.value = np.array([iv.minimum, (iv.minimum + iv.maximum) / 3])
                    # else: leave it as it is (nan)
        flags = [active is None or iv in active for iv in ivs]
        last_values = [float(np.take(iv.value, -1)) for iv in ivs]
        before = copy.deepcopy(engine)
        exporter = fl.FldExporter(separator=sep, headers=hdr, input_values=xi, output_values=xo)
        replay = {"kind": "text", "case": case, "n": n, "float_ranges": not any(isinstance(iv.minimum, np.floating) for iv in ivs), "engine": fl.FllExporter().to_string(before), "v": v, "scope": "all" if is_all else "each", "separator": sep,
                  "headers": hdr, "inputs": xi, "outputs": xo, "decimals": d, "active": flags, "last_values": last_values}
        kind_of = "numpy.float64" if any(isinstance(iv.minimum, np.floating) for iv in ivs) else "Python float"
        what = f"case {case}: engine {engine.name} ({n} inputs with {kind_of} ranges {[(float(iv.minimum), float(iv.maximum)) for iv in ivs]}, {len(ovs)} outputs, enabled {[bool(ov.enabled) for ov in ovs]}), {'all' if is_all else 'each'} variables = {v}, sep {sep!r}, decimals {d}, headers/inputs/outputs {hdr}/{xi}/{xo}, active {flags}"

        def do_export():
            with np.errstate(all="ignore"), fl.settings.context(decimals=d):
                return exporter.to_string_from_scope(engine, v, S.AllVariables if is_all else S.EachVariable, active)

        ok, text = export_call(verdict, stats, f"FldExporter(...).to_string_from_scope(engine, values={v}, scope={'AllVariables' if is_all else 'EachVariable'}) in {what}", replay, do_export)
        if not ok:
            continue
        ins = value_matrix(ivs)
        outs = value_matrix(ovs, len(ins))
        p = int(round(pow(v, 1.0 / n)))
        stats["text_cases"] += 1
        stats["keys"].add(("text", engine.name, n, is_all, v, sep, hdr, xi, xo, d, tuple(flags), text))
        stats["text_rows"] += len(ins)
        stats["cls_scope_" + ("all" if is_all else "each")] += 1
        stats[f"cls_inputs_{n}"] += 1
        stats["cls_active_subset"] += active is not None
        stats[f"cls_switches_{int(hdr)}{int(xi)}{int(xo)}"] += 1
        # ---- direct oracle
        k = max(1, kroot(v, n)) if is_all else max(1, v)
        counts = [k if f else 1 for f in flags]
        stats["one_point_grids"] += all(c == 1 for c in counts)
        stats["cls_ranges_" + ("numpy" if kind_of.startswith("numpy") else "python")] += 1
        stats["cls_descending_range"] += any(iv.minimum > iv.maximum for iv in ivs)
        stats["cls_zero_width_range"] += any(iv.minimum == iv.maximum for iv in ivs)
        stats["cls_disabled_output"] += any(not ov.enabled for ov in ovs)
        lines = text.split("\n")
        nviol0 = len(verdict.violations) + sum(verdict.known_hits.values())
        if text and lines[-1] != "":
            verdict.add_violation("fld:newline", f"{what}: the export does not end with a newline", replay)
        lines = lines[:-1] if text else []
        names = ([iv.name for iv in ivs] if xi else []) + ([ov.name for ov in ovs] if xo else [])
        if hdr and names:
            if not lines or lines[0] != sep.join(names):
                verdict.add_violation("fld:header", f"{what}: header {lines[:1]!r} instead of {sep.join(names)!r}", replay)
            lines = lines[1:]
        if xi or xo:
            if len(lines) != math.prod(counts):
                if is_all:
                    verdict.add_violation("fld:all-variables-root", f"{what}: {len(lines)} rows; the largest k with k^{n} <= {v} is {kroot(v, n)}; int(round(pow({v}, 1/{n}))) = {p}", replay)
                else:
                    verdict.add_violation("fld:row-count", f"{what}: {len(lines)} rows instead of {math.prod(counts)}", replay)
            else:
                exp = []
                for idx in itertools.product(*[range(c) for c in counts]):
                    row = []
                    for j, iv in enumerate(ivs):
                        if flags[j]:
                            a, b = Fraction(iv.minimum), Fraction(iv.maximum)
                            row.append(a + idx[j] * (b - a) / (k - 1) if k > 1 else a)
                        else:
                            lv = last_values[j]
                            row.append(min(max(lv, iv.minimum), iv.maximum) if iv.lock_range and not math.isnan(lv) else lv)
                    exp.append(row)
                # the engine was given the grid points (checked to 1e-12 against exact arithmetic), in lexicographic order
                for r, row in enumerate(exp):
                    for j, w in enumerate(row):
                        g = float(ins[r][j])
                        if isinstance(w, Fraction):
                            okv = math.isfinite(g) and abs(Fraction(g) - w) <= Fraction(1, 10**12) * max(1, abs(w), abs(Fraction(ivs[j].maximum)), abs(Fraction(ivs[j].minimum)))
                        else:
                            okv = (math.isnan(w) and math.isnan(g)) or g == w
                        if not okv:
                            verdict.add_violation("fld:grid-content", f"{what}: row {r} input {ivs[j].name} = {g!r}, the documented grid value is {float(w)!r}", replay)
                            break
                    else:
                        continue
                    break
                check_rows(verdict, stats, what, replay, lines, sep, xi, xo, d, ins, exp, before, [iv.name for iv in ivs], [ov.name for ov in ovs])
        elif lines:
            verdict.add_violation("fld:row-width", f"{what}: no column selected but {len(lines)} lines written", replay)
        stats["oracle_violations"] += len(verdict.violations) + sum(verdict.known_hits.values()) - nviol0
        # ---- model case
        ftbl = {}
        for x in itertools.chain(ins.ravel().tolist(), outs.ravel().tolist()):
            key = vlib.fhex(x) if x == x else "nan"
            ftbl.setdefault(key, (x, fmt_num(x, d)))
        ftbl_lit = vlib.coq_list(f"({vlib.fhex(x)}, {cstr(s)})" for x, s in ftbl.values())
        il, ol = engine_lit(before, last_values)
        x_lit = f"({cstr(sep)}, {cbool(hdr)}, {cbool(xi)}, {cbool(xo)})"
        lits.append(f"({il}, {ol}, {x_lit}, ({cbool(is_all)}, {v}, {p}, {vlib.coq_list(map(cbool, flags))}), {ftbl_lit}, ({cmat(ins)}, {cmat(outs)}), Ok {cstr(text)})")
        index.append(("text", what))
        if case < 3:
            stats["samples"].append({"what": what, "text_head": text[:160]})
    ctype = ("list (string * float * float * bool * float) * list string * (string * bool * bool * bool) * (bool * Z * Z * list bool) "
             "* list (float * string) * (list (list float) * list (list float)) * result string")
    return [(ctype, "scope_check", lits)], index


# --------------------------------------------------------------------------- (c) reader
WS = [" ", " ", " ", "  ", "\t", " \t ", "\x0b", "\x0c", "\r", "\x1c", "\x1f"]
NUMBER_FORMS = [lambda x: repr(x), lambda x: "%.3f" % x, lambda x: "%.6e" % x, lambda x: "%+.2f" % x, lambda x: ("%.3f" % x).replace("0.", ".", 1) if 0 <= x < 1 else "%.3f" % x]
BAD_TOKENS = ["abc", "1,5", "--1", "0x10", "1.2.3", "#"]
SPECIAL_TOKENS = ["nan", "inf", "-inf", "NaN", "1e400", "-0.0", "1E2"]


def gen_reader_text(rng, engine, flavour):
    ivs = engine.input_variables
    n = len(ivs)
    width = n + (rng.choice([0, 0, 1, 2]))
    if flavour == "few":
        width = n - 1
    nrows = rng.randint(1, 12)
    skip = rng.choice([0, 0, 1, 2, 3, -1, 50]) if flavour == "ok" else rng.choice([0, 1])
    L = []
    for _ in range(max(0, min(skip, 4))):
        L.append(rng.choice(["header line", "x y z", "", "# skipped comment", "1 2 3 4 5 6"]))
    data_rows = 0
    while data_rows < nrows:
        c = rng.random()
        if c < 0.15:
            L.append(rng.choice(["", " ", "\t", "   \t  ", "\r", "\x0c"]))
        elif c < 0.3:
            L.append(rng.choice(["", " ", "\t  "]) + "#" + rng.choice(["", " a comment", "1 2 3", "# 0.5"]))
        else:
            toks = []
            w = width
            if flavour == "ragged" and data_rows == nrows - 1 and nrows > 1:
                w = width + 1
            for j in range(w):
                iv = ivs[j % n]
                x = rng.uniform(iv.minimum - 0.3 * iv.drange, iv.maximum + 0.3 * iv.drange) if rng.random() < 0.3 else rng.uniform(iv.minimum, iv.maximum)
                if rng.random() < 0.1:
                    x = rng.choice([iv.minimum, iv.maximum, 0.0])
                t = rng.choice(NUMBER_FORMS)(x)
                if rng.random() < 0.04:
                    t = rng.choice(SPECIAL_TOKENS)
                toks.append(t)
            if flavour == "badtoken" and data_rows == nrows // 2:
                toks[rng.randrange(len(toks))] = rng.choice(BAD_TOKENS[:-1])
            line = rng.choice(["", "", " ", "\t", "   "]) + "".join(t + rng.choice(WS) for t in toks[:-1]) + toks[-1] + rng.choice(["", "", " ", " \t", "\r"])
            if flavour == "empty":
                line = rng.choice(["", "# only comments", "   "])
            L.append(line)
            data_rows += 1
    text = "\n".join(L) + ("\n" if rng.random() < 0.7 else "")
    if flavour == "empty" and rng.random() < 0.3:
        text = ""
    return text, skip


def reader_part(ctx, fl, verdict, stats):
    rng = ctx.rng
    lits, index = [], []
    ncases = ctx.n(160, 2000)
    for case in range(ncases):
        engine = pick_engine(fl, rng)
        ivs, ovs = engine.input_variables, engine.output_variables
        n = len(ivs)
        flavour = rng.choice(["ok"] * 7 + ["few", "ragged", "badtoken", "empty"])
        if flavour == "few" and n == 1:
            flavour = "empty"
        text, skip = gen_reader_text(rng, engine, flavour)
        sep = rng.choice(SEPARATORS)
        hdr, xi, xo = (rng.random() < 0.6, rng.random() < 0.85, rng.random() < 0.85)
        d = rng.choice(DECIMALS)
        before = copy.deepcopy(engine)
        last_values = [float(np.take(iv.value, -1)) for iv in ivs]
        exporter = fl.FldExporter(separator=sep, headers=hdr, input_values=xi, output_values=xo)
        replay = {"kind": "reader", "case": case, "engine": fl.FllExporter().to_string(before), "text": text, "skip": skip, "separator": sep,
                  "headers": hdr, "inputs": xi, "outputs": xo, "decimals": d}
        what = f"reader case {case} ({flavour}): engine {engine.name} ({n} inputs), skip {skip}, sep {sep!r}, decimals {d}, headers/inputs/outputs {hdr}/{xi}/{xo}, text {text[:80]!r}"
        try:
            with fl.settings.context(decimals=d):
                got = exporter.to_string_from_reader(engine, io.StringIO(text), skip)
            err = None
        except ValueError as e:
            got, err = None, "EValue"
            msg = str(e)
        except Exception as e:  # a crash, not a rejection
            got, err = None, "EInternal"
            msg = f"{type(e).__name__}: {e}"
        stats["reader_cases"] += 1
        stats["keys"].add(("reader", engine.name, n, text, skip, sep, hdr, xi, xo, d, got, err))
        stats["cls_reader_" + flavour] += 1
        # ---- independent reading of the text
        src = text.split("\n")
        if text.endswith("\n"):
            src = src[:-1]
        kept = [ln.split() for i, ln in enumerate(src) if i >= skip and ln.strip() and not ln.strip().startswith("#")]
        ptbl = {}
        parse_ok = True
        for row in kept:
            for t in row:
                try:
                    ptbl[t] = float(t)
                except ValueError:
                    ptbl[t] = None
                    parse_ok = False
                try:  # what the implementation's own conversion says (recorded for the model)
                    q = float(fl.to_float(t))
                    if ptbl[t] is None or not vlib.same_float(q, ptbl[t]):
                        verdict.add_broken("harness", "to_float", f"to_float({t!r}) = {q} but float() says {ptbl[t]}")
                except ValueError:
                    if ptbl[t] is not None:
                        verdict.add_broken("harness", "to_float", f"to_float({t!r}) raises but float() = {ptbl[t]}")
        should_work = bool(kept) and parse_ok and len({len(r) for r in kept}) == 1 and len(kept[0]) >= n
        nviol0 = len(verdict.violations) + sum(verdict.known_hits.values())
        if should_work and err:
            verdict.add_violation("fld:reader-rejects", f"{what}: well-formed rows rejected: {msg}", replay)
        elif not should_work and err is None:
            verdict.add_violation("fld:reader-accepts", f"{what}: rows {kept!r} are not {n}-column numeric rows but the export succeeded: {got[:80]!r}", replay)
        elif not should_work and err != "EValue":
            verdict.add_violation("fld:reader-crash", f"{what}: {msg}", replay)
        ins = outs = np.zeros((0, 0))
        if err is None:
            ins = value_matrix(ivs)
            outs = value_matrix(ovs, len(ins))
            stats["reader_rows"] += len(ins)
        if should_work and err is None:
            lines = got.split("\n")
            lines = lines[:-1] if got else []
            names = ([iv.name for iv in ivs] if xi else []) + ([ov.name for ov in ovs] if xo else [])
            if hdr and names:
                if not lines or lines[0] != sep.join(names):
                    verdict.add_violation("fld:header", f"{what}: header {lines[:1]!r} instead of {sep.join(names)!r}", replay)
                lines = lines[1:]
            if xi or xo:
                if len(lines) != len(kept):
                    verdict.add_violation("fld:reader-rows", f"{what}: {len(lines)} rows written for {len(kept)} data lines", replay)
                else:
                    exp = []
                    for row in kept:
                        e = []
                        for j, iv in enumerate(ivs):
                            x = ptbl[row[j]]
                            if iv.lock_range and not math.isnan(x):  # a lock-range input variable holds the clipped value
                                x = min(max(x, iv.minimum), iv.maximum)
                            e.append(x)
                        exp.append(e)
                    same = len(ins) == len(exp) and all(vlib.same_float(a, b) or a == b for ra, rb in zip(ins.tolist(), exp) for a, b in zip(ra, rb))
                    if not same:
                        verdict.add_violation("fld:reader-rows", f"{what}: the engine was given {ins.tolist()[:4]} for the data lines {kept[:4]}", replay)
                    else:
                        check_rows(verdict, stats, what, replay, lines, sep, xi, xo, d, ins, exp, before, [iv.name for iv in ivs], [ov.name for ov in ovs])
            elif lines:
                verdict.add_violation("fld:row-width", f"{what}: no column selected but {len(lines)} lines written", replay)
        stats["oracle_violations"] += len(verdict.violations) + sum(verdict.known_hits.values()) - nviol0
        # ---- model case: every token of every line the model may look at (all lines, skipped or not)
        for ln in src:
            for t in ln.split():
                if t not in ptbl:
                    try:
                        ptbl[t] = float(fl.to_float(t))
                    except ValueError:
                        ptbl[t] = None
        ptbl_lit = vlib.coq_list(f"({cstr(t)}, {'None' if x is None else 'Some ' + vlib.fhex(x)})" for t, x in ptbl.items())
        ftbl = {}
        for x in itertools.chain(ins.ravel().tolist(), outs.ravel().tolist()):
            key = vlib.fhex(x) if x == x else "nan"
            ftbl.setdefault(key, (x, fmt_num(x, d)))
        ftbl_lit = vlib.coq_list(f"({vlib.fhex(x)}, {cstr(s)})" for x, s in ftbl.values())
        il, ol = engine_lit(before, last_values)
        x_lit = f"({cstr(sep)}, {cbool(hdr)}, {cbool(xi)}, {cbool(xo)})"
        expect = f"Ok {cstr(got)}" if err is None else f"Err {err}"
        lits.append(f"({il}, {ol}, {x_lit}, ({cstr(text)}, {skip}), {ptbl_lit}, {ftbl_lit}, ({cmat(ins)}, {cmat(outs)}), {expect})")
        index.append(("reader", what))
        if case < 2:
            stats["samples"].append({"what": what, "result": str(got if err is None else err)[:160]})
    ctype = ("list (string * float * float * bool * float) * list string * (string * bool * bool * bool) * (string * Z) "
             "* list (string * option float) * list (float * string) * (list (list float) * list (list float)) * result string")
    return [(ctype, "reader_check", lits)], index


# --------------------------------------------------------------------------- (d) the engine pipeline (C18b)
ENGINE_PRELUDE = r"""From VF Require Import GenNorm GenHedge GenTerm Cascade Engine Observe NpLite Batch Ops EngineF FldEngine.
Definition fmat_feq (a b : list (list float)) : bool := list_eqb (list_eqb feq) a b.
(* number format for values computed by the ENGINE model: its zeros are tied to the implementation up to their sign only
   (Observe.feq, as in C01/C02), so an exact-bits miss falls back to a match up to the sign of zero *)
Fixpoint flook_feq (tbl : list (float * string)) (x : float) : string :=
  match tbl with [] => "?"%string | (k, s) :: tl => if feq k x then s else flook_feq tl x end.
Definition flook2 (tbl : list (float * string)) (x : float) : string :=
  if existsb (fun ks => fsame (fst ks) x) tbl then flook tbl x else flook_feq tbl x.
Definition engine_check (c : engine float * (string * bool * bool * bool) * (bool * Z * Z * list bool) * oracle
                             * list (float * string) * (list (list float) + nat) * result string) : bool :=
  let '(e, x, (sc, v, p, act), tbl, ftbl, expect_m, expect_t) := c in
  let NB := NumF false tbl in
  match @scope_inputs float NB (fun _ _ => p) (sc_of sc) v e (fun i => nth i act true) with
  | Ok ins =>
      match @engine_matrix float NB (mk_x x) e ins, expect_m with
      | Ok m, inl m' => fmat_feq m m'
      | Err er, inr c => Nat.eqb (err_code er) c
      | _, _ => false
      end
      && res_eq (@write_engine float NB (flook2 ftbl) (mk_x x) e ins) expect_t
  | Err _ => false
  end.
"""
ERR_NAME = {1: "ESyntax", 2: "EValue", 3: "ELookup", 4: "ERuntime", 5: "EInternal"}


def make_spy(fl):
    import fuzzylite.exporter as X

    class _NumpyProxy:
        """`np` as seen by fuzzylite.exporter while one export runs: numpy, with savetxt keeping a copy of its matrix"""

        def __init__(self, owner):
            self._owner = owner

        def __getattr__(self, name):
            if name == "savetxt":
                def savetxt(fname, m, *a, **kw):
                    self._owner.matrix = np.array(m, dtype=float, copy=True)
                    return np.savetxt(fname, m, *a, **kw)

                return savetxt
            return getattr(np, name)

    class Spy(fl.FldExporter):
        def write(self, engine, writer, input_values):  # noqa: D102
            self.matrix = None
            saved = X.np
            X.np = _NumpyProxy(self)
            try:
                return super().write(engine, writer, input_values)
            finally:
                X.np = saved

    return Spy


def engine_part(ctx, fl, verdict, stats):
    import enginelib as E
    from props.C01 import err_code

    S = fl.FldExporter.ScopeOfValues
    Spy = make_spy(fl)
    grid_only = make_capture(fl)
    rng = ctx.rng
    lits, index = [], []
    n_forced = 6  # in every run: >= 2 output variables, the first one disabled (a 0-d value next to per-row vectors), several rows
    for case in range(ctx.n(60, 600)):
        forced = case < n_forced
        scalar_case = None if not (n_forced <= case < n_forced + 4) else ("outputs-disabled" if case % 2 == 0 else "blocks-disabled")
        for _attempt in range(40):
            desc = E.gen_engine(rng, profile="algebraic", activations=("General",), weighted=True)
            if scalar_case:  # the known finding, in every run: every output value 0-d on a grid of several rows
                for o_ in desc["outputs"]:
                    if scalar_case == "outputs-disabled":
                        o_["enabled"] = False
                for b_ in desc["blocks"]:
                    if scalar_case == "blocks-disabled":
                        b_["enabled"] = False
                try:
                    scalar_rows(E.build_engine(fl, desc), [E.gen_row(rng, desc) for _ in range(3)])
                    break
                except Exception:  # noqa
                    continue
            if not forced:
                break
            if len(desc["outputs"]) < 2:
                continue
            for i_, o_ in enumerate(desc["outputs"]):
                o_["enabled"] = i_ != 0
            for iv_ in desc["inputs"]:
                iv_["enabled"] = True
            try:  # keep it only if the engine processes fine row by row and some enabled output depends on the inputs
                rows_ = [E.gen_row(rng, desc) for _ in range(3)]
                scalar_rows(E.build_engine(fl, desc), rows_)
                if batch_has_vector_output(E.build_engine(fl, desc), rows_):
                    break
            except Exception:  # noqa
                continue
        # descending (minimum > maximum) and zero-width input ranges; the terms keep their place
        for iv_ in desc["inputs"]:
            c_ = rng.random()
            if c_ < 0.15:
                iv_["min"], iv_["max"] = iv_["max"], iv_["min"]
            elif c_ < 0.2:
                iv_["max"] = iv_["min"]
        engine = E.build_engine(fl, desc)
        ivs, ovs = engine.input_variables, engine.output_variables
        n = len(ivs)
        numpy_ranges = rng.random() < 0.5
        if numpy_ranges:  # what an engine imported from FLL holds
            for var in list(ivs) + list(ovs):
                var.minimum, var.maximum = np.float64(var.minimum), np.float64(var.maximum)
        dirty = rng.random() < 0.5
        if dirty:  # an earlier run leaves values, previous values, fuzzy outputs and rule degrees behind
            try:
                with np.errstate(all="ignore"):
                    for _ in range(rng.choice([1, 2])):
                        for iv, xval in zip(ivs, E.gen_row(rng, desc)):
                            iv.value = xval
                        engine.process()
            except Exception:  # noqa
                pass
        is_all = rng.random() < 0.5
        v = rng.randint(1, 16) if is_all else rng.randint(1, max(1, int(16 ** (1.0 / n))))
        flags = [True] * n
        if rng.random() < 0.15:
            flags = [rng.random() < 0.5 for _ in ivs]
        active = {iv for iv, f in zip(ivs, flags) if f}
        sep = rng.choice(SEPARATORS)
        hdr, xi, xo = (rng.random() < 0.7, rng.random() < 0.85, rng.random() < 0.9)
        d = rng.choice(DECIMALS)
        if scalar_case:
            xi = True
        if forced or scalar_case:
            flags, active, xo = [True] * n, set(ivs), True
            is_all, v = (True, rng.randint(2**n, 16)) if rng.random() < 0.5 else (False, rng.randint(2, max(2, int(16 ** (1.0 / n)))))
        lit = E.lit_engine(fl, desc, engine)  # the state the export starts from
        before = copy.deepcopy(engine)
        p = int(round(pow(v, 1.0 / n)))
        spy = Spy(separator=sep, headers=hdr, input_values=xi, output_values=xo)
        what = f"engine case {case}: {n} inputs, {len(ovs)} outputs, {'all' if is_all else 'each'} variables = {v}, dirty {dirty}, switches {hdr}/{xi}/{xo}, active {flags}"
        text = code = None
        with vlib.patch_observed():
            vlib.RECORDER.reset()
            try:
                with np.errstate(all="ignore"), fl.settings.context(decimals=d):
                    text = spy.to_string_from_scope(engine, v, S.AllVariables if is_all else S.EachVariable, active)
            except Exception as ex:  # noqa
                code, raised = err_code(ex), ex
            tbl = vlib.RECORDER.take()
        stats["cls_engine_descending_range"] += any(iv.minimum > iv.maximum for iv in ivs)
        stats["cls_engine_zero_width_range"] += any(iv.minimum == iv.maximum for iv in ivs)
        stats["cls_engine_disabled_output"] += len(ovs) >= 2 and any(not ov.enabled for ov in ovs) and any(ov.enabled for ov in ovs)
        stats["cls_engine_numpy_ranges"] += numpy_ranges
        if code is not None:
            # an engine misconfiguration may make Engine.process raise (compared with the model below); building the grid may not
            ranges = [(float(iv.minimum), float(iv.maximum)) for iv in ivs]
            ok, _ = export_call(verdict, stats, f"FldExporter.write_from_scope (grid only, `write` stubbed) in {what}, ranges {ranges}",
                                {"kind": "raises", "v": v, "n": n, "all": is_all, "ranges": "float", "range_values": ranges},
                                lambda: grid_only.write_from_scope(engine, io.StringIO(), v, S.AllVariables if is_all else S.EachVariable, active))
            if not ok:
                continue
            # every output value the engine produces must be tabulated: when the engine (restarted) processes the grid rows
            # fine one after the other, an exception from the export is a violation with this concrete input
            try:
                b2 = copy.deepcopy(before)  # the grid as built from the state before the export (inactive variables keep their value)
                with np.errstate(all="ignore"):
                    grid_only.write_from_scope(b2, io.StringIO(), v, S.AllVariables if is_all else S.EachVariable, {iv for iv, f in zip(b2.input_variables, flags) if f})
                rows = grid_only.captured.tolist()
                scalar_rows(before, rows)
                fine = True
                known_cause = all_outputs_scalar(before, rows) if (xi and xo) else False
            except Exception:  # noqa
                fine = known_cause = False
            if fine and known_cause is None:
                stats["cls_engine_resolution1_batch_raise"] += 1  # C02's finding batch:resolution-1; stays in the model comparison
            elif fine and known_cause:
                # known finding: np.hstack of the (k, n) input matrix with the (1, m) output matrix; the model predicts the same
                # error, so the case stays in the model comparison below
                stats["cls_engine_all_scalar_outputs_raise"] += 1
                stats["oracle_violations"] += 1
                verdict.add_violation(
                    "fld:all-scalar-outputs-raise",
                    f"FldExporter(separator={sep!r}, headers={hdr}, input_values={xi}, output_values={xo}).to_string_from_scope(engine, values={v}, scope={'AllVariables' if is_all else 'EachVariable'}) raises "
                    f"{type(raised).__name__}: {raised} although the restarted engine processes the {len(rows)} grid rows one after the other: every output value is 0-d "
                    f"(output variables enabled: {[bool(ov.enabled) for ov in ovs]}, rule blocks enabled: {[bool(b.enabled) for b in before.rule_blocks]}); {what}; engine:\n{fl.FllExporter().to_string(before)}",
                    {"kind": "engine-raises", "engine": fl.FllExporter().to_string(before), "v": v, "all": is_all, "separator": sep, "headers": hdr, "inputs": xi, "outputs": xo, "active": flags},
                )
            elif fine:
                verdict.add_violation(
                    "fld:export-raises",
                    f"FldExporter(separator={sep!r}, headers={hdr}, input_values={xi}, output_values={xo}).to_string_from_scope(engine, values={v}, scope={'AllVariables' if is_all else 'EachVariable'}) raises "
                    f"{type(raised).__name__}: {raised} although the restarted engine processes the {len(rows)} grid rows one after the other; {what}; input ranges {ranges}; "
                    f"output variables enabled: {[bool(ov.enabled) for ov in ovs]}; engine:\n{fl.FllExporter().to_string(before)}",
                    {"kind": "engine-raises", "engine": fl.FllExporter().to_string(before), "v": v, "all": is_all, "separator": sep, "headers": hdr, "inputs": xi, "outputs": xo, "active": flags},
                )
                stats["oracle_violations"] += 1
                stats["export_raises"] += 1
                continue
        stats["engine_cases"] += 1
        stats["cls_engine_" + ("error" if code else "dirty" if dirty else "fresh")] += 1
        if code is None:
            m = spy.matrix
            m = np.zeros((0, 0)) if m is None or m.size == 0 else np.atleast_2d(m)
            if m.ndim == 2 and spy.matrix is not None and np.ndim(spy.matrix) == 1:
                m = m.T  # savetxt writes a 1-d array as one column
            stats["engine_rows"] += len(m)
            stats["keys"].add(("engine", lit, is_all, v, sep, hdr, xi, xo, d, tuple(flags), text))
            ftbl = {}
            for xv in m.ravel().tolist():
                ftbl.setdefault(vlib.fhex(xv) if xv == xv else "nan", (xv, fmt_num(xv, d)))
            ftbl_lit = vlib.coq_list(f"({vlib.fhex(a)}, {cstr(b)})" for a, b in ftbl.values())
            exp_m, exp_t = f"(inl {cmat(m)})", f"(Ok {cstr(text)})"
        else:
            ftbl_lit, exp_m, exp_t = "[]", f"(inr {code}%nat)", f"(Err {ERR_NAME[code]})"
        x_lit = f"({cstr(sep)}, {cbool(hdr)}, {cbool(xi)}, {cbool(xo)})"
        lits.append(f"(({lit})%nat, {x_lit}, ({cbool(is_all)}, {v}, {p}, {vlib.coq_list(map(cbool, flags))}), {vlib.oracle_lit(tbl)}, {ftbl_lit}, {exp_m}, {exp_t})")
        index.append(("engine-pipeline", what))
    ctype = ("engine float * (string * bool * bool * bool) * (bool * Z * Z * list bool) * oracle * list (float * string) "
             "* (list (list float) + nat) * result string")
    return [(ctype, "engine_check", lits)], index



# --------------------------------------------------------------------------- driver
class Stats(dict):
    def __missing__(self, k):
        return [] if k == "samples" else 0


def run(ctx, build, verdict, ev):
    import fuzzylite as fl

    stats = Stats()
    stats["samples"] = []
    stats["keys"] = set()
    decimals0 = fl.settings.decimals
    g1, i1 = shape_part(ctx, fl, verdict, stats)
    g2, i2 = text_part(ctx, fl, verdict, stats)
    g3, i3 = reader_part(ctx, fl, verdict, stats)
    g4, i4 = engine_part(ctx, fl, verdict, stats)
    if fl.settings.decimals != decimals0:
        verdict.add_broken("harness", "settings", "fl.settings.decimals was not restored")
    prelude = PRELUDE.replace("RANGES_", vlib.coq_list(f"({vlib.fhex(a)}, {vlib.fhex(b)})" for a, b in RANGES))
    mism = []
    if not build.translation_errors:
        for name, groups, index, chunk in (("c18shape", g1, i1, 400), ("c18text", g2, i2, 8), ("c18reader", g3, i3, 40), ("c18engine", g4, i4, 4)):
            bad, log = vlib.run_coq_cases(ctx.work, name, prelude + (ENGINE_PRELUDE if name == "c18engine" else ""), groups, chunk=chunk, timeout=ctx.n(900, 3000))
            for i in bad:
                if i < 0:
                    verdict.add_broken("correspondence", f"C18:coq-evaluation:{name}", log)
                    break
                mism.append(index[i])
    if mism:
        verdict.add_broken("correspondence", f"FldExporter {mism[0][0]}", f"model and implementation differ on {len(mism)} cases, first: {mism[:4]}")
    c = ev["coverage"]
    c["evaluations"] = stats["shape_cases"] + stats["shape_variant_cases"] + stats["edge_cases"] + stats["text_cases"] + stats["reader_cases"] + stats["engine_cases"]
    c["distinct_nontrivial"] = len(stats["keys"])
    c["rule"] = ("(a) every v in %s x n = 1..4 x both scopes (EachVariable only while v^n <= %d; %d combinations skipped as too large to export) on a real engine "
                 "with n inputs: rows, values per input, first/last row, sequential checksum of the matrix; (b) random engine (shipped examples / generated FLL, 1-4 inputs) x v x scope x "
                 "switches x separator x decimals x active subset, whole text; (c) random reader texts (comments, blank lines, whitespace of every ASCII kind, skipped lines, extra columns, "
                 "too few / ragged / non-numeric / empty); (d) enginelib engines (General activation, algebraic terms, integral and weighted defuzzifiers, lock-previous/default/lock-range, half of them holding state from earlier runs) x small grids: numeric matrix and text computed from the engine model alone.  distinct_nontrivial = measured number of distinct (scope, v, n) / (engine, configuration, exported text) / (engine, configuration, reader text, result) keys; the %d edge cases (v <= 0, no inputs) are not counted"
                 % ("1..300 + perfect powers <= 2000 and neighbours" if ctx.tier == "quick" else "1..2000", ctx.n(4096, 20000), stats["each_skipped_too_large"], stats["edge_cases"]))
    c["distribution"] = {k: v for k, v in stats.items() if k.startswith(("cls_", "scalar_mode")) or k in ("one_point_grids", "shape_variant_cases", "export_raises", "shape_cases", "edge_cases", "text_cases", "reader_cases", "engine_cases", "engine_rows", "rows_total", "text_rows", "reader_rows", "each_skipped_too_large")}
    c["correspondence_mismatches"] = len(mism)
    c["oracle_violations"] = stats["oracle_violations"]
    c["all_variables_root_mismatches"] = [{"v": v, "n": n, "values_per_input": g, "documented_k": w, "rows": r} for v, n, g, w, r in stats["root_bad"]]
    c["samples"] = stats["samples"]
    ev["assumptions"] += [
        "int(round(pow(v, 1.0/n))) (libm pow + rounding) is taken from Python by evaluating the expression of exporter.py; it is only the starting point of the integer correction loops, which the model runs itself (C18_all_variables_k holds for every starting point); the model's row count is compared with the real export",
        "number formatting: the model's fmt is a table value -> '%.<d>f' % value built with Python's formatting for the values the implementation produced; the model must produce bit-identical values to find them",
        "the engine's outputs for the batch are taken from the implementation (the output variables' values after the export) and handed to the model only if its input matrix is bit-identical; the engine itself is C01/C02",
        "reader contents are ASCII; separators contain no '%' (numpy.savetxt builds a %-format out of the separator)",
    ]


def replay(ctx, data):
    import fuzzylite as fl

    S = fl.FldExporter.ScopeOfValues
    for v in data.get("violations", []):
        print(v["signature"], "-", v["what"][:600])
        r = v["replay"]
        if r.get("kind") == "raises":
            eng = (shape_engine_fll if r.get("ranges") == "fll" else shape_engine)(fl, r["n"], [tuple(x) for x in r["range_values"]] if r.get("range_values") else None)
            try:
                cap = make_capture(fl)
                cap.write_from_scope(eng, io.StringIO(), r["v"], S.AllVariables if r.get("all") else S.EachVariable)
                print(f"  now: {cap.captured.shape[0]} rows, first {cap.captured[0].tolist()}")
            except Exception as ex:  # noqa
                print("  now raises", type(ex).__name__, ex)
        elif r.get("kind") in ("root", "each", "grid"):
            cap = make_capture(fl)
            sc = S.EachVariable if r.get("kind") == "each" or r.get("all") is False else S.AllVariables
            with np.errstate(all="ignore"):
                cap.write_from_scope((shape_engine_fll if r.get("ranges") == "fll" else shape_engine)(fl, r["n"], [tuple(x) for x in r["range_values"]] if r.get("range_values") else None), io.StringIO(), r["v"], sc)
            m = cap.captured
            print(f"  now: first row {m[0].tolist()}; {m.shape[0]} rows, {[len(set(m[:, j].tolist())) for j in range(m.shape[1])]} values per input; documented k = {kroot(r['v'], r['n'])}")
        elif r.get("kind") == "engine-raises":
            try:
                e = fl.FllImporter().from_string(r["engine"])
                act = {iv for iv, f in zip(e.input_variables, r["active"]) if f}
                print("  now:\n" + fl.FldExporter(r["separator"], r["headers"], r["inputs"], r["outputs"]).to_string_from_scope(e, r["v"], S.AllVariables if r["all"] else S.EachVariable, act)[:600])
            except Exception as ex:  # noqa
                print("  now raises", type(ex).__name__, ex)
        elif r.get("kind") == "text":
            e = fl.FllImporter().from_string(r["engine"])
            if r.get("float_ranges"):
                floatify(e)
            for iv, lv in zip(e.input_variables, r["last_values"]):
                iv.value = lv
            act = {iv for iv, f in zip(e.input_variables, r["active"]) if f}
            with fl.settings.context(decimals=r["decimals"]):
                print("  now:\n" + fl.FldExporter(r["separator"], r["headers"], r["inputs"], r["outputs"]).to_string_from_scope(e, r["v"], S.AllVariables if r["scope"] == "all" else S.EachVariable, act)[:800])
        elif r.get("kind") == "reader":
            e = fl.FllImporter().from_string(r["engine"])
            try:
                with fl.settings.context(decimals=r["decimals"]):
                    print("  now:\n" + fl.FldExporter(r["separator"], r["headers"], r["inputs"], r["outputs"]).to_string_from_reader(e, io.StringIO(r["text"]), r["skip"])[:800])
            except Exception as ex:
                print("  now raises", type(ex).__name__, ex)
    for b in data.get("broken", []):
        print("BROKEN", b["kind"], b["name"], "\n", b["detail"][:1500])
    return 0
