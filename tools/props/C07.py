"""C07 — each conclusion of a triggered rule contributes exactly its own activation.

Correspondence: real fl.Engine / fl.RuleBlock / fl.Rule objects against Model/Consequent.v (load, modify, trigger)
evaluated inside Coq on the NumF instance; direct oracle: the property statement in Python on the public API.
"""
from __future__ import annotations

import itertools
import math

import numpy as np

import vlib

HEDGES = ["any", "extremely", "not", "seldom", "somewhat", "very"]
HEDGE_CLASSES = ["Any", "Extremely", "Not", "Seldom", "Somewhat", "Very"]
TNORMS = ["AlgebraicProduct", "BoundedDifference", "DrasticProduct", "EinsteinProduct", "HamacherProduct", "Minimum", "NilpotentMinimum"]
COQ_TARGETS = ["Proofs/ConsequentProofs.vo"]
ERR = {"SyntaxError": 0, "ValueError": 1, "KeyError": 2, "IndexError": 2, "RuntimeError": 3}

PRELUDE = r"""
From VF Require Import GenNorm GenHedge GenTerm Core Consequent.
Import ListNotations.
Local Open Scope string_scope.
Local Open Scope list_scope.
(* name, enabled, terms cleared after loading, term names, activations already present (term position, degree) *)
Definition ovlit := (string * bool * bool * list string * list (nat * float))%type.
Definition mk_ov (atload : bool) (o : ovlit) : output_var float :=
  let '(name, en, cleared, tns, old) := o in
  let ts := map (fun n => @TLinear float n []) tns in
  {| ov_name := name; ov_enabled := en; ov_min := 0%float; ov_max := 1%float; ov_lock_range := false;
     ov_lock_previous := false; ov_default := PrimFloat.nan; ov_aggregation := None; ov_defuzzifier := None;
     ov_terms := if atload then ts else if cleared then [] else ts;
     ov_value := PrimFloat.nan; ov_previous := PrimFloat.nan;
     ov_fuzzy := if atload then [] else
       flat_map (fun p : nat * float => match nth_error ts (fst p) with
                            | Some t => [ {| a_term := t; a_degree := snd p; a_implication := None |} ]
                            | None => [] end) old |}.
Definition mk_engine (os : list ovlit) : engine float :=
  {| e_name := "e"; e_inputs := []; e_outputs := map (mk_ov true) os; e_blocks := [] |}.
Definition err_code (e : err) : nat :=
  match e with ESyntax => 0 | EValue => 1 | ELookup => 2 | ERuntime => 3 | EInternal => 4 end.
Definition impl_code (o : option tnormx) : string :=
  match o with None => "" | Some (TN n) => tnorm_name n | Some TSharp => "#" end.
Definition hedge_code (h : hedgex) : string := match h with HG h => hedge_name h | HSharp => "#" end.
Fixpoint list_eqb {A : Type} (eq : A -> A -> bool) (l1 l2 : list A) : bool :=
  match l1, l2 with
  | [], [] => true
  | x :: t1, y :: t2 => eq x y && list_eqb eq t1 t2
  | _, _ => false
  end.
(* ---- load *)
Definition concl_eqb (c : conclusion) (x : nat * list string * nat) : bool :=
  let '(v, hs, t) := x in
  Nat.eqb (c_var c) v && list_eqb String.eqb (map hedge_code (c_hedges c)) hs && Nat.eqb (c_term c) t.
Fixpoint list_eqb2 {A B : Type} (eq : A -> B -> bool) (l1 : list A) (l2 : list B) : bool :=
  match l1, l2 with
  | [], [] => true
  | x :: t1, y :: t2 => eq x y && list_eqb2 eq t1 t2
  | _, _ => false
  end.
Definition check_load (c : list ovlit * list string * (list (nat * list string * nat) + nat)) : bool :=
  let '(os, toks, expected) := c in
  match @load float (mk_engine os) toks, expected with
  | Ok cs, inl xs => list_eqb2 concl_eqb cs xs
  | Err e, inr k => Nat.eqb (err_code e) k
  | _, _ => false
  end.
(* ---- trigger: the rules of a block, one after the other *)
(* enabled, the load operations performed on the rule object in order, activation degree.
   operation (0, tokens) = Rule.load with that consequent text; (1, _) = Rule.unload; (2, tokens) = Consequent.load alone *)
Definition rulelit := (bool * list (nat * list string) * float)%type.
Definition apply_op (e : engine float) (st : bool * list conclusion) (op : nat * list string) : bool * list conclusion :=
  match fst op with
  | 0 => (true, fst (consequent_reload e (snd op) (snd st)))
  | 1 => (false, consequent_unload (snd st))
  | _ => (fst st, fst (consequent_reload e (snd op) (snd st)))
  end.
Definition mk_rule (NF : Num float) (e : engine float) (r : rulelit) : rule float :=
  let '(en, ops, d) := r in
  let st := fold_left (apply_op e) ops (false, []) in
  {| r_enabled := en; r_weight := 1%float;
     r_antecedent := if fst st then Some (EProp (VIn 0) [] (Some 0%nat)) else None;
     r_consequent := snd st;
     r_degree := d; r_triggered := false |}.
Fixpoint run_rules (NF : Num float) (impl : option tnormx) (rs : list (rule float)) (outs : list (output_var float))
         (k : nat) (acc : list bool) : (list bool * list (output_var float)) + (nat * nat) :=
  match rs with
  | [] => inl (rev acc, outs)
  | r :: tl =>
      match @trigger float NF r impl outs with
      | Ok (r', outs') => run_rules NF impl tl outs' (S k) (r_triggered r' :: acc)
      | Err e => inr (k, err_code e)
      end
  end.
Definition act_eqb (a : activated float) (x : string * float * string) : bool :=
  let '(n, d, i) := x in
  String.eqb (term_name (a_term a)) n && fsame (a_degree a) d && String.eqb (impl_code (a_implication a)) i.
Definition expected_t := ((list (list (string * float * string)) * list bool) + (nat * nat))%type.
Definition check_trigger (c : list ovlit * option tnormx * list rulelit * bool * oracle * expected_t) : bool :=
  let '(os, impl, rs, scalar_mode, tbl, expected) := c in
  let NF := NumF scalar_mode tbl in
  let e := mk_engine os in
  match run_rules NF impl (map (mk_rule NF e) rs) (map (mk_ov false) os) 0 [], expected with
  | inl (trig, outs), inl (fz, trig') =>
      list_eqb Bool.eqb trig trig' && list_eqb2 (fun v xs => list_eqb2 act_eqb (ov_fuzzy v) xs) outs fz
  | inr (k, e), inr (k', e') => Nat.eqb k k' && Nat.eqb e e'
  | _, _ => false
  end.
"""

SPECIAL_DEGREES = [0.0, 1.0, 0.5, 0.25, 0.75, math.nan, math.inf, -math.inf, -0.0, 1.0 + 2.0**-52, -(2.0**-53), 1.0000001, -1e-9, 1.5, -0.25,
                   5e-324, math.nextafter(0.5, 1.0), math.nextafter(0.5, 0.0), math.nextafter(1.0, 0.0)]


# --------------------------------------------------------------------------- case generation (pure data)
def gen_vars(rng, quirks: bool):
    n = rng.randint(1, 3)
    names = [f"y{i}" for i in range(n)]
    vs = []
    for i in range(n):
        k = rng.randint(1, 3)
        terms = rng.sample(["p", "q", "r", "s"], k)
        vs.append({"name": names[i], "enabled": rng.random() < 0.8, "cleared": False, "terms": terms, "old": []})
    if quirks:
        q = rng.random()
        if q < 0.25 and n >= 2:  # two variables with the same name: the last one wins
            vs[0]["name"] = vs[-1]["name"]
        elif q < 0.45:  # duplicate term names in a variable: the last one wins
            v = rng.choice(vs)
            v["terms"] = v["terms"] + [v["terms"][0]]
        elif q < 0.6:  # a variable without terms is falsy (Variable.__len__)
            rng.choice(vs)["terms"] = []
        elif q < 0.8:  # terms / variables named like keywords and hedges
            v = rng.choice(vs)
            v["terms"] = v["terms"] + [rng.choice(["very", "is", "and", "with", "not", v["name"]])]
        else:
            rng.choice(vs)["name"] = rng.choice(["is", "and", "very", "p"])
    return vs


def gen_structure(rng, vs, hedge_p=0.6):
    """1-3 conclusions (variable position, hedges, term position); the same variable may repeat"""
    usable = [i for i, v in enumerate(vs) if v["terms"]]
    if not usable:
        return None
    cs = []
    for _ in range(rng.randint(1, 3)):
        vi = rng.choice(usable)
        nh = rng.choice([0, 1, 2]) if rng.random() < hedge_p else 0
        hs = [rng.choice(HEDGES) for _ in range(nh)]
        cs.append((vi, hs, rng.randrange(len(vs[vi]["terms"]))))
    return cs


def text_of(vs, cs):
    return " and ".join(" ".join([vs[vi]["name"], "is"] + hs + [vs[vi]["terms"][ti]]) for vi, hs, ti in cs)


def unique_names(vs):
    names = [v["name"] for v in vs]
    if len(set(names)) != len(names) or any(n in ("is", "and", "with") + tuple(HEDGES) for n in names):
        return False
    for v in vs:
        if len(set(v["terms"])) != len(v["terms"]) or any(t in ("is", "and", "with") + tuple(HEDGES) for t in v["terms"]):
            return False
    return True


def gen_degree(rng):
    k = rng.random()
    if k < 0.45:
        return rng.random()
    if k < 0.8:
        return rng.choice(SPECIAL_DEGREES)
    return rng.choice([i / 8 for i in range(9)])


def mutate(rng, toks, vocab):
    toks = list(toks)
    k = rng.random()
    if k < 0.2 and toks:
        del toks[rng.randrange(len(toks))]
    elif k < 0.4 and toks:
        i = rng.randrange(len(toks))
        toks.insert(i, toks[i])
    elif k < 0.6 and len(toks) >= 2:
        i, j = rng.sample(range(len(toks)), 2)
        toks[i], toks[j] = toks[j], toks[i]
    elif k < 0.8 and toks:
        toks[rng.randrange(len(toks))] = rng.choice(vocab)
    elif k < 0.9:
        toks = toks[: rng.randrange(len(toks) + 1)]
    else:
        toks = [rng.choice(vocab) for _ in range(rng.randint(0, 7))]
    return toks


WITNESS = {
    "kind": "trigger", "mode": "direct", "dtype": "scalar", "impl": "Minimum", "oracle": True, "family": None,
    "vars": [{"name": "x", "enabled": True, "cleared": False, "terms": ["p"], "old": []},
             {"name": "y", "enabled": True, "cleared": False, "terms": ["q"], "old": []}],
    "rules": [{"enabled": True, "cons": "x is very p and y is q", "weight": None, "degree": 0.5, "structure": [(0, ["very"], 0), (1, [], 0)]}],
}


def gen_cases(ctx):
    rng = ctx.rng
    cases = [WITNESS]
    # (a) permutation families: one rule, every order of its conclusions
    fam = 0
    for _ in range(ctx.n(230, 3500)):
        vs = gen_vars(rng, False)
        for v in vs:
            v["enabled"] = rng.random() < 0.85
        cs = gen_structure(rng, vs, 0.75)
        d = gen_degree(rng)
        impl = rng.choice([None] + TNORMS)
        dtype = rng.choice(["scalar", "float"])
        w = rng.choice([None, None, 0.5, 1.0, 0.25])
        fam += 1
        for perm in sorted(set(itertools.permutations(range(len(cs))))):
            pc = [cs[i] for i in perm]
            cases.append({"kind": "trigger", "mode": "direct", "dtype": dtype, "impl": impl, "oracle": True, "family": fam, "vars": vs,
                          "rules": [{"enabled": True, "cons": text_of(vs, pc), "weight": w, "degree": d, "structure": pc}]})
    # (b) blocks of 1-2 rules, all flags, old activations, quirks, malformed consequents, cleared variables
    for _ in range(ctx.n(330, 5000)):
        quirks = rng.random() < 0.25
        vs = gen_vars(rng, quirks)
        oracle_ok = unique_names(vs)
        for v in vs:
            if v["terms"] and rng.random() < 0.3:
                v["old"] = [(rng.randrange(len(v["terms"])), rng.choice([0.0, 0.5, 1.0, rng.random()])) for _ in range(rng.randint(1, 2))]
        rules = []
        for _ in range(rng.randint(1, 2)):
            cs = gen_structure(rng, vs)
            if cs is None:
                cs_text, cs = "y0 is p", None
                oracle_ok = False
            else:
                cs_text = text_of(vs, cs)
            if rng.random() < 0.12:
                vocab = [v["name"] for v in vs] + sum((v["terms"] for v in vs), []) + HEDGES + ["is", "and", "zz"]
                toks = mutate(rng, cs_text.split(), vocab) or ["zz"]
                toks = [t for t in toks if t != "with"] or ["zz"]
                cs_text, cs = " ".join(toks), None
                oracle_ok = False
            if "with" in cs_text.split():  # a term named `with` cannot be written in a rule (Rule.parse cuts the weight there: C16)
                cs_text, cs = " ".join(t for t in cs_text.split() if t != "with") or "zz", None
                oracle_ok = False
            rules.append({"enabled": rng.random() < 0.8, "cons": cs_text, "weight": rng.choice([None, None, 0.5, 1.0]), "degree": gen_degree(rng), "structure": cs})
        if rng.random() < 0.06:
            rng.choice(vs)["cleared"] = True
            oracle_ok = False
        cases.append({"kind": "trigger", "mode": "direct", "dtype": rng.choice(["scalar", "float"]), "impl": rng.choice([None] + TNORMS),
                      "oracle": oracle_ok, "family": None, "vars": vs, "rules": rules})
    # (c) batch degrees (arrays of 2-4 rows)
    for _ in range(ctx.n(150, 2200)):
        vs = gen_vars(rng, False)
        rows = rng.randint(2, 4)
        rules = []
        for _ in range(rng.randint(1, 2)):
            cs = gen_structure(rng, vs, 0.75)
            rules.append({"enabled": rng.random() < 0.85, "cons": text_of(vs, cs), "weight": rng.choice([None, 0.5]), "degree": [gen_degree(rng) for _ in range(rows)], "structure": cs})
        cases.append({"kind": "trigger", "mode": "direct", "dtype": "array", "impl": rng.choice([None] + TNORMS), "oracle": True, "family": None, "vars": vs, "rules": rules})
    # (d) through RuleBlock.activate() with General: degree = weight * membership of the input value
    for _ in range(ctx.n(200, 3000)):
        vs = gen_vars(rng, False)
        batch = rng.random() < 0.35
        rules = []
        for _ in range(rng.randint(1, 2)):
            cs = gen_structure(rng, vs, 0.75)
            rules.append({"enabled": rng.random() < 0.85, "cons": text_of(vs, cs), "weight": rng.choice([None, 0.5, 1.0, 0.75]), "degree": None, "structure": cs})
        if batch:
            inp = [rng.choice([0.0, 1.0, 0.5, rng.random(), rng.random()]) for _ in range(rng.randint(2, 4))]
        else:
            inp = gen_degree(rng)
        cases.append({"kind": "trigger", "mode": "activate", "dtype": "array" if batch else "scalar", "impl": rng.choice([None] + TNORMS), "oracle": True,
                      "family": None, "vars": vs, "rules": rules, "input": inp})
    # (d') every activation method, 1-3 rules with different weights, conjunction / disjunction / implication distinct objects
    for _ in range(ctx.n(320, 4500)):
        vs = gen_vars(rng, False)
        rules = []
        for _ in range(rng.randint(1, 3)):
            cs = gen_structure(rng, vs, 0.5)
            rules.append({"enabled": rng.random() < 0.9, "cons": text_of(vs, cs), "weight": rng.choice([None, 0.25, 0.5, 0.75, 0.5]), "degree": None, "structure": cs})
        impl = rng.choice([None] + TNORMS + TNORMS)
        conj = rng.choice([None, impl] + TNORMS)   # sometimes the same class as the implication, never the same object
        cases.append({"kind": "trigger", "mode": "activate", "dtype": "scalar", "impl": impl, "conjunction": conj, "disjunction": rng.choice([None, "Maximum", "AlgebraicSum"]),
                      "activation": gen_activation(rng), "oracle": True, "family": None, "vars": vs, "rules": rules,
                      "input": rng.choice([rng.random(), rng.random(), 0.5, 1.0, 0.25, gen_degree(rng)])})
    # (f) the life of a rule object before the trigger: loaded twice, text changed and loaded again, unloaded and loaded,
    #     Rule.create then load, Consequent.load alone — one activated term per enabled conclusion of the LAST loaded text
    for _ in range(ctx.n(260, 3600)):
        vs = gen_vars(rng, False)
        rules = []
        oracle_ok = True
        for _ in range(rng.randint(1, 2)):
            cs = gen_structure(rng, vs, 0.5)
            cs0 = gen_structure(rng, vs, 0.5)
            t, t0 = text_of(vs, cs), text_of(vs, cs0)
            kind = rng.randrange(10)
            final = cs
            if kind == 0:
                script = [["new", t], ["load"], ["load"]]
            elif kind == 1:
                script = [["create", t], ["load"]]
            elif kind == 2:
                script = [["new", t0], ["load"], ["text", t], ["load"]]
            elif kind == 3:
                script = [["new", t], ["load"], ["unload"], ["load"]]
            elif kind == 4:
                script = [["create", t], ["cload"]]
            elif kind == 5:
                script = [["new", t], ["load"], ["load"], ["cload"], ["load"]]
            elif kind == 6:
                script = [["create", t0], ["text", t], ["load"], ["load"]]
            elif kind == 7:  # a failed reload leaves the rule unloaded; loading the repaired text afterwards works
                script = [["new", t], ["load"], ["text", t + " zz"], ["load"], ["text", t], ["load"]]
            elif kind == 8:  # text changed but not loaded again: the conclusions of the old text stay in force
                script = [["new", t0], ["load"], ["text", t]]
                final = cs0
            else:  # ends unloaded (RuntimeError on trigger) or with a failed load
                script = rng.choice([[["new", t], ["load"], ["unload"]], [["new", t], ["load"], ["text", t + " and"], ["load"]], [["new", t], ["load"], ["unload"], ["cload"]]])
                final = None
                oracle_ok = False
            rules.append({"enabled": rng.random() < 0.9, "cons": text_of(vs, final) if final else t, "weight": rng.choice([None, 0.5]), "degree": gen_degree(rng),
                          "structure": final, "script": script})
        mode = rng.choice(["direct", "direct", "activate"])
        case = {"kind": "trigger", "mode": mode, "dtype": rng.choice(["scalar", "float"]) if mode == "direct" else "scalar", "impl": rng.choice([None] + TNORMS),
                "oracle": oracle_ok, "family": None, "vars": vs, "rules": rules}
        if mode == "activate":
            case["input"] = gen_degree(rng)
            case["activation"] = gen_activation(rng)
            case["conjunction"] = rng.choice([None, case["impl"]] + TNORMS)
            if not oracle_ok:
                case["oracle"] = False
        cases.append(case)
    # (e) Consequent.load alone: crafted corner cases, then well-formed, mutated and random texts, quirky engines
    def V(name, terms, enabled=True):
        return {"name": name, "enabled": enabled, "cleared": False, "terms": terms, "old": []}

    crafted = [
        ([V("y", ["very", "p"])], ["y is very", "y is very very", "y is very p", "y is not very", "y is p and y is very", "y is p very"]),   # hedge names win over term names
        ([V("is", ["is", "p"])], ["is is is", "is is p", "is is", "is p", "is is is and is is p"]),
        ([V("and", ["and"]), V("y", ["p"])], ["and is and and and is and", "y is p and and is and", "y is p and", "and and"]),
        ([V("y", ["p"]), V("y", ["q"])], ["y is p", "y is q", "y is q and y is q"]),                                                     # the last variable named y wins
        ([V("y", ["p", "q", "p"])], ["y is p", "y is q and y is p"]),                                                                   # the last term named p wins
        ([V("y", []), V("z", ["p"])], ["y is p", "z is p", "z is p and y is p"]),                                                       # a variable without terms is falsy
        ([V("y", ["p"], False)], ["y is p", "y is very p and y is p"]),                                                                 # disabled variables load normally
        ([V("y", ["p"])], ["y is p with 0.5", "y is p with", "with", "y = p", "y is", "y", "y is any", "y is any p", "y is p and", "y is p y is p", "y is p and y",
                           "y is p and and y is p", "Y is p", "y IS p", "y is extremely seldom somewhat not any very p", "# y is p"]),
    ]
    for vs, texts in crafted:
        for t in texts:
            cases.append({"kind": "load", "vars": vs, "text": t})
    for _ in range(ctx.n(420, 6000)):
        vs = gen_vars(rng, rng.random() < 0.45)
        cs = gen_structure(rng, vs)
        toks = text_of(vs, cs).split() if cs else ["y0", "is", "p"]
        vocab = [v["name"] for v in vs] + sum((v["terms"] for v in vs), []) + HEDGES + ["is", "and", "with", "zz", "="]
        k = rng.random()
        if k < 0.65:
            for _ in range(rng.choice([1, 1, 2])):
                toks = mutate(rng, toks, vocab)
        text = " ".join(toks)
        if k > 0.97:
            text = rng.choice(["", "   ", " \t "])
        cases.append({"kind": "load", "vars": vs, "text": text})
    return cases


# --------------------------------------------------------------------------- running a case on the implementation
def build_engine(fl, spec):
    if spec.get("mode") == "activate":
        if spec["dtype"] == "array":
            lo = fl.Ramp("lo", 0.0, 1.0)
        else:
            lo = fl.Constant("lo", spec["input"])
    else:
        lo = fl.Ramp("lo", 0.0, 1.0)
    a = fl.InputVariable("a", minimum=0.0, maximum=1.0, terms=[lo])
    outs = []
    for v in spec["vars"]:
        terms = [fl.Triangle(t, 0.0, 0.5, 1.0) if i % 2 == 0 else fl.Constant(t, 0.5) for i, t in enumerate(v["terms"])]
        outs.append(fl.OutputVariable(v["name"], enabled=v["enabled"], minimum=0.0, maximum=1.0, terms=terms))
    return fl.Engine("e", input_variables=[a], output_variables=outs), a, outs


def position(objs, o):
    for i, x in enumerate(objs):
        if x is o:
            return i
    return -1


def conclusions_of(consequent, outs):
    res = []
    for p in consequent.conclusions:
        vi = position(outs, p.variable)
        res.append((vi, [h.name for h in p.hedges], position(p.variable.terms, p.term)))
    return res


class patched_hedges:
    """fl.hedge.<H>.hedge replaced by the observer clone's method (records libm pow), restored on exit"""

    def __init__(self, fl, obs):
        self.fl, self.obs, self.saved = fl, obs, {}

    def __enter__(self):
        for c in HEDGE_CLASSES:
            cls = getattr(self.fl.hedge, c)
            self.saved[c] = cls.__dict__["hedge"]
            cls.hedge = getattr(self.obs, c).__dict__["hedge"]
        return self

    def __exit__(self, *a):
        for c, f in self.saved.items():
            getattr(self.fl.hedge, c).hedge = f
        return False


def run_load(fl, spec):
    engine, a, outs = build_engine(fl, spec)
    c = fl.Consequent(spec["text"])
    try:
        c.load(engine)
    except Exception as ex:  # noqa: BLE001
        return {"error": type(ex).__name__}
    return {"conclusions": conclusions_of(c, outs)}


def full_text(r, cons):
    return "if a is lo then " + cons + (f" with {r['weight']}" if r["weight"] is not None else "")


def run_script(fl, engine, r):
    """the life of one rule object before it is triggered; default: create the rule, parse the text, load it once.
    Returns the rule and the load operations performed, (kind, tokens of the consequent text at that moment)."""
    script = r.get("script") or [["new", r["cons"]], ["load"]]
    rule = None
    ops = []
    for step in script:
        try:
            if step[0] == "new":
                rule = fl.Rule()
                rule.parse(full_text(r, step[1]))
            elif step[0] == "create":  # Rule.create(text, engine) parses and loads
                ops.append((0, step[1].split()))
                rule = fl.Rule.create(full_text(r, step[1]), engine)
            elif step[0] == "text":
                rule.text = full_text(r, step[1])
            elif step[0] == "load":
                ops.append((0, rule.consequent.text.split()))
                rule.load(engine)
            elif step[0] == "cload":
                ops.append((2, rule.consequent.text.split()))
                rule.consequent.load(engine)
            elif step[0] == "unload":
                ops.append((1, []))
                rule.unload()
        except SyntaxError:
            if rule is None:
                raise
    rule.enabled = r["enabled"]
    return rule, ops


def impl_label(x, block_implication):
    """class name of the implication carried by an activated term; marked when it is not the block's own object"""
    if x is None:
        return ""
    return type(x).__name__ + ("" if x is block_implication else "!not-the-block's-implication")


def make_activation(fl, a):
    if not a or a[0] == "General":
        return fl.General()
    if a[0] in ("First", "Last"):
        return getattr(fl, a[0])(rules=a[1], threshold=a[2])
    if a[0] in ("Highest", "Lowest"):
        return getattr(fl, a[0])(rules=a[1])
    if a[0] == "Proportional":
        return fl.Proportional()
    if a[0] == "Threshold":
        return fl.Threshold(comparator=a[1], threshold=a[2])
    raise KeyError(a[0])


def gen_activation(rng, general_only=False):
    k = "General" if general_only else rng.choice(["General", "First", "Last", "Highest", "Lowest", "Proportional", "Threshold", "Highest", "Lowest", "Proportional"])
    if k in ("First", "Last"):
        return [k, rng.choice([1, 1, 2, 3]), rng.choice([0.0, 0.0, 0.1, 0.25])]
    if k in ("Highest", "Lowest"):
        return [k, rng.choice([1, 1, 2, 3])]
    if k == "Threshold":
        return [k] + list(rng.choice([(">", 0.0), (">", 0.0), (">=", 0.0), (">=", 0.25), ("<=", 1.0), ("<", 0.5), ("!=", 0.5), ("==", 0.5)]))
    return [k]


def run_trigger(fl, obs, spec):
    """returns the observation of one case: degrees used, fuzzy outputs, triggered flags (or the exception)"""
    engine, a, outs = build_engine(fl, spec)
    impl = getattr(fl, spec["impl"])() if spec["impl"] else None
    rules = []
    all_ops = []
    for r in spec["rules"]:
        rule, ops = run_script(fl, engine, r)
        rules.append(rule)
        all_ops.append(ops)
    # conjunction, disjunction and implication are always DISTINCT objects (sometimes of the same class): an activated
    # term must carry the block's implication object itself
    conj = getattr(fl, spec["conjunction"])() if spec.get("conjunction") else None
    disj = getattr(fl, spec["disjunction"])() if spec.get("disjunction") else None
    rb = fl.RuleBlock("rb", conjunction=conj, disjunction=disj, implication=impl, activation=make_activation(fl, spec.get("activation")), rules=rules)
    engine.rule_blocks = [rb]
    for v, ov in zip(spec["vars"], outs):
        for ti, d in v["old"]:
            ov.fuzzy.terms.append(fl.Activated(ov.terms[ti], d, None))
        if v["cleared"]:
            ov.terms.clear()
    batch = spec["dtype"] == "array"
    out = {"ops": all_ops, "conclusions": [len(r.consequent.conclusions) for r in rules]}
    vlib.RECORDER.reset()
    err = None
    with patched_hedges(fl, obs), np.errstate(all="ignore"):
        trigger_error = []
        calls = []  # (rule position, degree of the rule when Rule.trigger is called, implication argument is the block's)
        if spec["mode"] == "activate":
            a.value = fl.array(spec["input"]) if batch else spec["input"]

            def logged(i, rule):
                def trigger(implication):
                    calls.append((i, np.array(rule.activation_degree, dtype=float, copy=True), implication is impl))
                    try:
                        return fl.Rule.trigger(rule, implication)
                    except Exception as ex:  # noqa: BLE001
                        trigger_error.append((len(calls) - 1, type(ex).__name__))
                        raise

                return trigger

            for i, rule in enumerate(rules):
                rule.trigger = logged(i, rule)  # instance attribute: the activation method calls rule.trigger(...)
            try:
                rb.activate()
            except Exception as ex:  # noqa: BLE001
                err = trigger_error[0] if trigger_error else (-1, type(ex).__name__)  # -1: raised by the activation method itself
            for rule in rules:
                del rule.trigger
            considered = [i for i, _, _ in calls]  # the model replays the trigger calls in the order they were made
        else:
            considered = list(range(len(rules)))
            for k, (r, rule) in enumerate(zip(spec["rules"], rules)):
                d = r["degree"]
                rule.activation_degree = np.array(d, dtype=float) if batch else (float(d) if spec["dtype"] == "float" else fl.scalar(d))
                try:
                    rule.trigger(impl)
                except Exception as ex:  # noqa: BLE001
                    err = (k, type(ex).__name__)
                    break
    out["table"] = vlib.RECORDER.take()
    out["considered"] = considered
    out["error"] = err
    nrows = 1
    degs = [np.atleast_1d(np.asarray(rule.activation_degree, dtype=float)) for rule in rules]
    out["foreign_implication_calls"] = 0
    if spec["mode"] == "activate":
        for i, d, same in calls:
            degs[i] = np.atleast_1d(d)
            out["foreign_implication_calls"] += not same
    trig = [np.atleast_1d(np.asarray(rule.triggered)) for rule in rules]
    fz = [[(t.term.name, np.atleast_1d(np.asarray(t.degree, dtype=float)), impl_label(t.implication, impl)) for t in ov.fuzzy.terms] for ov in outs]
    for arr in degs + trig + [d for f in fz for _, d, _ in f]:
        nrows = max(nrows, arr.size)
    out["rows"] = nrows
    row = lambda arr, j: arr[j] if arr.size > 1 else arr[0]  # noqa: E731
    out["degrees"] = [[float(row(d, j)) for d in degs] for j in range(nrows)]
    out["triggered"] = [[bool(row(t, j)) for t in trig] for j in range(nrows)]
    out["fuzzy"] = [[[(n, float(row(d, j)), i) for n, d, i in f] for f in fz] for j in range(nrows)]
    out["scalar_kinds"] = sorted({type(t.degree).__name__ for ov in outs for t in ov.fuzzy.terms})
    return out


# --------------------------------------------------------------------------- Coq literals
def b(x):
    return "true" if x else "false"


def ov_lit(v):
    old = vlib.coq_list(f"({ti}%nat, {vlib.fhex(d)})" for ti, d in v["old"])
    return f"({vlib.coq_string(v['name'])}, {b(v['enabled'])}, {b(v['cleared'])}, {vlib.coq_list(vlib.coq_string(t) for t in v['terms'])}, {old})"


def strs(xs):
    return vlib.coq_list(vlib.coq_string(x) for x in xs)


def ops_lit(ops):
    return vlib.coq_list(f"({k}%nat, {strs(toks)})" for k, toks in ops)


def load_lit(spec, obs):
    if "error" in obs:
        exp = f"inr {ERR.get(obs['error'], 4)}%nat"
    else:
        exp = "inl " + vlib.coq_list(f"({vi}%nat, {strs(hs)}, {ti}%nat)" for vi, hs, ti in obs["conclusions"])
    return f"({vlib.coq_list(ov_lit(v) for v in spec['vars'])}, {strs(spec['text'].split())}, {exp})"


def trigger_lits(spec, obs):
    """one Coq case per row"""
    lits = []
    scalar_mode = spec["dtype"] != "array"
    idx = obs["considered"]
    impl = f"Some (TN T_{spec['impl']})" if spec["impl"] else "None"
    for j in range(obs["rows"]):
        rules = vlib.coq_list(f"({b(spec['rules'][i]['enabled'])}, {ops_lit(obs['ops'][i])}, {vlib.fhex(obs['degrees'][j][i])})" for i in idx)
        if obs["error"]:
            k, cls = obs["error"]
            exp = f"inr ({k}%nat, {ERR.get(cls, 4)}%nat)"
        else:
            fz = vlib.coq_list(vlib.coq_list(f"({vlib.coq_string(n)}, {vlib.fhex(d)}, {vlib.coq_string(i)})" for n, d, i in f) for f in obs["fuzzy"][j])
            exp = f"inl ({fz}, {vlib.coq_list(b(obs['triggered'][j][i]) for i in idx)})"
        tbl = vlib.oracle_lit(obs["table"]) if scalar_mode else "[]"
        lits.append(f"({vlib.coq_list(ov_lit(v) for v in spec['vars'])}, {impl}, {rules}, {b(scalar_mode)}, {tbl}, {exp})")
    return lits


# --------------------------------------------------------------------------- direct oracle: the property statement
def sanitize(d):
    if d != d or d == -math.inf:
        return 0.0
    if d == math.inf:
        return 1.0
    return d


def close(x, y):
    return (x != x and y != y) or x == y or abs(x - y) <= 1e-12


def oracle_case(fl, hedge_objs, spec, obs, verdict, replay):
    """Each conclusion `variable is [hedge]* term` of an enabled, loaded rule adds to its (enabled) variable exactly one
    activation: the concluded term, the block's implication, sanitize(own hedges applied to the rule's degree); nothing
    is added for disabled variables and disabled rules.  Returns the number of violations reported."""
    nv = 0
    vs = spec["vars"]
    rules = [spec["rules"][i] for i in obs["considered"]]
    if obs["error"]:
        verdict.add_violation("trigger:raises", f"triggering well-formed rules raised {obs['error'][1]} at rule {obs['error'][0]}: {[r['cons'] for r in rules]}", replay)
        return 1

    def hedged(hs, d):
        with np.errstate(all="ignore"):
            for h in reversed(hs):
                d = float(hedge_objs[h].hedge(d))
        return d

    if spec["mode"] == "activate":
        if obs["foreign_implication_calls"]:
            verdict.add_violation("activate:implication", f"{(spec.get('activation') or ['General'])[0]} called Rule.trigger {obs['foreign_implication_calls']} times with an operator that is not the block's implication "
                                  f"(block: conjunction={spec.get('conjunction')}, implication={spec['impl']})", replay); nv += 1
        # the degree the method passes: weight * membership, normalised by the sum of the positive degrees under Proportional
        method = (spec.get("activation") or ["General"])[0]
        for j in range(obs["rows"]):
            mu = spec["input"][j] if isinstance(spec["input"], list) else spec["input"]
            raw = [(1.0 if r["weight"] is None else r["weight"]) * mu for r in spec["rules"]]
            total = sum(x for x in raw if x > 0.0)
            for k in obs["considered"]:
                with np.errstate(all="ignore"):
                    want_d = float(np.float64(raw[k]) / np.float64(total)) if method == "Proportional" else raw[k]
                if not close(obs["degrees"][j][k], want_d):
                    verdict.add_violation("activate:degree", f"{method}: rule '{spec['rules'][k]['cons']}' weight {spec['rules'][k]['weight']} input {mu} was triggered with degree {obs['degrees'][j][k]!r}, expected {want_d!r}", replay); nv += 1
    for j in range(obs["rows"]):
        want = [[(v["terms"][ti], d, "") for ti, d in v["old"]] for v in vs]
        leak = [list(w) for w in want]  # what the carried-over degree would give (diagnosis of F1 only)
        for k, r in zip(obs["considered"], rules):
            d = obs["degrees"][j][k]
            trig = obs["triggered"][j][k]
            if trig != (r["enabled"] and d > 0.0):
                verdict.add_violation("trigger:triggered", f"rule '{r['cons']}' enabled={r['enabled']} degree={d}: triggered={trig}", replay); nv += 1
            if not r["enabled"]:
                continue
            run = d
            for vi, hs, ti in r["structure"]:
                if not vs[vi]["enabled"]:
                    continue
                want[vi].append((vs[vi]["terms"][ti], sanitize(hedged(hs, d)), spec["impl"] or ""))
                run = hedged(hs, run)
                leak[vi].append((vs[vi]["terms"][ti], sanitize(run), spec["impl"] or ""))
        for vi, v in enumerate(vs):
            got = obs["fuzzy"][j][vi]
            w = want[vi]
            desc = f"rules {[('' if r['enabled'] else '(disabled) ') + r['cons'] for r in rules]} degrees {[obs['degrees'][j][k] for k in obs['considered']]} ({spec['mode']}, {spec['dtype']}): variable {v['name']}"
            if len(got) != len(w):
                sig = "modify:disabled-variable" if not v["enabled"] else "modify:count"
                verdict.add_violation(sig, f"{desc} has {len(got)} activated terms, expected {len(w)}: {got}", replay); nv += 1
                continue
            for p, ((gn, gd, gi), (wn, wd, wi)) in enumerate(zip(got, w)):
                if gn != wn:
                    verdict.add_violation("modify:term", f"{desc} activation {p} is term {gn}, expected {wn}", replay); nv += 1
                elif gi != wi:
                    verdict.add_violation("modify:implication", f"{desc} activation {p} carries implication '{gi}', expected '{wi}'", replay); nv += 1
                elif not close(gd, wd):
                    if close(gd, leak[vi][p][1]):
                        verdict.add_violation("modify:hedged-degree-leaks",
                                              f"{desc} activation {p} ({gn}) has degree {gd!r}, its own hedges give {wd!r}: the degree hedged by an EARLIER conclusion was reused", replay)
                    else:
                        verdict.add_violation("modify:degree", f"{desc} activation {p} ({gn}) has degree {gd!r}, expected {wd!r}", replay)
                    nv += 1
    return nv


def same_multisets(k1, k2):
    if [len(f) for f in k1] != [len(f) for f in k2]:
        return False
    return all(a[0] == b[0] and a[1] == b[1] and close(a[2], b[2]) for f1, f2 in zip(k1, k2) for a, b in zip(f1, f2))


def oracle_families(families, verdict):
    """reordering the conclusions of a rule must leave every variable the same multiset of activations"""
    nv = 0
    for fam, members in families.items():
        if any(m["flagged"] for m in members):
            continue  # already reported case by case
        ref = None
        for m in members:
            key = [sorted((n, i, d) for n, d, i in f) for f in m["obs"]["fuzzy"][0]]  # stored degrees are never NaN
            if ref is None:
                ref = (key, m)
            elif not same_multisets(key, ref[0]):
                verdict.add_violation("modify:order-dependence", f"'{ref[1]['spec']['rules'][0]['cons']}' and '{m['spec']['rules'][0]['cons']}' give different activations", m["replay"]); nv += 1
                break
    return nv


def jsonable(spec):
    import json

    return json.loads(json.dumps(spec, default=lambda o: list(o)))


# --------------------------------------------------------------------------- the check
def run(ctx, build, verdict, ev):
    import fuzzylite as fl

    obs_mod = vlib.observed_module("hedge")
    hedge_objs = {h: getattr(fl.hedge, c)() for h, c in zip(HEDGES, HEDGE_CLASSES)}
    originals = {c: getattr(fl.hedge, c).__dict__["hedge"] for c in HEDGE_CLASSES}
    cases = gen_cases(ctx)
    load_lits, trig_lits, index = [], [], []
    families: dict[int, list] = {}
    dist = {"load_ok": 0, "load_rejected": 0, "trigger_ok": 0, "trigger_raises": 0, "rows_scalar": 0, "rows_batch": 0, "activate": 0, "hedged_conclusions": 0,
            "multi_conclusion": 0, "disabled_rule": 0, "disabled_variable": 0, "special_degree": 0, "reload_scripts": 0, "methods": {}, "activate_raised_outside_trigger": 0, "oracle_checked": 0, "permutation_families": 0, "oracle_entries": 0}
    nviol = 0
    nontrivial = set()
    samples = []
    trig_index = []
    for spec in cases:
        if spec["kind"] == "load":
            o = run_load(fl, spec)
            dist["load_rejected" if "error" in o else "load_ok"] += 1
            load_lits.append(load_lit(spec, o))
            index.append(("load", spec, o))
            continue
        o = run_trigger(fl, obs_mod, spec)
        replay = {"spec": jsonable(spec)}
        if o["error"] and o["error"][0] < 0:  # the activation method raised outside Rule.trigger: nothing for the model to replay
            dist["activate_raised_outside_trigger"] += 1
            if spec["oracle"]:
                verdict.add_violation("activate:raises", f"{spec.get('activation')} raised {o['error'][1]} on rules {[r['cons'] for r in spec['rules']]} input {spec.get('input')}", replay)
                nviol += 1
            continue
        lits = trigger_lits(spec, o)
        trig_lits += lits
        trig_index += [(spec, o, j) for j in range(len(lits))]
        dist["trigger_raises" if o["error"] else "trigger_ok"] += 1
        dist["rows_batch" if spec["dtype"] == "array" else "rows_scalar"] += o["rows"]
        dist["activate"] += spec["mode"] == "activate"
        if spec["mode"] == "activate":
            m = (spec.get("activation") or ["General"])[0]
            dist["methods"][m] = dist["methods"].get(m, 0) + 1
        dist["oracle_entries"] += len(o["table"])
        for r in spec["rules"]:
            dist["disabled_rule"] += not r["enabled"]
            dist["reload_scripts"] += "script" in r
            if r["structure"]:
                dist["multi_conclusion"] += len(r["structure"]) > 1
                dist["hedged_conclusions"] += sum(1 for _, hs, _ in r["structure"] if hs)
                dist["disabled_variable"] += any(not spec["vars"][vi]["enabled"] for vi, _, _ in r["structure"])
        dist["special_degree"] += any(not (0.0 < d < 1.0) for row in o["degrees"] for d in row)
        flagged = False
        if spec["oracle"] and all(r["structure"] for r in spec["rules"]):
            n = oracle_case(fl, hedge_objs, spec, o, verdict, replay)
            nviol += n
            flagged = n > 0
            dist["oracle_checked"] += 1
        if spec["family"] is not None and not o["error"]:
            families.setdefault(spec["family"], []).append({"spec": spec, "obs": o, "flagged": flagged, "replay": replay})
        if not o["error"]:
            for j in range(o["rows"]):
                for f in o["fuzzy"][j]:
                    for n_, d, i in f:
                        if 0.0 < d < 1.0:
                            nontrivial.add((tuple(r["cons"] for r in spec["rules"]), n_, d))
        if len(samples) < 6 and len(trig_index) % 97 < 3:
            samples.append({"rules": [r["cons"] for r in spec["rules"]], "degrees": o["degrees"][0], "fuzzy": o["fuzzy"][0] if not o["error"] else None, "error": o["error"]})
    dist["permutation_families"] = len(families)
    nviol += oracle_families(families, verdict)
    for c in HEDGE_CLASSES:  # the patch must have been undone
        if getattr(fl.hedge, c).__dict__["hedge"] is not originals[c]:
            verdict.add_broken("harness", "hedge-patch", f"fl.hedge.{c}.hedge was not restored")
    mism = []
    if not build.translation_errors:
        groups = [
            ("list ovlit * list string * (list (nat * list string * nat) + nat)", "check_load", load_lits),
            ("list ovlit * option tnormx * list rulelit * bool * oracle * expected_t", "check_trigger", trig_lits),
        ]
        bad, log = vlib.run_coq_cases(ctx.work, "c07", PRELUDE, groups, chunk=250)
        for i in bad:
            if i < 0:
                verdict.add_broken("correspondence", "C07:coq-evaluation", log)
                break
            if i < len(load_lits):
                _, spec, o = index[i]
                mism.append(("load", spec["text"], [v["name"] + ":" + ",".join(v["terms"]) for v in spec["vars"]], o))
            else:
                spec, o, j = trig_index[i - len(load_lits)]
                mism.append(("trigger", [r["cons"] for r in spec["rules"]], o["degrees"][j], o["fuzzy"][j] if not o["error"] else o["error"], spec["mode"], spec["dtype"]))
        if mism:
            verdict.add_broken("correspondence", f"Consequent.{mism[0][0]} / Rule.trigger model", f"model and implementation differ on {len(mism)} cases, first: {mism[:3]}")
    c = ev["coverage"]
    c["evaluations"] = len(load_lits) + len(trig_lits)
    c["distinct_nontrivial"] = len(nontrivial)
    c["rule"] = ("engines with 1-3 output variables (1-3 terms; some with duplicate names, no terms, names equal to keywords/hedges), consequents with 1-3 conclusions "
                 "(variables may repeat), 0-2 of the six hedges each, every order of the conclusions (permutation families), optional `with w`, 1-2 rules per block, "
                 "enabled/disabled rules and variables, old activations, mutated/random consequent texts; degrees random, k/8, NaN, +-inf, +-0, values just outside [0,1]; "
                 "set directly (float, 0-d array, 1-d batch) then Rule.trigger, or through RuleBlock.activate() with every activation method (General, First, Last, Highest, Lowest, Proportional, Threshold; conjunction, disjunction and implication distinct objects; "
                 "the model replays the logged Rule.trigger calls with the block's implication, the oracle checks the operator identity and the degree passed, normalised under Proportional); "
                 "rule objects loaded twice / re-loaded after a text change / unloaded and loaded / Rule.create then load; one Coq evaluation per batch row. "
                 "non-trivial = distinct (rule texts, term, stored degree) with the degree strictly inside (0,1)")
    c["distribution"] = dist
    c["correspondence_mismatches"] = len(mism)
    c["oracle_violations"] = nviol
    c["samples"] = samples
    w = next((o for sp, o, j in trig_index if sp is WITNESS), None)
    if w is not None and not w["error"]:
        c["F1_minimal_witness"] = {"rule": "if a is lo then x is very p and y is q", "degree": 0.5, "y_degree_observed": w["fuzzy"][0][1][0][1], "y_degree_documented": 0.5,
                                   "leak_present": w["fuzzy"][0][1][0][1] != 0.5}
    c["model_variant"] = "Consequent.code_has_F1 = true (modify = modify_as_written)"
    ev["assumptions"] += [
        "libm pow(x, 2) results of the hedge `extremely` in scalar mode are taken from the implementation (oracle table recorded by an observer clone of hedge.py patched in during the run)",
        "the direct oracle applies the real hedge objects (property C05) to the rule's degree; positions of variables/terms are object identities",
        "in activate() mode WHICH rules a method triggers is taken from the logged Rule.trigger calls (selection is property C08); C07 checks what each call contributes",
        "on an exception inside Consequent.modify the model reports only the exception class (activations appended before the raise are not compared)",
    ]


def replay(ctx, data):
    import fuzzylite as fl

    obs_mod = vlib.observed_module("hedge")
    for v in data.get("violations", []):
        print(v["signature"], "--", v["what"])
        spec = v["replay"].get("spec")
        if spec:
            for r in spec["rules"]:
                if r.get("structure"):
                    r["structure"] = [tuple(c) for c in r["structure"]]
            o = run_trigger(fl, obs_mod, spec)
            print("  now: degrees", o["degrees"], "fuzzy", o["fuzzy"], "triggered", o["triggered"], "error", o["error"])
    for br in data.get("broken", []):
        print("BROKEN", br["kind"], br["name"], "\n", br["detail"][:1500])
    return 0
