"""C04 — T-norms and S-norms compute their formulas and obey the norm laws."""
from __future__ import annotations

import itertools
import math
from fractions import Fraction

import numpy as np

import vlib

TNORMS = ["AlgebraicProduct", "BoundedDifference", "DrasticProduct", "EinsteinProduct", "HamacherProduct", "Minimum", "NilpotentMinimum"]
SNORMS = ["AlgebraicSum", "BoundedSum", "DrasticSum", "EinsteinSum", "HamacherSum", "Maximum", "NilpotentMaximum", "NormalizedSum", "UnboundedSum"]
DUALS = [("AlgebraicSum", "AlgebraicProduct"), ("BoundedSum", "BoundedDifference"), ("DrasticSum", "DrasticProduct"), ("EinsteinSum", "EinsteinProduct"),
         ("HamacherSum", "HamacherProduct"), ("Maximum", "Minimum"), ("NilpotentMaximum", "NilpotentMinimum")]
COQ_TARGETS = ["Proofs/NormLaws.vo"]

F = Fraction
DOC = {  # documented formulas, exact rational arithmetic
    "AlgebraicProduct": lambda a, b: a * b,
    "BoundedDifference": lambda a, b: max(0 * a, a + b - 1),
    "DrasticProduct": lambda a, b: min(a, b) if max(a, b) == 1 else 0 * a,
    "EinsteinProduct": lambda a, b: (a * b) / (2 - (a + b - a * b)),
    "HamacherProduct": lambda a, b: 0 * a if a + b == 0 else (a * b) / (a + b - a * b),
    "Minimum": lambda a, b: min(a, b),
    "NilpotentMinimum": lambda a, b: min(a, b) if a + b > 1 else 0 * a,
    "AlgebraicSum": lambda a, b: a + b - a * b,
    "BoundedSum": lambda a, b: min(0 * a + 1, a + b),
    "DrasticSum": lambda a, b: max(a, b) if min(a, b) == 0 else 0 * a + 1,
    "EinsteinSum": lambda a, b: (a + b) / (1 + a * b),
    "HamacherSum": lambda a, b: 0 * a + 1 if a * b == 1 else (a + b - 2 * a * b) / (1 - a * b),
    "Maximum": lambda a, b: max(a, b),
    "NilpotentMaximum": lambda a, b: max(a, b) if a + b < 1 else 0 * a + 1,
    "NormalizedSum": lambda a, b: (a + b) / max(0 * a + 1, a + b),
    "UnboundedSum": lambda a, b: a + b,
}


def inputs(ctx):
    g = ctx.n(16, 64)
    grid = [i / g for i in range(g + 1)]
    pairs = [(a, b) for a in grid for b in grid]
    rnd = []
    for _ in range(ctx.n(1500, 20000)):
        k = ctx.rng.random()
        if k < 0.6:
            rnd.append((ctx.rng.random(), ctx.rng.random()))
        elif k < 0.8:  # near the branch a+b = 1, max = 1, min = 0
            a = ctx.rng.random()
            b = ctx.rng.choice(vlib.neighbours(1.0 - a))
            rnd.append((a, b))
        else:
            a = ctx.rng.choice([0.0, 1.0, 5e-324, math.nextafter(1.0, 0.0), 0.5])
            rnd.append((a, ctx.rng.random()) if ctx.rng.random() < 0.5 else (ctx.rng.random(), a))
    special = [(a, b) for a in vlib.SPECIALS + [0.5, 1.0] for b in vlib.SPECIALS + [0.5, 1.0]]
    # values at tolerance scale around the branch points (a comparison replaced by a tolerant one shows only there)
    # and products/sums that underflow or are absorbed
    eps = [1e-3, 5e-4, 2.0 ** -11, 2.0 ** -12, 1e-6, 1e-9, 2.0 ** -40, 2.0 ** -53, 2.0 ** -60]
    near = sorted({c + s * e for c in (0.0, 0.5, 1.0) for e in eps for s in (1, -1) if 0.0 <= c + s * e <= 1.0} | {1e-200, 2.0 ** -600, 5e-324, 1e-308, 1e-17})
    partners = [0.0, 1.0, 0.5, 0.25, 0.75, 1e-200, 2.0 ** -11, 1 - 2.0 ** -11, 0.3]
    tol_pairs = [(a, b) for a in near for b in partners + [1.0 - a, min(1.0, 1.0 - a + 2.0 ** -11), max(0.0, 1.0 - a - 2.0 ** -11), a]]
    # sums within one rounding of the branch point 1: the largest/smallest doubles next to 1 - b
    for b in [0.75, 0.5, 0.625, 0.9375, 0.7, 0.9, 0.3, 0.1, 0.25] + [rng_b / 16 for rng_b in range(1, 16)]:
        for a in (math.nextafter(1.0 - b, 0.0), math.nextafter(1.0 - b, 2.0), 1.0 - b):
            if 0.0 <= a <= 1.0:
                tol_pairs.append((a, b))
    tol_pairs += [(b, a) for a, b in tol_pairs]
    return grid, pairs, rnd, special + tol_pairs


def run(ctx, build, verdict, ev):
    import fuzzylite as fl

    grid, pairs, rnd, special = inputs(ctx)
    allpairs = pairs + rnd + special
    groups = []
    index = []  # global case index -> description
    dist = {"grid": len(pairs), "random": len(rnd), "special": len(special), "array_elements": 0, "broadcast_elements": 0}
    for name in TNORMS + SNORMS:
        norm = getattr(fl, name)()
        lits = []
        for a, b in allpairs:  # scalar mode
            with np.errstate(all="ignore"):
                try:
                    r = float(norm.compute(a, b))
                except Exception as ex:  # noqa  (a norm never raises on floats)
                    verdict.add_violation(f"{name}:exception", f"{name}.compute({a!r},{b!r}) raises {type(ex).__name__}: {ex}", {"norm": name, "a": a, "b": b})
                    continue
            lits.append(f"({vlib.fhex(a)}, {vlib.fhex(b)}, {vlib.fhex(r)}, true)")
            index.append((name, "scalar", a, b, r))
        # array mode: 1-d elementwise, and column-against-row broadcasting as Activated.membership uses it
        sub = rnd[: ctx.n(200, 2000)] + special
        aa = np.array([p[0] for p in sub])
        bb = np.array([p[1] for p in sub])
        ka, kb = aa.copy(), bb.copy()
        try:
            with np.errstate(all="ignore"):
                rr = np.asarray(norm.compute(aa, bb))
                # array-likes and mixed shapes are elementwise too: lists, a float against an array, a column against a row
                shapes = {"lists": (list(aa[:5]), list(bb[:5])), "float-vs-array": (float(aa[0]), bb[:5]), "array-vs-float": (aa[:5], float(bb[0])),
                          "column-vs-row": (aa[:3].reshape(-1, 1), bb[:4].reshape(1, -1))}
                for label, (xa, xb) in shapes.items():
                    got = np.asarray(norm.compute(xa, xb), dtype=float)
                    want = np.array([[float(norm.compute(float(u), float(v))) for v in np.ravel(xb)] for u in np.ravel(xa)])
                    want = want.reshape(np.broadcast(np.asarray(xa, dtype=float), np.asarray(xb, dtype=float)).shape) if label in ("column-vs-row",) else \
                        np.array([float(norm.compute(float(u), float(v))) for u, v in zip(*np.broadcast_arrays(np.asarray(xa, dtype=float), np.asarray(xb, dtype=float)))])
                    if got.shape != want.shape or not all(vlib.same_float(g, w) for g, w in zip(got.ravel(), want.ravel())):
                        verdict.add_violation(f"{name}:elementwise-{label}", f"{name}.compute on {label} operands is not the elementwise result", {"norm": name, "a": np.asarray(xa).tolist(), "b": np.asarray(xb).tolist()})
        except Exception as ex:  # noqa
            verdict.add_violation(f"{name}:exception", f"{name}.compute raises {type(ex).__name__} on array operands: {ex}", {"norm": name, "error": str(ex)})
            rr = np.array([float(norm.compute(float(u), float(v))) for u, v in zip(ka, kb)])
        if not (all(vlib.same_float(x, y) for x, y in zip(aa, ka)) and all(vlib.same_float(x, y) for x, y in zip(bb, kb))):
            verdict.add_violation(f"{name}:argument-overwritten", f"{name}.compute(arrays) modifies its arguments in place", {"norm": name})
            aa, bb = ka.copy(), kb.copy()
        if rr.shape != aa.shape:
            verdict.add_violation(f"{name}:array-shape", f"{name}.compute changes the shape of array arguments: {aa.shape} -> {rr.shape}", {"norm": name})
            rr = np.resize(rr, aa.shape)
        for a, b, r in zip(aa, bb, rr):
            lits.append(f"({vlib.fhex(a)}, {vlib.fhex(b)}, {vlib.fhex(r)}, false)")
            index.append((name, "array", float(a), float(b), float(r)))
        dist["array_elements"] += len(sub)
        col = np.array(grid[:: max(1, len(grid) // 8)])
        row = np.array([p[1] for p in rnd[:12]])
        with np.errstate(all="ignore"):
            m = norm.compute(np.atleast_2d(col).T, row)
        assert m.shape == (len(col), len(row))
        for i, a in enumerate(col):
            for j, b in enumerate(row):
                lits.append(f"({vlib.fhex(a)}, {vlib.fhex(b)}, {vlib.fhex(m[i, j])}, false)")
                index.append((name, "broadcast", float(a), float(b), float(m[i, j])))
        dist["broadcast_elements"] += m.size
        checker = f"fun c => let '(a, b, e, m) := c in feq (@{name}_compute float (NumF m []) a b) e"
        groups.append(("float * float * float * bool", checker, lits))
    bad, log = ([], "") if not build_has_gen(build) else vlib.run_coq_cases(ctx.work, "c04", "From VF Require Import GenNorm.", groups, chunk=1500)
    mism = []
    for i in bad:
        if i < 0:
            verdict.add_broken("correspondence", "C04:coq-evaluation", log)
            break
        mism.append(index[i])
    if mism:
        verdict.add_broken("correspondence", f"norm kernel {mism[0][0]} ({mism[0][1]} mode)", f"model (translated kernel over binary64) and implementation differ on {len(mism)} cases, first: {mism[:5]}")
    # ---- direct oracle on the implementation (failing-input search)
    extra = [(a, b) for a, b in special if a == a and b == b and 0.0 <= a <= 1.0 and 0.0 <= b <= 1.0]
    nviol = oracle(ctx, verdict, fl, grid, extra)
    import floatlaws  # exact (tolerance-free) oracles: exactly the laws proved per norm in Properties/C04b.v

    fx = floatlaws.norms(ctx, verdict, fl)
    nviol += fx["exact_float_law_violations"]
    c = ev["coverage"]
    c["exact_float_law_checks"] = fx["exact_float_law_checks"]
    c["exact_float_laws"] = fx
    c["evaluations"] = len(index)
    distinct = {(n, vlib.fkey(a), vlib.fkey(b)) for n, _, a, b, r in index if r == r and 0 < r < 1}
    c["distinct_nontrivial"] = len(distinct)
    c["rule"] = ("every norm x (exhaustive dyadic grid k/%d, random doubles incl. neighbours of the branch a+b=1, special values) in scalar mode, "
                 "1-d array mode and column-x-row broadcast; non-trivial = distinct (norm,a,b) with a result strictly between 0 and 1" % ctx.n(16, 64))
    c["distribution"] = dist
    c["correspondence_mismatches"] = len(mism)
    c["oracle_violations"] = nviol
    c["samples"] = [dict(norm=n, mode=m, a=a, b=b, result=r) for n, m, a, b, r in index[:: max(1, len(index) // 6)][:6]]
    c["exhaustive_grid"] = True
    ev["assumptions"] += ["R-level theorems do not cover rounding: the tie to binary64 is the bit-exact correspondence on the listed inputs",
                          "NumF primitives (Coq PrimFloat) = IEEE binary64 as NumPy computes it"]


def build_has_gen(build):
    return not build.translation_errors


def oracle(ctx, verdict, fl, grid, extra=()):
    """Documented formula (exact rationals on the dyadic grid) and the norm laws, on the implementation."""
    n = 0
    tol = 1e-12
    fr = [Fraction(x) for x in grid]
    small = grid[:: max(1, len(grid) // 16)]
    for name in TNORMS + SNORMS:
        norm = getattr(fl, name)()
        f = lambda a, b: float(norm.compute(a, b))
        for a, fa in zip(grid, fr):
            for b, fb in zip(grid, fr):
                with np.errstate(all="ignore"):
                    r = f(a, b)
                want = float(DOC[name](fa, fb))
                if not abs(r - want) <= tol:
                    verdict.add_violation(f"{name}:formula", f"{name}.compute({a},{b}) = {r}, documented formula gives {want}", {"norm": name, "a": a, "b": b, "got": r, "want": want})
                    n += 1
                if name != "UnboundedSum" and not (-tol <= r <= 1 + tol):
                    verdict.add_violation(f"{name}:range", f"{name}.compute({a},{b}) = {r} outside [0,1]", {"norm": name, "a": a, "b": b, "got": r})
                    n += 1
                if abs(r - f(b, a)) > tol:
                    verdict.add_violation(f"{name}:comm", f"{name} not commutative at ({a},{b})", {"norm": name, "a": a, "b": b})
                    n += 1
                if name in TNORMS and r > min(a, b) + tol:
                    verdict.add_violation(f"{name}:le_min", f"{name}.compute({a},{b}) = {r} > min", {"norm": name, "a": a, "b": b, "got": r})
                    n += 1
                if name in SNORMS and name != "UnboundedSum" and r < max(a, b) - tol:
                    verdict.add_violation(f"{name}:ge_max", f"{name}.compute({a},{b}) = {r} < max", {"norm": name, "a": a, "b": b, "got": r})
                    n += 1
            ident, ann = (1.0, 0.0) if name in TNORMS else (0.0, 1.0)
            if abs(f(a, ident) - a) > tol:
                verdict.add_violation(f"{name}:identity", f"{name}.compute({a},{ident}) = {f(a, ident)} != {a}", {"norm": name, "a": a, "b": ident})
                n += 1
            if name != "UnboundedSum" and abs(f(a, ann) - ann) > tol:
                verdict.add_violation(f"{name}:annihilator", f"{name}.compute({a},{ann}) = {f(a, ann)} != {ann}", {"norm": name, "a": a, "b": ann})
                n += 1
        for a, b, c in itertools.product(small, repeat=3):
            with np.errstate(all="ignore"):
                if b <= c and f(a, b) > f(a, c) + tol:
                    verdict.add_violation(f"{name}:mono", f"{name} not monotone: T({a},{b}) > T({a},{c})", {"norm": name, "a": a, "b": b, "c": c})
                    n += 1
                if abs(f(f(a, b), c) - f(a, f(b, c))) > 1e-9:
                    verdict.add_violation(f"{name}:assoc", f"{name} not associative at ({a},{b},{c})", {"norm": name, "a": a, "b": b, "c": c})
                    n += 1
    # the same point checks on the tolerance-scale / underflow pairs (exact rational formula)
    for name in TNORMS + SNORMS:
        norm = getattr(fl, name)()
        for a, b in extra:
            with np.errstate(all="ignore"):
                r = float(norm.compute(a, b))
            want = float(DOC[name](Fraction(a), Fraction(b)))
            # at a discontinuity (Drastic*, Nilpotent*) the branch test itself is subject to rounding (a + b == 1.0 in binary64
            # although the exact sum is not): accept the documented formula read with binary64 arithmetic as well
            try:
                want_f = float(DOC[name](a, b))
            except ZeroDivisionError:
                want_f = want
            if not (abs(r - want) <= tol or abs(r - want_f) <= tol):
                verdict.add_violation(f"{name}:formula", f"{name}.compute({a!r},{b!r}) = {r!r}, documented formula gives {want!r}", {"norm": name, "a": a, "b": b, "got": r, "want": want})
                n += 1
            else:
                with np.errstate(all="ignore"):
                    rba = float(norm.compute(b, a))
                if abs(r - rba) > tol:  # commutativity holds exactly for every operand pair, rounding included (a + b, a * b, min, max are symmetric)
                    verdict.add_violation(f"{name}:comm", f"{name} not commutative: compute({a!r},{b!r}) = {r!r} but compute({b!r},{a!r}) = {rba!r}", {"norm": name, "a": a, "b": b, "got": r, "swapped": rba})
                    n += 1
            if name in TNORMS and b == 1.0 and abs(r - a) > tol and a > 2.0 ** -52 and abs(r - want) <= tol:
                verdict.add_violation(f"{name}:identity", f"{name}.compute({a!r},1) = {r!r}", {"norm": name, "a": a, "b": b})
                n += 1
    for s, t in DUALS:
        S = getattr(fl, s)()
        T = getattr(fl, t)()
        for a in grid:
            for b in grid:
                with np.errstate(all="ignore"):
                    if abs(float(S.compute(a, b)) - (1 - float(T.compute(1 - a, 1 - b)))) > tol:
                        verdict.add_violation(f"{s}:dual", f"{s}({a},{b}) != 1 - {t}(1-a,1-b)", {"snorm": s, "tnorm": t, "a": a, "b": b})
                        n += 1
    return n


def replay(ctx, data):
    import fuzzylite as fl

    for v in data.get("violations", []):
        r = v["replay"]
        print(v["what"])
        if "norm" in r and "a" in r and "b" in r:
            print("  now:", getattr(fl, r["norm"])().compute(r["a"], r["b"]))
    for b in data.get("broken", []):
        print("BROKEN", b["kind"], b["name"], "\n", b["detail"][:1500])
    return 0
