"""C12 — output values follow the lock-previous / default / lock-range cascade.

Correspondence: histories of events (defuzzify calls on prepared batches, a raising defuzzifier, a disabled
variable, a missing defuzzifier, clear()) are run on the REAL fuzzylite.OutputVariable (through a harness
Defuzzifier that returns prepared values) and on the Coq model Model/Cascade.v (run_events, NumF reading); value
(as a list), previous_value, the fuzzy output's degrees and the exception class are compared after EVERY event.

Direct oracle: the documented row-wise cascade written independently below (oracle_rows), previous value = last
value before the call, atomicity of failures, disabled untouched, clear resets; and split invariance stated
directly (all cuts of the same sequence under the same setting give the same concatenated values).

Kinds of the defuzzified value: 1-d ndarray always; a one-element batch also as 0-d ndarray and as numpy.float64
(what WeightedAverage/WeightedSum return for float inputs).  The documented behaviour does not depend on the kind;
a TypeError for numpy.float64 is reported under the signature "defuzzify:numpy-float64-result" (DESIGN finding F2).
"""
from __future__ import annotations

import concurrent.futures
import itertools
import math
import multiprocessing

import numpy as np

import vlib

COQ_TARGETS = ["Proofs/CascadeProofs.vo"]

NAN = math.nan
LO, HI = 1.0, 2.0
DEFAULTS = {"none": NAN, "in": 1.25, "out": 9.0}
SETTINGS = [(lp, d, lr) for lp in (False, True) for d in ("none", "in", "out") for lr in (False, True)]
FAULTS = ["RuntimeError", "ValueError", "disabled", "nodefuzz"]
FUZZY0 = [0.25, 0.5]


def sym_value(s: str, i: int) -> float:
    """The i-th defuzzified value of a sequence: position-dependent so that a wrongly carried value is visible."""
    if s == "N":
        return NAN
    if s == "I":
        return 1.5 + i / 64
    if s == "B":
        return 0.5 - i / 64
    return 3.0 + i / 64  # "A"


def compositions(n: int):
    for mask in range(1 << (n - 1)):
        parts, size = [], 1
        for b in range(n - 1):
            if mask >> b & 1:
                parts.append(size)
                size = 1
            else:
                size += 1
        parts.append(size)
        yield tuple(parts)


def seq_cuts(maxlen: int):
    out = []
    for n in range(1, maxlen + 1):
        for seq in itertools.product("NIBA", repeat=n):
            for cut in compositions(n):
                out.append(("".join(seq), cut))
    return out


def make_history(setting, seq, cut, fault, clears, lo=LO, hi=HI):
    """fault = None | (position among the calls 0..k, kind); clears = set of gap indices (gap g = before event g, g >= 1)."""
    lp, d, lr = setting
    vals = [sym_value(s, i) for i, s in enumerate(seq)]
    events, pos = [], 0
    for size in cut:
        events.append(["call", vals[pos : pos + size]])
        pos += size
    if fault is not None:
        j, kind = fault
        ev = {"RuntimeError": ["raise", "RuntimeError"], "ValueError": ["raise", "ValueError"],
              "disabled": ["disabled", [1.75]], "nodefuzz": ["nodefuzz"]}[kind]
        events.insert(j, ev)
    final = []
    for g, ev in enumerate(events):
        if g in clears and g >= 1:
            final.append(["clear"])
        final.append(ev)
    return {"cfg": {"lock_previous": lp, "default": DEFAULTS[d], "lock_range": lr, "min": lo, "max": hi},
            "events": final, "label": f"{seq}/{'+'.join(map(str, cut))}/{'LP' if lp else '--'},{d},{'LR' if lr else '--'}",
            "seq": seq, "plain": fault is None and not clears}


def hkey(h):
    def f(x):
        return "nan" if x != x else repr(float(x))
    c = h["cfg"]
    return (c["lock_previous"], f(c["default"]), c["lock_range"], f(c["min"]), f(c["max"]),
            tuple((e[0],) + tuple(tuple(f(x) for x in a) if isinstance(a, list) else a for a in e[1:]) for e in h["events"]))


# ------------------------------------------------------------------------------------------- generators
def gen_histories(ctx):
    """Yields (group, history).  Groups: base (no fault/clear), single (one fault position x one clear position,
    fault kind rotating), random (any fault kind, any subset of gaps cleared), wild (special values / odd ranges)."""
    rng = ctx.rng
    thorough = ctx.tier == "thorough"
    base_len = 5 if thorough else 3
    single_len = 4 if thorough else 2
    rand_len = 5 if thorough else 4
    for seq, cut in seq_cuts(base_len):
        for st in SETTINGS:
            yield "base", make_history(st, seq, cut, None, set())
    rot = 0
    for seq, cut in seq_cuts(single_len):
        k = len(cut)
        for st in SETTINGS:
            for j in range(k + 1):
                kind = FAULTS[rot % 4]
                rot += 1
                for g in [None] + list(range(1, k + 1)):
                    yield "single", make_history(st, seq, cut, (j, kind), set() if g is None else {g})
            for g in range(1, k):
                yield "single", make_history(st, seq, cut, None, {g})
    sc = seq_cuts(rand_len)
    for _ in range(ctx.n(13500, 300000)):
        seq, cut = rng.choice(sc)
        k = len(cut)
        fault = None if rng.random() < 0.4 else (rng.randrange(k + 1), rng.choice(FAULTS))
        m = k + (fault is not None)
        clears = {g for g in range(1, m) if rng.random() < 0.25}
        yield "random", make_history(rng.choice(SETTINGS), seq, cut, fault, clears)
    specials = [NAN, NAN, math.inf, -math.inf, 0.0, -0.0, LO, HI, math.nextafter(LO, 0), math.nextafter(HI, 9), 1.5, 0.5, 3.0, 5e-324, -1e308]
    bounds = [(LO, HI), (LO, HI), (0.0, 1.0), (-0.0, 0.0), (2.0, 1.0), (NAN, 2.0), (1.0, NAN), (NAN, NAN), (-math.inf, math.inf), (1.0, 1.0), (math.inf, -math.inf)]
    for _ in range(ctx.n(1500, 30000)):
        lo, hi = rng.choice(bounds)
        cfg = {"lock_previous": rng.random() < 0.6, "default": rng.choice([NAN, 1.25, 9.0, math.inf, -math.inf, 0.0, -0.0]),
               "lock_range": rng.random() < 0.6, "min": lo, "max": hi}
        events = []
        for _ in range(rng.randrange(1, 6)):
            r = rng.random()
            if r < 0.70:
                n = rng.choice([1, 1, 2, 3, 4])
                if r < 0.04:
                    n = 0  # an empty batch: the corner of raise_cases / split invariance
                events.append(["call", [rng.choice(specials) for _ in range(n)]])
            elif r < 0.78:
                events.append(["raise", rng.choice(["RuntimeError", "ValueError"])])
            elif r < 0.84:
                events.append(["disabled", [rng.choice(specials)]])
            elif r < 0.90:
                events.append(["nodefuzz"])
            else:
                events.append(["clear"])
        yield "wild", {"cfg": cfg, "events": events, "label": "wild"}


# ------------------------------------------------------------------------------------------- the real thing
_FL = {}


def _harness():
    if _FL:
        return _FL
    import fuzzylite as fl

    class Prepared(fl.Defuzzifier):
        def __init__(self):
            self.next = None
            self.calls = 0

        def configure(self, parameters):
            pass

        def parameters(self):
            return ""

        def defuzzify(self, term, minimum, maximum):
            self.calls += 1
            r, self.next = self.next, None
            if isinstance(r, BaseException):
                raise r
            return r

    _FL["fl"] = fl
    _FL["Prepared"] = Prepared
    return _FL


def as_kind(values, kind):
    if kind == "zerod" and len(values) == 1:
        return np.array(values[0], dtype=float)
    if kind == "float64" and len(values) == 1:
        return np.float64(values[0])
    if kind == "pyfloat" and len(values) == 1:
        return float(values[0])
    return np.array(values, dtype=float)


ECODE = {None: 0, "ValueError": 1, "RuntimeError": 2, "IndexError": 3, "TypeError": 3}


def observe(ov, exc, called):
    v = np.asarray(ov.value, dtype=float)
    return {"value": [float(x) for x in np.atleast_1d(v).ravel()], "ndim": int(v.ndim), "previous": float(ov.previous_value),
            "fuzzy": [float(t.degree) for t in ov.fuzzy.terms], "fuzzy_ids": [id(t) for t in ov.fuzzy.terms],
            "exc": exc, "called": called}


def run_real(h, kind="array"):
    """Runs the history on a fresh fuzzylite.OutputVariable; returns the observation after every event."""
    H = _harness()
    fl = H["fl"]
    c = h["cfg"]
    d = H["Prepared"]()
    ov = fl.OutputVariable("out", minimum=c["min"], maximum=c["max"], lock_range=c["lock_range"],
                           lock_previous=c["lock_previous"], default_value=c["default"], defuzzifier=d)
    ov.fuzzy.terms.extend(fl.Activated(fl.Constant(f"t{i}", float(i)), g) for i, g in enumerate(FUZZY0))
    obs = [observe(ov, None, 0)]
    for ev in h["events"]:
        exc = None
        before = d.calls
        try:
            with np.errstate(all="ignore"):
                if ev[0] == "call":
                    d.next = as_kind(ev[1], kind)
                    ov.defuzzify()
                elif ev[0] == "raise":
                    d.next = {"RuntimeError": RuntimeError, "ValueError": ValueError}[ev[1]]("prepared failure")
                    ov.defuzzify()
                elif ev[0] == "disabled":
                    ov.enabled = False
                    d.next = as_kind(ev[1], kind)
                    try:
                        ov.defuzzify()
                    finally:
                        ov.enabled = True
                elif ev[0] == "nodefuzz":
                    ov.defuzzifier = None
                    try:
                        ov.defuzzify()
                    finally:
                        ov.defuzzifier = d
                elif ev[0] == "clear":
                    ov.clear()
                else:
                    raise KeyError(ev[0])
        except Exception as e:  # noqa: BLE001 — the exception class is an observable
            exc = type(e).__name__
        obs.append(observe(ov, exc, d.calls - before))
    return obs


# ------------------------------------------------------------------------------------------- direct oracle
def oracle_rows(cfg, recent, ds):
    """The documented cascade, one row at a time; `recent` = most recent value of the variable."""
    out = []
    for x in ds:
        v = x
        if v != v and cfg["lock_previous"]:
            v = recent
        if v != v and cfg["default"] == cfg["default"]:
            v = cfg["default"]
        if cfg["lock_range"] and v == v:
            v = cfg["min"] if v < cfg["min"] else (cfg["max"] if v > cfg["max"] else v)
        out.append(v)
        recent = v
    return out


def oracle_check(h, obs, kind):
    """Returns None or (signature, text) for the first event at which the real code contradicts the property."""
    cfg = h["cfg"]
    sane = cfg["min"] <= cfg["max"]  # the statement says nothing about an empty or NaN range
    same = vlib.same_float
    for i, ev in enumerate(h["events"]):
        a, b = obs[i], obs[i + 1]
        where = f"event {i} {ev} (kind {kind}, {cfg})"

        def unchanged():
            return (len(a["value"]) == len(b["value"]) and all(same(x, y) for x, y in zip(a["value"], b["value"]))
                    and same(a["previous"], b["previous"]) and a["fuzzy_ids"] == b["fuzzy_ids"] and a["fuzzy"] == b["fuzzy"])

        if ev[0] == "call":
            if not ev[1]:
                return None  # an empty batch: outside the property (model corner, correspondence only)
            if not a["value"]:
                return None
            if b["exc"] is not None:
                sig = "defuzzify:numpy-float64-result" if (kind in ("float64", "pyfloat") and b["exc"] == "TypeError") else "defuzzify:unexpected-exception"
                extra = "" if unchanged() else f"; and the state was modified before raising: previous_value {a['previous']} -> {b['previous']}"
                return sig, f"{where}: defuzzify() raised {b['exc']} for a defuzzified value {ev[1]} of kind {kind}{extra}"
            want = oracle_rows(cfg, a["value"][-1], ev[1])
            if sane or not cfg["lock_range"]:
                if len(want) != len(b["value"]) or not all(same(x, y) for x, y in zip(want, b["value"])):
                    return "defuzzify:cascade-value", f"{where}: value {b['value']}, documented cascade gives {want} (value before {a['value']})"
            if not same(b["previous"], a["value"][-1]):
                return "defuzzify:previous-value", f"{where}: previous_value {b['previous']}, last value before the call was {a['value'][-1]}"
            if a["fuzzy_ids"] != b["fuzzy_ids"]:
                return "defuzzify:fuzzy-touched", f"{where}: the fuzzy output changed"
            if cfg["lock_range"] and sane and any(x == x and not (cfg["min"] <= x <= cfg["max"]) for x in b["value"]):
                return "defuzzify:out-of-range", f"{where}: value {b['value']} outside [{cfg['min']}, {cfg['max']}]"
        elif ev[0] == "raise":
            if b["exc"] != ev[1]:
                return "defuzzify:failure-propagation", f"{where}: expected {ev[1]}, observed {b['exc']}"
            if not unchanged():
                return "defuzzify:failure-atomicity", f"{where}: state changed by a failing defuzzification: {a} -> {b}"
        elif ev[0] == "nodefuzz":
            if b["exc"] != "ValueError" or not unchanged():
                return "defuzzify:missing-defuzzifier", f"{where}: expected ValueError and an unchanged state, observed {b}"
        elif ev[0] == "disabled":
            if b["exc"] is not None or not unchanged() or b["called"] != 0:
                return "defuzzify:disabled-touched", f"{where}: a disabled variable was touched: {a} -> {b}"
        elif ev[0] == "clear":
            if b["exc"] is not None or len(b["value"]) != 1 or b["value"][0] == b["value"][0] or b["previous"] == b["previous"] or b["fuzzy"]:
                return "clear:reset", f"{where}: after clear(): {b}"
    return None


# ------------------------------------------------------------------------------------------- Coq side
COQ_IMPORTS = """From VF Require Import Core Cascade.
Import ListNotations.
Definition feql (a b : list float) : bool :=
  Nat.eqb (List.length a) (List.length b) && forallb (fun p => feq (fst p) (snd p)) (combine a b).
Definition ecode (e : option err) : Z :=
  match e with None => 0 | Some EValue => 1 | Some ERuntime => 2 | Some EInternal => 3 | Some _ => 4 end%Z.
Definition obs_t : Type := (list float * float * list float * Z)%type.
Definition obs_ok (r : cstate float float * option err) (x : obs_t) : bool :=
  let '(v, p, fz, code) := x in
  feql (cs_value (fst r)) v && feq (cs_previous (fst r)) p && feql (cs_fuzzy (fst r)) fz && Z.eqb (ecode (snd r)) code.
Definition c12_check (c : (bool * float * bool * float * float) * list (event float) * list obs_t) : bool :=
  let '((lp, dv, lr, lo, hi), evs, exp) := c in
  let N := NumF true [] in
  let cfg := {| cc_enabled := true; cc_has_defuzzifier := true; cc_lock_previous := lp; cc_default := dv;
                cc_lock_range := lr; cc_min := lo; cc_max := hi |} in
  let tr := @run_events float N float cfg evs (@cstate_init float N float [0x1p-2%float; 0x1p-1%float]) in
  Nat.eqb (List.length tr) (List.length exp) && forallb (fun p => obs_ok (fst p) (snd p)) (combine tr exp).
(* engine stream: the fuzzy output is rebuilt by Engine.process, only value / previous value / exception are compared *)
Definition c12_check_vp (c : (bool * float * bool * float * float) * list (event float) * list obs_t) : bool :=
  let '((lp, dv, lr, lo, hi), evs, exp) := c in
  let N := NumF true [] in
  let cfg := {| cc_enabled := true; cc_has_defuzzifier := true; cc_lock_previous := lp; cc_default := dv;
                cc_lock_range := lr; cc_min := lo; cc_max := hi |} in
  let tr := @run_events float N float cfg evs (@cstate_init float N float []) in
  Nat.eqb (List.length tr) (List.length exp) &&
  forallb (fun p => let '(v, pv, _, code) := snd p in
                    feql (cs_value (fst (fst p))) v && feq (cs_previous (fst (fst p))) pv && Z.eqb (ecode (snd (fst p))) code) (combine tr exp).
"""
CASE_TYPE = "(bool * float * bool * float * float) * list (event float) * list obs_t"


def coq_bool(b):
    return "true" if b else "false"


def coq_floats(xs):
    return vlib.coq_list([vlib.fhex(x) for x in xs])


def coq_case(h, obs):
    c = h["cfg"]
    evs = []
    for ev in h["events"]:
        if ev[0] == "call":
            evs.append(f"EvCall true true (Ok {coq_floats(ev[1])})")
        elif ev[0] == "raise":
            evs.append(f"EvCall true true (Err {'ERuntime' if ev[1] == 'RuntimeError' else 'EValue'})")
        elif ev[0] == "disabled":
            evs.append(f"EvCall false true (Ok {coq_floats(ev[1])})")
        elif ev[0] == "nodefuzz":
            evs.append("EvCall true false (Ok [])")
        else:
            evs.append("EvClear")
    exp = [f"({coq_floats(o['value'])}, {vlib.fhex(o['previous'])}, {coq_floats(o['fuzzy'])}, {ECODE.get(o['exc'], 4)}%Z)" for o in obs[1:]]
    return (f"(({coq_bool(c['lock_previous'])}, {vlib.fhex(c['default'])}, {coq_bool(c['lock_range'])}, {vlib.fhex(c['min'])}, {vlib.fhex(c['max'])}), "
            f"{vlib.coq_list(evs)}, {vlib.coq_list(exp)})")


# ------------------------------------------------------------------------------------------- engine stream
# The same cascade, driven through real Engine.process() calls on a small real engine: one input x in [0,1] with
# three disjoint Rectangle terms, two outputs over [1,2] — y1 (Mamdani, Centroid) and y2 (Takagi-Sugeno Constant
# terms 0.5 / 1.5 / 3.0, WeightedAverage or WeightedSum: below / inside / above the range).  An input outside every
# rectangle fires no rule, so the defuzzified value is NaN.  A wrapping defuzzifier records what the real
# defuzzifier returned; those recorded values are the `d` fed to the model and to the row-wise oracle.
ENGINE_X = {"B": 0.1, "I": 0.4, "A": 0.7, "N": 0.95}


def gen_engine_histories(ctx):
    rng = ctx.rng
    kinds = ["float", "array1", "array"]
    n = 0
    for seq, cut in seq_cuts(3):
        for st in SETTINGS:
            n += 1
            events, pos = [], 0
            for size in cut:
                xs = [ENGINE_X[s] for s in seq[pos : pos + size]]
                pos += size
                events.append(["process", xs, ("float" if (n + pos) % 2 else "array1") if size == 1 else "array", None])
            yield {"setting": st, "events": events, "weighted": "WeightedAverage" if n % 2 else "WeightedSum", "label": f"engine {seq}/{'+'.join(map(str, cut))}"}
    # steps that activate NOTHING (empty fuzzy output -> defuzzified value NaN -> the cascade must still run): symbol E =
    # a process() call with the rule block disabled / every rule disabled; with a First/Threshold/Highest activation an
    # input that matches no term (N) triggers nothing either.  Exhaustive over sequences of length <= 3 of {N,I,B,A,E} x 12 settings.
    acts = ["General", "First", "Threshold", "Highest"]
    ENGINE_X5 = dict(ENGINE_X, E=0.4)
    for ln in (1, 2, 3):
        for seq in itertools.product("NIBAE", repeat=ln):
            if "E" not in seq and "N" not in seq:
                continue
            for st in SETTINGS:
                n += 1
                act = acts[n % 4]
                events = []
                for j, sym in enumerate(seq):
                    kind = "float" if (act != "General" or (n + j) % 2) else "array1"
                    events.append(["process", [ENGINE_X5[sym]], kind, None, (("block_off", "rules_off")[(n + j) % 2] if sym == "E" else None)])
                yield {"setting": st, "events": events, "weighted": "WeightedAverage" if n % 2 else "WeightedSum", "activation": act,
                       "label": f"engine-empty {''.join(seq)}/{act}"}
    # an output disabled while the engine is restarted, then re-enabled and processed: restart clears EVERY output
    for st in SETTINGS:
        for ln in (1, 2):
            for seq in itertools.product("NIBA", repeat=ln):
                for off in (0, 1):
                    for after in ("N", "I", "NN"):
                        n += 1
                        events = [["process", [ENGINE_X[sym]], "float" if n % 2 else "array1", None, None] for sym in seq]
                        events.append(["restart", off])
                        events += [["process", [ENGINE_X[sym]], "float", None, None] for sym in after]
                        yield {"setting": st, "events": events, "weighted": "WeightedAverage" if n % 2 else "WeightedSum", "activation": "General",
                               "label": f"engine-restart {''.join(seq)}|restart(y{off + 1} disabled)|{after}"}
    sc = seq_cuts(4)
    for _ in range(ctx.n(1500, 40000)):
        seq, cut = rng.choice(sc)
        events, pos = [], 0
        for size in cut:
            xs = [ENGINE_X[s] for s in seq[pos : pos + size]]
            pos += size
            r = rng.random()
            if events and r < 0.15:
                events.append(["restart", rng.choice([None, None, 0, 1])])
            elif events and r < 0.30:
                events.append(["clear"])
            if rng.random() < 0.25:  # a process() call while one output variable is disabled
                events.append(["process", [rng.choice(list(ENGINE_X.values())) for _ in range(size)], "array" if size > 1 else rng.choice(kinds[:2]), rng.randrange(2), None])
            if rng.random() < 0.2:  # a process() call that activates nothing
                events.append(["process", [rng.choice(list(ENGINE_X.values())) for _ in range(size)], "array" if size > 1 else rng.choice(kinds[:2]),
                               rng.choice([None, None, 0, 1]), rng.choice(["block_off", "rules_off"])])
            events.append(["process", xs, "array" if size > 1 else rng.choice(kinds[:2]), None, None])
        yield {"setting": rng.choice(SETTINGS), "events": events, "weighted": rng.choice(["WeightedAverage", "WeightedSum"]), "label": f"engine {seq}/{'+'.join(map(str, cut))}"}


def build_engine(h):
    H = _harness()
    fl = H["fl"]
    if "Recording" not in H:
        class Recording(fl.Defuzzifier):
            def __init__(self, inner):
                self.inner = inner
                self.last = None
                self.calls = 0

            def configure(self, parameters):
                pass

            def parameters(self):
                return ""

            def defuzzify(self, term, minimum, maximum):
                self.calls += 1
                r = self.inner.defuzzify(term, minimum, maximum)
                self.last = [float(x) for x in np.atleast_1d(np.array(r, dtype=float)).ravel()]  # a copy, before defuzzify() mutates it
                return r

        H["Recording"] = Recording
    lp, d, lr = h["setting"]
    kw = dict(minimum=LO, maximum=HI, lock_range=lr, lock_previous=lp, default_value=DEFAULTS[d])
    e = fl.Engine("c12")
    e.input_variables = [fl.InputVariable("x", minimum=0.0, maximum=1.0,
                                          terms=[fl.Rectangle("a", 0.0, 0.2), fl.Rectangle("b", 0.3, 0.5), fl.Rectangle("c", 0.6, 0.8)])]
    y1 = fl.OutputVariable("y1", aggregation=fl.Maximum(), defuzzifier=H["Recording"](fl.Centroid(40)),
                           terms=[fl.Triangle("p", 1.0, 1.25, 1.5), fl.Triangle("q", 1.25, 1.5, 1.75), fl.Triangle("r", 1.5, 1.75, 2.0)], **kw)
    y2 = fl.OutputVariable("y2", defuzzifier=H["Recording"](getattr(fl, h["weighted"])()),
                           terms=[fl.Constant("below", 0.5), fl.Constant("inside", 1.5), fl.Constant("above", 3.0)], **kw)
    e.output_variables = [y1, y2]
    act = {"General": lambda: fl.General(), "First": lambda: fl.First(1, 0.0), "Threshold": lambda: fl.Threshold(">", 0.5),
           "Highest": lambda: fl.Highest(1)}[h.get("activation", "General")]()
    e.rule_blocks = [fl.RuleBlock("rb", implication=fl.Minimum(), activation=act, rules=[
        fl.Rule.create("if x is a then y1 is p and y2 is below", e), fl.Rule.create("if x is b then y1 is q and y2 is inside", e),
        fl.Rule.create("if x is c then y1 is r and y2 is above", e)])]
    return e


def run_engine(h):
    """Runs the history through Engine.process(); returns, per output variable, the pseudo-history (events with the
    recorded defuzzified values) and the observations after every event, in the format of run_real."""
    e = build_engine(h)
    outs = e.output_variables
    lp, d, lr = h["setting"]
    cfg = {"lock_previous": lp, "default": DEFAULTS[d], "lock_range": lr, "min": LO, "max": HI}

    def snap(o, exc, called):
        v = np.asarray(o.value, dtype=float)
        return {"value": [float(x) for x in np.atleast_1d(v).ravel()], "previous": float(o.previous_value), "fuzzy": [], "fuzzy_ids": [],
                "exc": exc, "called": called}

    traces = [{"cfg": cfg, "events": [], "label": f"{h['label']} {o.name} {h['weighted'] if i else 'Centroid'}", "engine": h} for i, o in enumerate(outs)]
    obs = [[snap(o, None, 0)] for o in outs]
    empty_ok = True  # harness self-check: the steps meant to activate nothing really leave the fuzzy outputs empty
    for ev in h["events"]:
        exc = None
        before = [o.defuzzifier.calls for o in outs]
        for o in outs:
            o.defuzzifier.last = None
        try:
            with np.errstate(all="ignore"):
                if ev[0] == "process":
                    xs, kind, off = ev[1], ev[2], ev[3]
                    mode = ev[4] if len(ev) > 4 else None
                    rb = e.rule_blocks[0]
                    e.input_variables[0].value = float(xs[0]) if kind == "float" else np.array(xs, dtype=float)
                    if off is not None:
                        outs[off].enabled = False
                    if mode == "block_off":
                        rb.enabled = False
                    elif mode == "rules_off":
                        for r in rb.rules:
                            r.enabled = False
                    try:
                        e.process()
                    finally:
                        if off is not None:
                            outs[off].enabled = True
                        rb.enabled = True
                        for r in rb.rules:
                            r.enabled = True
                    if mode is not None:
                        empty_ok = empty_ok and all(not o.fuzzy.terms for o in outs)
                elif ev[0] == "restart":
                    off = ev[1] if len(ev) > 1 else None
                    if off is not None:
                        outs[off].enabled = False
                    try:
                        e.restart()
                    finally:
                        if off is not None:
                            outs[off].enabled = True
                else:
                    for o in outs:
                        o.clear()
        except Exception as ex:  # noqa: BLE001
            exc = type(ex).__name__
        for i, o in enumerate(outs):
            if ev[0] != "process":
                traces[i]["events"].append(["clear", ev[0] if ev[0] != "restart" or len(ev) < 2 or ev[1] is None else f"restart with y{ev[1] + 1} disabled"])
            elif ev[3] == i:
                traces[i]["events"].append(["disabled", []])
            else:
                if o.defuzzifier.last is not None:
                    traces[i]["events"].append(["call", o.defuzzifier.last])
                elif not o.fuzzy.terms:  # defuzzifier not called on an empty fuzzy output: its value would have been NaN
                    traces[i]["events"].append(["call", [NAN], "defuzzify() not called by Engine.process()"])
                else:
                    traces[i]["events"].append(["call", []])
            obs[i].append(snap(o, exc, o.defuzzifier.calls - before[i]))
    for t in traces:
        t["empty_ok"] = empty_ok
    return traces, obs


def process_engine(h):
    traces, obs = run_engine(h)
    out = []
    for t, o in zip(traces, obs):
        notes = []
        r = oracle_check(t, o, "engine")
        skipped = next((i for i, e in enumerate(t["events"]) if e[0] == "call" and not e[1]), None)
        if skipped is not None and (r is None or not r[1].startswith("event ") or int(r[1].split()[1]) >= skipped):
            r = ("cascade:engine-step-skipped", f"event {skipped} {h['events'][skipped]}: Engine.process() did not defuzzify the enabled output variable although its fuzzy output is not empty ({t['cfg']})")
        elif r is not None and r[1].startswith("event ") and len(t["events"][int(r[1].split()[1])]) > 2 and t["events"][int(r[1].split()[1])][0] == "call":
            # the state differs from the documented cascade at a step that Engine.process() skipped (empty fuzzy output => NaN)
            r = ("cascade:engine-step-skipped", r[1] + f" -- engine events {h['events']}")
        if r:
            sig = r[0].replace("defuzzify:", "engine-process:")
            if sig == "clear:reset":
                sig = "cascade:restart-keeps-state" if "restart" in r[1].split("(kind")[0] else "engine-clear:reset"
            notes.append((sig, f"{t['label']}: {r[1]}", "engine"))
        if not t.get("empty_ok", True):
            notes.append(("harness:empty-step-not-empty", f"{t['label']}: a step meant to activate nothing left activated terms in a fuzzy output", "engine"))
        rows = sum(len(e[1]) for e in t["events"] if e[0] == "call")
        nanrows = sum(1 for e in t["events"] if e[0] == "call" for x in e[1] if x != x)
        out.append({"notes": notes, "lit": coq_case(t, o), "trace": {"cfg": t["cfg"], "events": t["events"], "label": t["label"], "engine": h},
                    "obs": [{k: x[k] for k in ("value", "previous", "exc")} for x in o], "rows": rows, "nanrows": nanrows})
    return out


def process_engine_chunk(hs):
    return [process_engine(h) for h in hs]


# ------------------------------------------------------------------------------------------- run
def hsize(h):
    return (len(h["events"]), sum(len(e[1]) for e in h["events"] if len(e) > 1 and isinstance(e[1], list)))


def kinds_differ(obs, ok, upto):
    return any(len(x["value"]) != len(y["value"]) or not all(vlib.same_float(p, q) for p, q in zip(x["value"], y["value"]))
               or not vlib.same_float(x["previous"], y["previous"]) or x["exc"] != y["exc"] for x, y in list(zip(obs, ok))[:upto])


def process(task):
    """Everything that is done with one history on the implementation side (runs in a worker process)."""
    group, h, do_kinds = task
    notes = []
    obs = run_real(h, "array")
    kinds = ["array"]
    r = oracle_check(h, obs, "array")
    if r:
        notes.append((r[0], r[1], "array"))
    # the same history with one-element batches handed over as 0-d arrays / numpy.float64 scalars / Python floats
    if do_kinds and any(e[0] in ("call", "disabled") and len(e[1]) == 1 for e in h["events"]):
        # (observations after an empty batch are outside the property: compare the kinds only up to there)
        upto = 1 + next((i for i, e in enumerate(h["events"]) if e[0] == "call" and not e[1]), len(h["events"]))
        for kind in ("zerod", "float64", "pyfloat"):
            ok = run_real(h, kind)
            kinds.append(kind)
            r2 = oracle_check(h, ok, kind)
            if r2:
                notes.append((r2[0], r2[1], kind))
            elif kinds_differ(obs, ok, upto):
                notes.append(("defuzzify:kind-dependence", f"{h['label']}: observations differ between a 1-d array and a {kind} result", kind))
    rows = changed = 0
    for e, o in zip(h["events"], obs[1:]):
        if e[0] == "call" and o["exc"] is None:
            rows += len(e[1])
            changed += sum(1 for x, y in zip(e[1], o["value"]) if not vlib.same_float(x, y))
    return {"notes": notes, "lit": coq_case(h, obs), "kinds": kinds, "rows": rows, "changed": changed,
            "obs": [{k: o[k] for k in ("value", "previous", "fuzzy", "exc")} for o in obs]}


def process_chunk(tasks):
    return [process(t) for t in tasks]


def run(ctx, build, verdict, ev):
    _harness()
    workers = max(1, min(8, vlib.NPROC))
    mp_pool = multiprocessing.get_context("fork").Pool(workers)  # forked before any helper thread exists
    seen = set()
    batch, batch_meta = [], []
    split_seen: dict = {}
    found: dict[str, dict] = {}  # signature -> {count, best (smallest history), what}
    mism: list[dict] = []
    stats = {"groups": {}, "settings": {}, "n_calls": {}, "with_fault": 0, "with_clear": 0, "kinds": {"array": 0, "zerod": 0, "float64": 0, "pyfloat": 0},
             "events": 0, "rows": 0, "rows_changed_by_cascade": 0, "split_comparisons": 0}
    nontrivial = 0
    total = 0
    samples = []
    coq_failed = [False]
    batch_no = [0]
    BATCH = 1500 * vlib.NPROC
    pool = concurrent.futures.ThreadPoolExecutor(max_workers=1)
    every = 1 if ctx.tier == "quick" else 3  # thorough: the kind re-runs on every history of base/wild, every 3rd of the others

    def note(sig, what, h, kind):
        f = found.setdefault(sig, {"count": 0, "best": None, "what": None})
        f["count"] += 1
        if f["best"] is None or hsize(h) < hsize(f["best"]):
            f["best"] = dict(h, kind=kind)
            f["what"] = what

    pending = []  # Coq evaluations running in a helper thread while the next batch is produced

    def collect(wait_all):
        while pending and (wait_all or pending[0][0].done() or len(pending) > 1):
            fut, meta, lits, name, checker = pending.pop(0)
            bad, log = fut.result()
            if -1 in bad and "inconsistent assumptions" in log and not coq_failed[0]:
                # another check rebuilt a library of the shared tree while this one was evaluating: rebuild (under the lock) and retry once
                again = vlib.translate_and_make(COQ_TARGETS)
                if again.ok:
                    bad, log = vlib.run_coq_cases(ctx.work, name + "r", COQ_IMPORTS, [(CASE_TYPE, checker, lits)], 1500)
                    stats["coq_batches_retried"] = stats.get("coq_batches_retried", 0) + 1
            for i in bad:
                if i < 0:
                    if not coq_failed[0]:
                        verdict.add_broken("correspondence", "C12:coq-evaluation", log)
                    coq_failed[0] = True
                    break
                mism.append(meta[i])

    def flush():
        if not batch:
            return
        if not build.translation_errors and build.ok and not coq_failed[0]:
            lits, name = list(batch), f"c12_{batch_no[0]}"
            fut = pool.submit(vlib.run_coq_cases, ctx.work, name, COQ_IMPORTS, [(CASE_TYPE, "c12_check", lits)], 1500)
            pending.append((fut, list(batch_meta), lits, name, "c12_check"))
            batch_no[0] += 1
            collect(False)
        batch.clear()
        batch_meta.clear()

    def absorb(tasks, keys):
        nonlocal nontrivial
        CH = 250
        results = [r for part in mp_pool.map(process_chunk, [tasks[i : i + CH] for i in range(0, len(tasks), CH)]) for r in part]
        for (group, h, _), key, res in zip(tasks, keys, results):
            obs = res["obs"]
            for sig, what, kind in res["notes"]:
                note(sig, what, h, kind)
            for k in res["kinds"]:
                stats["kinds"][k] += 1
            # split invariance, directly: the concatenated values of a sequence do not depend on the cut
            if h.get("plain") and all(o["exc"] is None for o in obs):
                cat = [x for o in obs[1:] for x in o["value"]]
                k2 = (key[:5], h["seq"])
                first = split_seen.setdefault(k2, (cat, h))
                stats["split_comparisons"] += first[1] is not h
                if len(first[0]) != len(cat) or not all(vlib.same_float(p, q) for p, q in zip(first[0], cat)):
                    note("defuzzify:split-dependence", f"{h['label']}: concatenated values {cat} differ from {first[0]} obtained with the cut {first[1]['label']}", h, "array")
            batch.append(res["lit"])
            batch_meta.append({"history": h, "observed": obs})
            c = h["cfg"]
            stats["groups"][group] = stats["groups"].get(group, 0) + 1
            skey = f"lp={int(c['lock_previous'])},default={'nan' if c['default'] != c['default'] else c['default']},lr={int(c['lock_range'])}"
            if group != "wild":
                stats["settings"][skey] = stats["settings"].get(skey, 0) + 1
            calls = [e for e in h["events"] if e[0] == "call"]
            stats["n_calls"][len(calls)] = stats["n_calls"].get(len(calls), 0) + 1
            stats["with_fault"] += any(e[0] in ("raise", "disabled", "nodefuzz") for e in h["events"])
            stats["with_clear"] += any(e[0] == "clear" for e in h["events"])
            stats["events"] += len(h["events"])
            stats["rows"] += res["rows"]
            stats["rows_changed_by_cascade"] += res["changed"]
            nontrivial += res["changed"] > 0
            if len(samples) < 6 and (stats["events"] % 997 == 0 or not samples):
                samples.append({"history": h, "observed": [(o["value"], o["previous"], o["exc"]) for o in obs[1:]]})
            if len(batch) >= BATCH:
                flush()

    tasks, keys = [], []
    estats = {"histories": 0, "output_traces": 0, "events": 0, "process_calls": 0, "process_with_disabled_output": 0, "restarts": 0, "clears": 0,
              "rows": 0, "nan_rows": 0}
    try:
        # ---- engine stream (Engine.process on real engines), evaluated by Coq while the main stream is produced
        ehs = list(gen_engine_histories(ctx))
        elits, emeta = [], []
        for part in mp_pool.map(process_engine_chunk, [ehs[i : i + 100] for i in range(0, len(ehs), 100)]):
            for res2 in part:
                for res in res2:
                    for sig, what, kind in res["notes"]:
                        note(sig, what, res["trace"], kind)
                    elits.append(res["lit"])
                    emeta.append({"history": res["trace"], "observed": res["obs"]})
                    estats["output_traces"] += 1
                    estats["rows"] += res["rows"]
                    estats["nan_rows"] += res["nanrows"]
        for h in ehs:
            estats["histories"] += 1
            estats["events"] += len(h["events"])
            estats["process_calls"] += sum(e[0] == "process" for e in h["events"])
            estats["process_with_disabled_output"] += sum(e[0] == "process" and e[3] is not None for e in h["events"])
            estats["restarts"] += sum(e[0] == "restart" for e in h["events"])
            estats["restarts_with_disabled_output"] = estats.get("restarts_with_disabled_output", 0) + sum(e[0] == "restart" and len(e) > 1 and e[1] is not None for e in h["events"])
            estats["process_activating_nothing"] = estats.get("process_activating_nothing", 0) + sum(
                e[0] == "process" and ((len(e) > 4 and e[4] is not None) or (h.get("activation", "General") != "General" and e[1] == [ENGINE_X["N"]])) for e in h["events"])
            estats.setdefault("activations", {})
            estats["activations"][h.get("activation", "General")] = estats["activations"].get(h.get("activation", "General"), 0) + 1
            estats["clears"] += sum(e[0] == "clear" for e in h["events"])
        if not build.translation_errors and build.ok:
            fut = pool.submit(vlib.run_coq_cases, ctx.work, "c12_engine", COQ_IMPORTS, [(CASE_TYPE, "c12_check_vp", elits)], 1500)
            pending.append((fut, emeta, elits, "c12_engine", "c12_check_vp"))
        # ---- main stream (OutputVariable.defuzzify driven directly)
        for group, h in gen_histories(ctx):
            key = hkey(h)
            if key in seen:
                continue
            seen.add(key)
            total += 1
            tasks.append((group, h, every == 1 or group in ("base", "wild") or total % every == 0))
            keys.append(key)
            if len(tasks) >= 250 * workers * 2:
                absorb(tasks, keys)
                tasks, keys = [], []
        absorb(tasks, keys)
        flush()
        collect(True)
    finally:
        mp_pool.terminate()
        pool.shutdown()

    for sig, f in sorted(found.items()):
        verdict.add_violation(sig, f"{f['what']}  [{f['count']} histories with this signature; smallest shown]", f["best"])
    if mism:
        m = sorted(mism, key=lambda x: hsize(x["history"]))[0]
        verdict.add_broken("correspondence", "Model/Cascade.v run_events vs OutputVariable",
                           f"model and implementation differ on {len(mism)} histories; smallest: {m}")
    c = ev["coverage"]
    c["evaluations"] = total + estats["output_traces"]
    c["distinct_nontrivial"] = nontrivial
    c["rule"] = ("distinct histories = setting (lock_previous, default in {nan, 1.25 in range, 9.0 out of range}, lock_range; range [1,2]) x sequence over "
                 "{NaN, in-range, below, above} (position-dependent values) x cut into successive calls x fault (defuzzifier raising RuntimeError/ValueError, "
                 "disabled variable, missing defuzzifier) at a position x clear() in gaps; "
                 + ("base: EXHAUSTIVE length<=5 x all cuts x 12 settings; single: EXHAUSTIVE length<=4 x every fault position (kind rotating) x every single clear position; random: 300000 draws length<=5 with any fault kind and any subset of gaps cleared"
                    if ctx.tier == "thorough" else
                    "base: EXHAUSTIVE length<=3 x all cuts x 12 settings; single: EXHAUSTIVE length<=2 x every fault position (kind rotating) x every single clear position; random: 13500 draws from length<=4 with any fault kind and any subset of gaps cleared")
                 + "; wild: random special values (inf, -0.0, boundaries, denormals), NaN/inverted/degenerate ranges, infinite defaults, empty batches. "
                 "Each history is compared with the Coq model after every event (value list, previous_value, fuzzy degrees, exception class) and checked by the direct oracle; "
                 "histories with a one-element batch are re-run with 0-d ndarray and numpy.float64 results. non-trivial = histories in which the cascade changed at least one row "
                 "(fill-forward, default or clipping actually happened)")
    c["distribution"] = stats
    c["engine_stream"] = dict(estats, rule="Engine.process() on real engines (1 input, outputs y1 Centroid / y2 WeightedAverage|WeightedSum), exhaustive input sequences of length<=3 over "
                              "{no rule fires -> NaN, below, inside, above} x all cuts x 12 settings, single rows as float or 1-element array, plus random histories of length<=4 with a disabled output, "
                              "restart() and clear() between calls; the defuzzified values recorded by a wrapping defuzzifier are fed to the Coq model (run_events) and to the row-wise oracle; "
                              "value and previous_value of every output compared after every call")
    c["correspondence_mismatches"] = len(mism)
    c["oracle_violations"] = sum(f["count"] for f in found.values())
    c["oracle_violation_signatures"] = {s: f["count"] for s, f in found.items()}
    c["samples"] = samples
    ev["assumptions"] += [
        "the Python kind of the defuzzified value (ndarray / 0-d ndarray / numpy.float64) and batches of more than one dimension are not modelled; kinds are exercised by the harness and compared with the 1-d array run",
        "numpy.clip(v, lo, hi) = minimum(maximum(v, lo), hi) with NumF's Fmin/Fmax (NaN of the first operand, then of the second, else comparison); the sign of a zero result is not compared (feq)",
        "the theorems hold for every Num reading satisfying minmax_laws/order_laws; these are proved for NumXZ and for NumF (the latter through Coq's FloatAxioms specification of primitive floats)",
    ]


def replay(ctx, data):
    for v in data.get("violations", []):
        print(v["signature"], "--", v["what"])
        h = v["replay"]
        if "engine" in h:  # engine stream: re-run the Engine.process() history and show every output variable
            eh = dict(h["engine"], setting=tuple(h["engine"]["setting"]))
            print("  engine history:", eh["setting"], eh["weighted"], eh["events"])
            traces, obs = run_engine(eh)
            for t, o in zip(traces, obs):
                print("  ", t["label"])
                for e, x in zip([["init"]] + t["events"], o):
                    print("     ", e, "-> value", x["value"], "previous", x["previous"], "exc", x["exc"])
                r = oracle_check(t, o, "engine")
                print("   now:", "still violated: " + r[1] if r else "no violation")
            continue
        kind = h.get("kind", "array")
        print("  history:", h["cfg"], h["events"], "kind:", kind)
        obs = run_real(h, kind)
        for e, o in zip([["init"]] + h["events"], obs):
            print("   ", e, "-> value", o["value"], "previous", o["previous"], "exc", o["exc"])
        r = oracle_check(h, obs, kind)
        print("  now:", "still violated: " + r[1] if r else "no violation")
    for b in data.get("broken", []):
        print("BROKEN", b["kind"], b["name"], "\n", b["detail"][:3000])
    return 0
