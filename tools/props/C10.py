"""C10 — weighted defuzzifiers compute the grouped weighted average / sum.

Correspondence: REAL fuzzylite.Aggregated objects with 0-6 fuzzylite.Activated over 1-4 term names (repeated names,
sometimes two different term objects with the same name), terms Constant / Linear / Function (inside a small real
engine), monotonic shapes (Ramp, Sigmoid, Concave, SShape, ZShape, Arc) and non-monotonic shapes (Triangle, Gaussian);
every aggregation operator (the 9 registered S-norms, the non-commutative lambda a/4 + b/2 + 1/16, none);
WeightedAverage and WeightedSum x {Automatic, TakagiSugeno, Tsukamoto}; scalar and batch (array) degrees including
exact 0, 1, NaN, +-inf.  Observables compared exactly (NaN = NaN, -0 = +0) with Model/Weighted.v read over binary64,
row by row: defuzzify (value or exception class), grouped_terms() (names in order, term kept, degree, implication
None) and activation_degree(term).  Values of Linear / Function terms are taken from the implementation (a table
name -> value handed to the model); exp / log / libm pow from an observer clone of term.py.

Direct oracle (plain Python on the public API, tolerance 1e-9): grouping by name with the documented S-norm formulas;
sum(w z)/sum(w) and sum(w z); a zero-degree activation is neutral; NaN iff empty or zero total weight; the average of
constants lies between them; Automatic = the explicit kind of the terms; Tsukamoto refuses non-monotonic terms;
batch rows = scalar runs.
"""
from __future__ import annotations

import inspect
import math
import warnings

import numpy as np

import termlib
import vlib

COQ_TARGETS = ["Proofs/WeightedProofs.vo"]

SNORMS = ["AlgebraicSum", "BoundedSum", "DrasticSum", "EinsteinSum", "HamacherSum", "Maximum", "NilpotentMaximum", "NormalizedSum", "UnboundedSum"]
AGGS = SNORMS + ["#", ""]  # "#": NormLambda a/4 + b/2 + 1/16 (Core.SSharp); "": no aggregation operator
MONO = ["Ramp", "Sigmoid", "Concave", "SShape", "ZShape", "Arc"]
NONMONO = ["Triangle", "Gaussian"]
TYPES = ["Automatic", "TakagiSugeno", "Tsukamoto"]
CONFIGS = [(avg, ty) for avg in (True, False) for ty in range(3)]
ERR = {"ValueError": 1, "RuntimeError": 2, "TypeError": 3}
FORMULAS = ["x1 + 2*x2 - x", "x*x1 + 1", "3.5", "x", "x2 - x1"]

IMPORTS = """From VF Require Import GenNorm GenTerm Core Weighted.
Import ListNotations.
Local Open Scope list_scope.
Definition mk_term (name cls : string) (ps : list float) : option (term float) :=
  if String.eqb cls "Linear" then Some (TLinear name ps)
  else if String.eqb cls "Function" then Some (TFunction name None [])
  else option_map (TShape name) (shape_make cls ps).
Definition term_sig (t : term float) : string * string * list float :=
  match t with
  | TShape n s => (n, shape_class s, shape_args s)
  | TLinear n cs => (n, "Linear"%string, cs)
  | TFunction n _ _ => (n, "Function"%string, [])
  | TDiscrete n _ _ => (n, "Discrete"%string, [])
  end.
Fixpoint list_fsame (a b : list float) : bool :=
  match a, b with [], [] => true | x :: a', y :: b' => fsame x y && list_fsame a' b' | _, _ => false end.
Definition sig_eqb (a b : string * string * list float) : bool :=
  let '(n1, c1, p1) := a in let '(n2, c2, p2) := b in String.eqb n1 n2 && String.eqb c1 c2 && list_fsame p1 p2.
Fixpoint mapM {A B : Type} (f : A -> option B) (l : list A) : option (list B) :=
  match l with
  | [] => Some []
  | x :: tl => match f x, mapM f tl with Some y, Some ys => Some (y :: ys) | _, _ => None end
  end.
Definition agg_of (s : string) : option (option snormx) :=
  if String.eqb s "" then Some None
  else if String.eqb s "#" then Some (Some SSharp)
  else option_map (fun n => Some (SN n)) (find (fun n => String.eqb (snorm_name n) s) all_snorms).
Definition ty_of (k : nat) : wtype := match k with 0 => WAutomatic | 1 => WTakagiSugeno | _ => WTsukamoto end.
Definition err_code (e : err) : nat := match e with EValue => 1 | ERuntime => 2 | EInternal => 3 | _ => 4 end.
Definition res_ok (r : result float) (e : nat * float) : bool :=
  match r with Ok y => Nat.eqb (fst e) 0 && feq y (snd e) | Err x => Nat.eqb (fst e) (err_code x) end.
Definition vtbl_of (l : list (string * (nat * float))) : list (string * result float) :=
  map (fun p => (fst p, match fst (snd p) with 0 => Ok (snd (snd p)) | 1 => Err EValue | 2 => Err ERuntime | _ => Err EInternal end)) l.
Definition configs : list (bool * nat) := [(true, 0); (true, 1); (true, 2); (false, 0); (false, 1); (false, 2)].
Definition case_t : Type :=
  list (string * string * list float) * list (nat * float) * string * list (string * (nat * float)) * oracle * bool
  * list (nat * float) * list (nat * float) * list (string * float).
Definition check (c : case_t) : bool :=
  let '(pool, acts, aggs, vt, orc, sm, eres, egroups, eacts) := c in
  let N := NumF sm orc in
  match mapM (fun p : string * string * list float => let '(n, cls, ps) := p in mk_term n cls ps) pool, agg_of aggs with
  | Some terms, Some agg =>
    match mapM (fun a : nat * float =>
                  option_map (fun t => {| a_term := t; a_degree := @sanitize float N (snd a); a_implication := None |})
                             (nth_error terms (fst a))) acts with
    | Some l =>
      let G := @grouped_terms float N agg l in
      Nat.eqb (List.length eres) 6
      && forallb (fun ce => res_ok (@std_defuzzify float N (vtbl_of vt) (fst (fst ce)) (ty_of (snd (fst ce))) agg l) (snd ce))
                 (combine configs eres)
      && Nat.eqb (List.length G) (List.length egroups)
      && forallb (fun ge => match nth_error pool (fst (snd ge)) with
                            | Some p => sig_eqb (term_sig (a_term (fst ge))) p && feq (a_degree (fst ge)) (snd (snd ge))
                                        && match a_implication (fst ge) with None => true | Some _ => false end
                            | None => false end) (combine G egroups)
      && forallb (fun p => feq (@activation_degree float N agg l (fst p)) (snd p)) eacts
    | None => false
    end
  | _, _ => false
  end."""


# --------------------------------------------------------------------------- generation
class TermSpec:
    def __init__(self, name, cls, args, obj, clone, kind, extra=None):
        self.name, self.cls, self.args, self.obj, self.clone, self.kind, self.extra = name, cls, args, obj, clone, kind, extra

    def lit(self):
        return f"({vlib.coq_string(self.name)}, {vlib.coq_string(self.cls)}, {vlib.coq_list(vlib.fhex(a) for a in self.args)})"

    def describe(self):
        if self.cls == "Function":
            return f"Function({self.name!r}, {self.extra!r})"
        return f"{self.cls}({self.name!r}, {', '.join(repr(a) for a in self.args)})"


def _const_value(rng):
    return rng.choice([round(rng.uniform(-10, 10), 1), rng.uniform(-10, 10), float(rng.randint(-3, 9)), rng.uniform(-1e4, 1e4)])


def shape_spec(fl, obs, name, cls, params=None, rng=None):
    c = getattr(fl, cls)
    names = [n for n in inspect.signature(c.__init__).parameters if n not in ("self", "name")]
    if params is None:
        params = termlib.gen_params(cls, rng)
        if cls in MONO and rng.random() < 0.7:
            params["height"] = 1.0
    args = [float(params[n]) for n in names]
    kind = "TakagiSugeno" if cls == "Constant" else ("Tsukamoto" if cls in MONO else "Automatic")
    return TermSpec(name, cls, args, c(name, *args), getattr(obs, cls)(name, *args), kind)


def gen_term(fl, obs, engine, name, family, rng):
    if family == "mixed":
        family = rng.choice(["ts", "tsukamoto", "inverse"])
    if family == "tsukamoto":
        return shape_spec(fl, obs, name, rng.choice(MONO), rng=rng)
    if family == "inverse":
        return shape_spec(fl, obs, name, rng.choice(NONMONO), rng=rng)
    k = rng.random()
    if k < 0.6:
        return shape_spec(fl, obs, name, "Constant", {"value": _const_value(rng)})
    if k < 0.8:
        q = rng.random()
        n = 3 if q < 0.55 else (2 if q < 0.9 else 1)  # 1 coefficient: ValueError
        coeffs = [float(rng.choice([rng.randint(-3, 3), round(rng.uniform(-2, 2), 2)])) for _ in range(n)]
        eng = None if rng.random() < 0.06 else engine  # no engine: ValueError
        return TermSpec(name, "Linear", coeffs, fl.Linear(name, coeffs, eng), None, "TakagiSugeno", "no-engine" if eng is None else None)
    formula = rng.choice(FORMULAS)
    load = rng.random() >= 0.08  # not loaded: RuntimeError
    return TermSpec(name, "Function", [], fl.Function(name, formula, engine, load=load), None, "TakagiSugeno", formula + ("" if load else " (not loaded)"))


def gen_degree(rng):
    k = rng.random()
    if k < 0.20:
        return 0.0
    if k < 0.30:
        return 1.0
    if k < 0.50:
        return rng.randint(1, 7) / 8
    if k < 0.86:
        return rng.random()
    if k < 0.90:
        return math.nan
    if k < 0.93:
        return math.inf
    if k < 0.96:
        return -math.inf
    if k < 0.98:
        return rng.choice([5e-324, 1e-300])
    if k < 0.99:
        return -0.0
    return 0.5


class Case:
    """pool: list[TermSpec]; acts: list[(pool index, degree: float | list[float] (batch), implication flag)]"""

    def __init__(self, pool, acts, agg, rows, batch, inputs, engine, tag):
        self.pool, self.acts, self.agg, self.rows, self.batch, self.inputs, self.engine, self.tag = pool, acts, agg, rows, batch, inputs, engine, tag

    def degree_row(self, d, r):
        return float(d[r]) if isinstance(d, list) else float(d)


def make_engine(fl):
    return fl.Engine("e", input_variables=[fl.InputVariable("x1"), fl.InputVariable("x2")], output_variables=[fl.OutputVariable("out")])


def gen_case(fl, obs, rng):
    engine = make_engine(fl)
    family = rng.choices(["ts", "tsukamoto", "inverse", "mixed"], [35, 30, 15, 20])[0]
    names = ["a", "b", "c", "d"]
    rng.shuffle(names)
    names = names[: rng.randint(1, 4)]
    pool = []
    for nm in names:
        pool.append(gen_term(fl, obs, engine, nm, family, rng))
        if rng.random() < 0.15:  # another term object with the same name
            pool.append(gen_term(fl, obs, engine, nm, family if rng.random() < 0.6 else "mixed", rng))
    batch = rng.random() < 0.35
    rows = rng.randint(2, 4) if batch else 1
    nacts = rng.choice([0, 1, 2, 2, 3, 3, 4, 4, 5, 6])
    acts = []
    for _ in range(nacts):
        i = rng.randrange(len(pool))
        if batch and rng.random() < 0.75:
            d = [gen_degree(rng) for _ in range(rows)]
        else:
            d = gen_degree(rng)
        acts.append((i, d, rng.random() < 0.3))
    if nacts and rng.random() < 0.04:  # all weights zero
        acts = [(i, ([0.0] * rows if isinstance(d, list) else 0.0), im) for i, d, im in acts]
    inputs = [[float(rng.choice([rng.randint(-2, 2), round(rng.uniform(-2, 2), 3)])) for _ in range(rows)] for _ in range(2)]
    return Case(pool, acts, rng.choice(AGGS), rows, batch, inputs, engine, family)


def directed_cases(fl, obs):
    """Small fixed outputs: a monotonic term of every class with degree exactly 0 next to Ramp(0,1) at 0.5 (finding F4, now
    repaired: NaN when z(0) is infinite — Sigmoid, Concave), the same for the other kinds, empty and all-zero outputs."""
    out = []
    P = {"Ramp": {"start": 2.0, "end": 4.0, "height": 1.0}, "Sigmoid": {"inflection": 0.5, "slope": 10.0, "height": 1.0},
         "Concave": {"inflection": 0.0, "end": 1.0, "height": 1.0}, "SShape": {"start": 0.0, "end": 1.0, "height": 1.0},
         "ZShape": {"start": 0.0, "end": 1.0, "height": 1.0}, "Arc": {"start": 0.0, "end": 1.0, "height": 1.0},
         "Triangle": {"left": 0.0, "top": 0.5, "right": 1.0, "height": 1.0}, "Gaussian": {"mean": 0.5, "standard_deviation": 0.2, "height": 1.0},
         "Constant": {"value": 3.0}}
    first = {"Tsukamoto": ("Ramp", {"start": 0.0, "end": 1.0, "height": 1.0}), "Automatic": ("Triangle", {"left": 0.0, "top": 1.0, "right": 2.0, "height": 1.0}),
             "TakagiSugeno": ("Constant", {"value": 1.0})}
    for cls, p in P.items():
        kind = "TakagiSugeno" if cls == "Constant" else ("Tsukamoto" if cls in MONO else "Automatic")
        fc, fp = first[kind]
        for agg in ("", "Maximum"):
            eng = make_engine(fl)
            pool = [shape_spec(fl, obs, "a", fc, dict(fp)), shape_spec(fl, obs, "b", cls, dict(p))]
            out.append(Case(pool, [(0, 0.5, False), (1, 0.0, False)], agg, 1, False, [[0.0], [0.0]], eng, "directed"))
            out.append(Case(pool, [(1, 0.0, False), (0, 0.5, False), (0, 0.25, False)], agg, 1, False, [[0.0], [0.0]], eng, "directed"))
    eng = make_engine(fl)
    pool = [shape_spec(fl, obs, "a", "Constant", {"value": 2.0}), shape_spec(fl, obs, "b", "Constant", {"value": 5.0})]
    out.append(Case(pool, [], "", 1, False, [[0.0], [0.0]], eng, "directed"))
    out.append(Case(pool, [(0, 0.0, False), (1, 0.0, False)], "Maximum", 1, False, [[0.0], [0.0]], eng, "directed"))
    out.append(Case(pool, [(0, [0.0, 0.5, 1.0], False), (1, [0.0, 0.0, 0.25], False), (0, 0.25, False)], "AlgebraicSum", 3, True, [[0.0] * 3, [0.0] * 3], eng, "directed"))
    return out


# --------------------------------------------------------------------------- running the implementation
def make_agg(fl, agg):
    if agg == "":
        return None
    if agg == "#":
        return fl.NormLambda(lambda a, b: a / 4 + b / 2 + 1 / 16)
    return getattr(fl, agg)()


def set_inputs(case, row=None):
    for var, vals in zip(case.engine.input_variables, case.inputs):
        if row is not None:
            var.value = float(vals[row])
        elif case.batch:
            var.value = np.array(vals, dtype=float)
        else:
            var.value = float(vals[0])


def build_fuzzy(fl, case, row=None, skip=()):
    terms = []
    for k, (i, d, im) in enumerate(case.acts):
        if k in skip:
            continue
        if row is not None:
            deg = case.degree_row(d, row)
        else:
            deg = np.array(d, dtype=float) if isinstance(d, list) else float(d)
        terms.append(fl.Activated(case.pool[i].obj, deg, fl.Minimum() if im else None))
    return fl.Aggregated("out", 0.0, 1.0, make_agg(fl, case.agg), terms)


def rows_of(y, rows):
    return [float(v) for v in np.broadcast_to(np.asarray(y, dtype=float), (rows,))]


WAYS = ["string", "enum", "keyword-enum", "configure", "assign", "assign-string-name", "fll", "repr"]
CONSTRUCTION: dict = {"n": 0, "issues": [], "count": {}}


def make_defuzz(fl, avg, ty, way=None):
    """Weighted{Average,Sum} with the kind TYPES[ty] fixed in one of the ways the API offers (rotating when `way` is None);
    `defuzzifier.type` is checked right after construction."""
    cls = fl.WeightedAverage if avg else fl.WeightedSum
    T = fl.WeightedDefuzzifier.Type
    if way is None:
        way = WAYS[CONSTRUCTION["n"] % len(WAYS)]
        CONSTRUCTION["n"] += 1
    name = TYPES[ty]
    if way == "string":
        d = cls(name)
    elif way == "enum":
        d = cls(T[name])
    elif way == "keyword-enum":
        d = cls(type=T[name])
    elif way == "configure":
        d = cls()
        d.configure("" if ty == 0 else name)
    elif way == "assign":
        d = cls(TYPES[(ty + 1) % 3])
        d.type = T[name]
    elif way == "assign-string-name":
        d = cls()
        d.type = fl.WeightedDefuzzifier.Type[name]
    elif way == "fll":
        d = fl.FllImporter().defuzzifier(cls.__name__ + ("" if ty == 0 else " " + name))
    else:  # the printed constructor call
        d = eval(repr(cls(T[name])), {"fl": fl})
    CONSTRUCTION["count"][way] = CONSTRUCTION["count"].get(way, 0) + 1
    if type(d) is not cls or d.type is not T[name]:
        CONSTRUCTION["issues"].append((avg, ty, way, f"{cls.__name__} with the kind {name} fixed by '{way}' has type {getattr(d, 'type', None)!r} ({d!r})"))
    return d


def fuzzy_state(fuzzy):
    """Everything defuzzify could change in the Aggregated object: the list, the Activated objects, their terms, degrees (bits),
    implications, the aggregation operator, and the printed form (term parameters)."""
    return (tuple((id(a), id(a.term), np.asarray(a.degree, dtype=float).tobytes(), id(a.implication)) for a in fuzzy.terms),
            id(fuzzy.aggregation), repr(fuzzy))


def defuzz(fl, fuzzy, avg, ty, rows, inst=None):
    """`inst`: a defuzzifier instance shared by consecutive calls (None: a fresh one)."""
    d = inst if inst is not None else make_defuzz(fl, avg, ty)
    try:
        y = d.defuzzify(fuzzy, math.nan, math.nan)
    except (TypeError, RuntimeError, ValueError) as ex:
        return type(ex).__name__, None
    return None, rows_of(y, rows)


def run_impl(fl, case, shared=None):
    """Everything observed on the batch (or scalar) object, split into rows.  `shared`: {(avg, ty): defuzzifier instance}
    reused across ALL the fuzzy outputs of the run (kinds TakagiSugeno / Tsukamoto / inverse / mixed / empty follow each
    other in random order); the model is stateless, so any state kept in the instance shows up in the correspondence.
    `mutated`: what a defuzzify call changed in the defuzzifier or in the Aggregated object (nothing is documented)."""
    set_inputs(case)
    fuzzy = build_fuzzy(fl, case)
    R = case.rows
    res, mutated = [], []
    before = fuzzy_state(fuzzy)
    for avg, ty in CONFIGS:
        inst = shared.get((avg, ty)) if shared is not None else None
        want = (inst.type, repr(inst), dict(vars(inst))) if inst is not None else None
        res.append(defuzz(fl, fuzzy, avg, ty, R, inst))
        if inst is not None:
            now = (inst.type, repr(inst), dict(vars(inst)))
            if now != want:
                mutated.append((avg, ty, f"the defuzzifier {want[1]} (type {want[0].name}) is {now[1]} (type {getattr(now[0], 'name', now[0])}) after defuzzify"))
                shared[(avg, ty)] = make_defuzz(fl, avg, ty)  # go on with a clean instance
            after = fuzzy_state(fuzzy)
            if after != before:
                mutated.append((avg, ty, f"defuzzify changed the Aggregated object: {before[2]} became {after[2]}"))
                before = after
    groups = fuzzy.grouped_terms()
    gl = []
    for name, g in groups.items():
        idx = next((k for k, t in enumerate(case.pool) if t.obj is g.term), None)
        gl.append({"name": name, "idx": idx, "deg": rows_of(g.degree, R), "deg_obj": g.degree, "impl_none": g.implication is None, "key_ok": name == g.term.name})
    ad = {}
    for nm in sorted({t.name for t in case.pool}) + ["zz"]:
        ad[nm] = rows_of(fuzzy.activation_degree(fl.Constant(nm, 0.0)), R)
    # values of the engine-dependent terms at the grouped degrees, and libm results of the shape terms
    vt = []
    orc = []
    clone_diff = 0
    for g in gl:
        t = case.pool[g["idx"]] if g["idx"] is not None else None
        if t is None:
            continue
        if t.cls in ("Linear", "Function"):
            try:
                z = rows_of(t.obj.membership(g["deg_obj"]), R)
                vt.append((t.name, [(0, v) for v in z]))
            except (ValueError, RuntimeError, TypeError) as ex:
                vt.append((t.name, [(ERR[type(ex).__name__], 0.0)] * R))
        else:
            for meth in ("membership", "tsukamoto"):
                if meth == "tsukamoto" and t.cls not in MONO:
                    continue
                vlib.RECORDER.reset()
                zc = getattr(t.clone, meth)(g["deg_obj"])
                orc += vlib.RECORDER.take()
                zr = getattr(t.obj, meth)(g["deg_obj"])
                if not all(vlib.same_float(a, b) for a, b in zip(rows_of(zc, R), rows_of(zr, R))):
                    clone_diff += 1
    return {"mutated": mutated, "res": res, "groups": gl, "ad": ad, "vt": vt, "orc": orc, "clone_diff": clone_diff, "fuzzy": fuzzy}


def coq_lits(case, imp):
    lits = []
    pool = vlib.coq_list(t.lit() for t in case.pool)
    seen = set()
    orc = []
    for e in imp["orc"]:
        k = (e[0], vlib.fkey(e[1]), vlib.fkey(e[2]))
        if k not in seen:
            seen.add(k)
            orc.append(e)
    orc_lit = vlib.oracle_lit(orc)
    for r in range(case.rows):
        acts = vlib.coq_list(f"({i}, {vlib.fhex(case.degree_row(d, r))})" for i, d, _ in case.acts)
        vt = vlib.coq_list(f"({vlib.coq_string(n)}, ({rows[r][0]}, {vlib.fhex(rows[r][1])}))" for n, rows in imp["vt"])
        eres = vlib.coq_list(f"({ERR.get(e, 9)}, 0%float)" if e else f"(0, {vlib.fhex(y[r])})" for e, y in imp["res"])
        egroups = vlib.coq_list(f"({g['idx'] if g['idx'] is not None else 99}, {vlib.fhex(g['deg'][r])})" for g in imp["groups"])
        eacts = vlib.coq_list(f"({vlib.coq_string(n)}, {vlib.fhex(v[r])})" for n, v in imp["ad"].items())
        sm = "false" if case.batch else "true"
        lits.append(f"({pool}, {acts}, {vlib.coq_string(case.agg)}, {vt}, {orc_lit}, {sm}, {eres}, {egroups}, {eacts})")
    return lits


# --------------------------------------------------------------------------- histories: ONE long-lived Aggregated
def activated_list(fl, case, row=None):
    return build_fuzzy(fl, case, row).terms


class History:
    """One Aggregated object and one defuzzifier object per (defuzzifier, type), kept for the whole run: before every
    defuzzification the contents are replaced by the next fuzzy output (clear + extend / list assignment alternate; the
    aggregation operator is replaced too).  The property is about the fuzzy set GIVEN, so the results must be those of a
    freshly built object with the same contents (which are tied to the model and the oracle)."""

    def __init__(self, fl):
        self.fuzzy = fl.Aggregated("out", 0.0, 1.0)
        self.inst = {(avg, ty): make_defuzz(fl, avg, ty) for avg, ty in CONFIGS}
        self.prev = None
        self.steps = 0
        self.calls = 0

    @staticmethod
    def load(fl, fuzzy, case, step):
        set_inputs(case)
        acts = activated_list(fl, case)
        if step % 2 == 0:
            fuzzy.clear()
            fuzzy.terms.extend(acts)
        else:
            fuzzy.terms = acts
        fuzzy.aggregation = make_agg(fl, case.agg)

    def step(self, fl, case, imp, verdict):
        """returns the number of violations"""
        n = 0
        self.load(fl, self.fuzzy, case, self.steps)
        self.steps += 1
        bad = []
        for ci, (avg, ty) in enumerate(CONFIGS):
            e, y = defuzz(fl, self.fuzzy, avg, ty, case.rows, self.inst[(avg, ty)])
            self.calls += 1
            fe, fy = imp["res"][ci]
            if e != fe or (e is None and not all(vlib.same_float(a, b) for a, b in zip(y, fy))):
                bad.append((avg, ty, e or y, fe or fy))
        got = self.fuzzy.grouped_terms()
        want = imp["groups"]
        if list(got) != [g["name"] for g in want] or any(not all(vlib.same_float(a, b) for a, b in zip(rows_of(got[g["name"]].degree, case.rows), g["deg"])) for g in want):
            verdict.add_violation("grouped_terms:depends-on-earlier-call", f"grouped_terms() of a reused Aggregated now holding {describe(case, 0)} differs from a fresh object with the same contents",
                                  {"steps": [history_step(case)]})
            n += 1
        for avg, ty, g, w in bad:
            dname = f"{'WeightedAverage' if avg else 'WeightedSum'}({TYPES[ty]})"
            # the shortest history: previous contents, then the current ones, on a brand-new object
            hist = [self.prev, case] if self.prev is not None else [case]
            f2 = fl.Aggregated("out", 0.0, 1.0)
            d2 = make_defuzz(fl, avg, ty)
            e2 = y2 = None
            for k, c in enumerate(hist):
                self.load(fl, f2, c, k)
                e2, y2 = defuzz(fl, f2, avg, ty, c.rows, d2)
            fe, fy = imp["res"][CONFIGS.index((avg, ty))]
            short = e2 != fe or (e2 is None and not all(vlib.same_float(a, b) for a, b in zip(y2, fy)))
            what = (f"{dname}: ONE Aggregated object and ONE defuzzifier, defuzzified after each replacement of the activated terms: "
                    + (" ; then ".join(f"terms := {describe(c, 0)} -> {'?' if k < len(hist) - 1 else (e2 or y2)!r}" for k, c in enumerate(hist)) if short
                       else f"(after {self.steps - 1} earlier fuzzy outputs) terms := {describe(case, 0)} -> {g!r}")
                    + f"; a freshly built Aggregated with the last contents gives {w!r}")
            verdict.add_violation("weighted:depends-on-earlier-call", what,
                                  {"steps": [history_step(c) for c in (hist if short else [case])], "defuzzifier": "WeightedAverage" if avg else "WeightedSum", "type": TYPES[ty],
                                   "reproduced_by_these_steps_alone": bool(short)})
            n += 1
        if bad:  # start again from clean objects, so that one defect is not reported for every later output
            self.fuzzy = fl.Aggregated("out", 0.0, 1.0)
            self.inst = {(avg, ty): make_defuzz(fl, avg, ty) for avg, ty in CONFIGS}
        self.prev = case
        return n


def history_step(case):
    return {"terms": [{"name": t.name, "class": t.cls, "args": t.args, "extra": t.extra} for t in case.pool],
            "activations": [[i, d] for i, d, _ in case.acts], "aggregation": case.agg, "inputs": case.inputs, "batch": case.batch}


ENGINE_OUT = [("k1", "Constant", [2.0]), ("k2", "Constant", [5.0]), ("up", "Ramp", [0.0, 10.0]), ("down", "Ramp", [10.0, 0.0]),
              ("t1", "Triangle", [0.0, 3.0, 6.0]), ("t2", "Gaussian", [7.0, 1.5])]


def build_history_engine(fl, avg, ty, aggregation, width):
    """input x with six triangles centred at (2k+1)/12, rule k: `if x is s_k then y is o_k` with o_0, o_1 constants,
    o_2, o_3 monotonic, o_4, o_5 non-monotonic; Threshold(> 0) activation, so only the rules that fire add activations."""
    ins = [fl.Triangle(f"s{k}", (2 * k + 1) / 12 - width, (2 * k + 1) / 12, (2 * k + 1) / 12 + width) for k in range(6)]
    outs = [getattr(fl, cls)(name, *args) for name, cls, args in ENGINE_OUT]
    return fl.Engine("history", input_variables=[fl.InputVariable("x", minimum=0.0, maximum=1.0, terms=ins)],
                     output_variables=[fl.OutputVariable("y", minimum=0.0, maximum=10.0, default_value=math.nan, aggregation=make_agg(fl, aggregation),
                                                         defuzzifier=make_defuzz(fl, avg, ty), terms=outs)],
                     rule_blocks=[fl.RuleBlock("", conjunction=None, disjunction=None, implication=None, activation=fl.Threshold(">", 0.0),
                                               rules=[fl.Rule.create(f"if x is s{k} then y is {ENGINE_OUT[k][0]}") for k in range(6)])])


def engine_histories(fl, rng, verdict, count):
    """Engine.process() repeatedly on ONE engine (its OutputVariable.fuzzy is one long-lived Aggregated, cleared and refilled):
    every output value must be what a fresh defuzzifier gives on a fresh Aggregated with the activations the step produced."""
    n = calls = 0
    for _ in range(count):
        if n >= 3:  # enough concrete engine histories
            break
        avg, ty = rng.choice(CONFIGS)
        agg = rng.choice(["", "Maximum", "AlgebraicSum", "UnboundedSum"])
        width = rng.choice([1 / 16, 1 / 12, 1 / 8])
        eng = build_history_engine(fl, avg, ty, agg, width)
        out = eng.output_variables[0]
        xs = [rng.choice([(2 * rng.randrange(6) + 1) / 12 + rng.uniform(-0.05, 0.05), rng.random(), 2.0]) for _ in range(rng.randint(3, 7))]
        trace = []
        for x in xs:
            eng.input_variables[0].value = x
            try:
                eng.process()
                got = (None, float(out.value))
            except (TypeError, RuntimeError, ValueError) as ex:
                got = (type(ex).__name__, None)
            calls += 1
            fresh = fl.Aggregated("y", 0.0, 10.0, make_agg(fl, agg), [fl.Activated(a.term, a.degree, a.implication) for a in out.fuzzy.terms])
            e, y = defuzz(fl, fresh, avg, ty, 1)
            want = (e, None if e else y[0])
            trace.append((x, out.fuzzy_value(), got, want))
            if got[0] != want[0] or (got[0] is None and not vlib.same_float(got[1], want[1])):
                dname = f"{'WeightedAverage' if avg else 'WeightedSum'}({TYPES[ty]})"
                what = (f"engine (x with six triangles of half-width {width!r} at (2k+1)/12; y with {', '.join(f'{c}({n_!r})' for n_, c, _ in ENGINE_OUT)}; rules `if x is s_k then y is o_k`; "
                        f"Threshold(>0) activation; aggregation {agg or None}; {dname}): process() for x = " + ", ".join(f"{t[0]!r} -> y = {(t[2][0] or t[2][1])!r} [fuzzy {t[1]}]" for t in trace)
                        + f"; the last fuzzy output defuzzified on its own gives {(want[0] or want[1])!r}")
                verdict.add_violation("weighted:depends-on-earlier-call", what, {"engine": {"width": width, "aggregation": agg}, "xs": [t[0] for t in trace],
                                                                                "defuzzifier": "WeightedAverage" if avg else "WeightedSum", "type": TYPES[ty]})
                n += 1
                break
    return n, calls


# --------------------------------------------------------------------------- direct oracle
def san(d):
    if d != d or d == -math.inf:
        return 0.0
    if d == math.inf:
        return 1.0
    return d


def snorm_doc(agg, a, b):
    if agg in ("", "UnboundedSum"):
        return a + b
    if agg == "#":
        return a / 4 + b / 2 + 1 / 16
    if agg == "AlgebraicSum":
        return a + b - a * b
    if agg == "BoundedSum":
        return min(1.0, a + b)
    if agg == "DrasticSum":
        return max(a, b) if min(a, b) == 0 else 1.0
    if agg == "EinsteinSum":
        return (a + b) / (1 + a * b)
    if agg == "HamacherSum":
        return 1.0 if a * b == 1 else (a + b - 2 * a * b) / (1 - a * b)
    if agg == "Maximum":
        return max(a, b)
    if agg == "NilpotentMaximum":
        return max(a, b) if a + b < 1 else 1.0
    if agg == "NormalizedSum":
        return (a + b) / max(1.0, a + b)
    raise KeyError(agg)


def close(a, b, scale=1.0):
    if a != a or b != b:
        return a != a and b != b
    if math.isinf(a) or math.isinf(b):
        return a == b
    return abs(a - b) <= 1e-9 * max(1.0, abs(scale), abs(b))


def describe(case, row, skip=()):
    acts = ", ".join(f"{case.degree_row(d, row)!r}/{case.pool[i].describe()}" for k, (i, d, _) in enumerate(case.acts) if k not in skip)
    return f"Aggregated(aggregation={case.agg or None}, terms=[{acts}])"


def replay_dict(case, row, avg, ty, extra=None):
    d = {"terms": [{"name": t.name, "class": t.cls, "args": t.args, "extra": t.extra} for t in case.pool],
         "activations": [[i, case.degree_row(dg, row)] for i, dg, _ in case.acts], "aggregation": case.agg,
         "inputs": [v[row] for v in case.inputs], "defuzzifier": "WeightedAverage" if avg else "WeightedSum", "type": TYPES[ty]}
    if extra:
        d.update(extra)
    return d


def oracle_row(fl, case, imp, r, verdict, stats):
    """The property statement on row r, stated on scalar fuzzy outputs rebuilt from the row's degrees."""
    n = 0

    def viol(sig, what, avg=True, ty=0, extra=None):
        nonlocal n
        verdict.add_violation(sig, what, replay_dict(case, r, avg, ty, extra))
        n += 1

    set_inputs(case, r)
    fuzzy = build_fuzzy(fl, case, r)
    # ---- grouping
    exp = {}
    for i, d, _ in case.acts:
        t = case.pool[i]
        d = san(case.degree_row(d, r))
        if t.name not in exp:
            exp[t.name] = [t, d]
        else:
            exp[t.name][1] = san(snorm_doc(case.agg, exp[t.name][1], d))
    got = fuzzy.grouped_terms()
    if list(got) != list(exp):
        viol("grouped_terms:order", f"grouped_terms() of {describe(case, r)} has names {list(got)}, first-occurrence order is {list(exp)}")
        return n
    for name, (t, w) in exp.items():
        g = got[name]
        if g.term is not t.obj or g.implication is not None or not close(float(g.degree), w):
            viol("grouped_terms:degree", f"grouped_terms() of {describe(case, r)}: group {name!r} has degree {float(g.degree)!r} (documented fold: {w!r}), term kept: {g.term is t.obj}")
        if not vlib.same_float(imp["groups"][list(exp).index(name)]["deg"][r], float(g.degree)):
            viol("batch:rows", f"grouped_terms() of the batch differs from the scalar run on row {r} for {name!r}")
    for nm in list(imp["ad"]):
        a = float(fuzzy.activation_degree(fl.Constant(nm, 0.0)))
        want = exp[nm][1] if nm in exp else 0.0
        if not close(a, want):
            viol("activation_degree", f"activation_degree({nm!r}) of {describe(case, r)} = {a!r}, documented {want!r}")
    # ---- kinds
    for t in case.pool:
        k = fl.WeightedDefuzzifier.infer_type(t.obj).name
        if k != t.kind:
            viol("infer_type:term", f"infer_type({t.describe()}) = {k}, documented {t.kind}")
    kinds = {case.pool[i].kind for i, _, _ in case.acts}
    W = [(float(got[name].degree), exp[name][0]) for name in exp]
    # removable zero-degree activations: of a name that occurs once, or a later occurrence under an operator with identity 0
    removable = []
    seen_names = set()
    for k, (i, d, _) in enumerate(case.acts):
        nm = case.pool[i].name
        zero = san(case.degree_row(d, r)) == 0.0
        count = sum(1 for j, _, _ in case.acts if case.pool[j].name == nm)
        if zero and (count == 1 or (nm in seen_names and case.agg != "#")):
            removable.append(k)
        seen_names.add(nm)
    results = {}
    for ci, (avg, ty) in enumerate(CONFIGS):
        e, y = defuzz(fl, fuzzy, avg, ty, 1)
        results[(avg, ty)] = (e, y)
        be, by = imp["res"][ci]
        if (e != be) or (e is None and not close(y[0], by[r], by[r])):
            if case.batch:
                viol("batch:rows", f"{'WeightedAverage' if avg else 'WeightedSum'}({TYPES[ty]}) on the batch gives {be or by[r]!r} on row {r}, the scalar run gives {e or y[0]!r}", avg, ty)
            else:
                viol("defuzzifier:instance-state", f"{'WeightedAverage' if avg else 'WeightedSum'}({TYPES[ty]}) instance reused from the previous fuzzy outputs gives {be or by[r]!r} "
                     f"on {describe(case, r)}, a fresh instance gives {e or y[0]!r}", avg, ty)
        dname = f"{'WeightedAverage' if avg else 'WeightedSum'}({TYPES[ty]})"
        if ty == 0:
            if len(kinds) > 1:
                stats["mixed-kinds:" + (e or "value")] = stats.get("mixed-kinds:" + (e or "value"), 0) + 1
                continue
            this = next(iter(kinds)) if kinds else "Automatic"
        else:
            this = TYPES[ty]
        if this == "Tsukamoto" and any(t.kind != "Tsukamoto" for _, t in W):
            if e != "RuntimeError":
                viol("tsukamoto:non-monotonic-accepted", f"{dname} of {describe(case, r)} returned {e or y[0]!r}; a term is not monotonic (RuntimeError documented)", avg, ty)
            continue
        zs = []
        failed = None
        for w, t in W:
            try:
                with np.errstate(all="ignore"):
                    z = t.obj.tsukamoto(w) if this == "Tsukamoto" else t.obj.membership(w)
                zs.append(float(np.asarray(z, dtype=float).reshape(-1)[0]))
            except (ValueError, RuntimeError) as ex:
                failed = type(ex).__name__
                break
        if failed:
            if e != failed:
                viol("weighted:term-error", f"{dname} of {describe(case, r)}: a term raises {failed}, defuzzify gave {e or y[0]!r}", avg, ty)
            continue
        if e is not None:
            viol("weighted:unexpected-exception", f"{dname} of {describe(case, r)} raised {e}", avg, ty)
            continue
        y = y[0]
        ws = [w for w, _ in W]
        if any(not math.isfinite(z) for w, z in zip(ws, zs) if w > 0):
            stats["skipped:non-finite-z-at-positive-weight"] = stats.get("skipped:non-finite-z-at-positive-weight", 0) + 1
            continue
        sw = math.fsum(ws)
        zero_inf = [t for (w, t), z in zip(W, zs) if w == 0 and not math.isfinite(z)]
        # NaN exactly when there are no activations or all weights are zero
        want_nan = (not case.acts) or sw == 0
        if want_nan != (y != y):
            if zero_inf and y != y:
                t = zero_inf[0]
                viol("weighted:zero-degree-times-infinite-z",
                     f"{dname}.defuzzify({describe(case, r)}) = nan although the total weight is {sw!r}: {t.describe()} has degree 0 and tsukamoto(0) = {float(t.obj.tsukamoto(0.0))!r}, so 0 * inf = nan is added to the weighted sum", avg, ty)
            else:
                viol("weighted:nan-iff", f"{dname}.defuzzify({describe(case, r)}) = {y!r}; NaN is documented exactly for no activations or zero total weight (total weight {sw!r})", avg, ty)
            continue
        if not want_nan and sw >= 1e-250:
            swz = math.fsum(w * z for w, z in zip(ws, zs) if w > 0)
            want = swz / sw if avg else swz
            scale = max([abs(z) for w, z in zip(ws, zs) if w > 0] + [1.0]) * (1.0 if avg else max(1.0, sw))
            if not close(y, want, scale):
                viol("weighted:formula", f"{dname}.defuzzify({describe(case, r)}) = {y!r}, documented {'sum(wz)/sum(w)' if avg else 'sum(wz)'} = {want!r}", avg, ty)
            if avg and this != "Tsukamoto" and all(t.cls == "Constant" for _, t in W):
                cs = [t.args[0] for w, t in W if w > 0]
                if not (min(cs) - 1e-9 * scale <= y <= max(cs) + 1e-9 * scale):
                    viol("weighted:between-constants", f"{dname}.defuzzify({describe(case, r)}) = {y!r} outside [{min(cs)!r}, {max(cs)!r}]", avg, ty)
        # an activation with degree 0 never changes the result
        if removable:
            f2 = build_fuzzy(fl, case, r, skip=set(removable))
            e2, y2 = defuzz(fl, f2, avg, ty, 1)
            stats["zero-degree-removal-checked"] = stats.get("zero-degree-removal-checked", 0) + 1
            if e2 is None and not close(y, y2[0], max([abs(z) for z in zs if math.isfinite(z)] + [1.0])):
                culprit = next((case.pool[case.acts[k][0]] for k in removable if case.pool[case.acts[k][0]] in zero_inf), None)
                if culprit is not None:
                    viol("weighted:zero-degree-times-infinite-z",
                         f"{dname}.defuzzify({describe(case, r)}) = {y!r} but without the zero-degree activations it is {y2[0]!r}: "
                         f"{culprit.describe()}.tsukamoto(0) = {float(culprit.obj.tsukamoto(0.0))!r} and 0 * inf = nan", avg, ty, {"without_zero_degree": y2[0]})
                else:
                    viol("weighted:zero-degree-not-neutral", f"{dname}.defuzzify({describe(case, r)}) = {y!r} but without the zero-degree activations it is {y2[0]!r}", avg, ty)
    # Automatic = the explicit kind when there is exactly one
    if len(kinds) == 1:
        k = TYPES.index(next(iter(kinds)))
        for avg in (True, False):
            (e0, y0), (e1, y1) = results[(avg, 0)], results[(avg, k)]
            if e0 != e1 or (e0 is None and not vlib.same_float(y0[0], y1[0])):
                viol("infer_type:automatic-differs", f"{describe(case, r)}: Automatic gives {e0 or y0[0]!r}, explicit {TYPES[k]} gives {e1 or y1[0]!r}", avg, 0)
    return n


# --------------------------------------------------------------------------- run
def run(ctx, build, verdict, ev):
    import fuzzylite as fl

    warnings.simplefilter("ignore")
    obs = vlib.observed_module("term")
    rng = ctx.rng
    cases = directed_cases(fl, obs)
    ndirected = len(cases)
    cases += [gen_case(fl, obs, rng) for _ in range(ctx.n(2000, 40000))]
    lits, index = [], []
    CONSTRUCTION.update(n=0, issues=[], count={})
    for way in WAYS:  # every way x every configuration at least once
        for avg, ty in CONFIGS:
            make_defuzz(fl, avg, ty, way)
    shared = {(avg, ty): make_defuzz(fl, avg, ty) for avg, ty in CONFIGS}
    seen_issue = set()

    def report_constructions():
        n = 0
        for avg, ty, way, what in CONSTRUCTION["issues"]:
            if (avg, ty, way) not in seen_issue:  # one report per (defuzzifier, kind, way)
                seen_issue.add((avg, ty, way))
                verdict.add_violation("defuzzifier:type-not-honoured", what, {"construct": way, "defuzzifier": "WeightedAverage" if avg else "WeightedSum", "type": TYPES[ty]})
                n += 1
        return n

    dist: dict[str, int] = {}
    stats: dict[str, int] = {}
    nviol = clone_diff = evaluations = 0
    nontrivial = set()
    unexpected = []
    samples = []

    def bump(k):
        dist[k] = dist.get(k, 0) + 1

    nviol += report_constructions()  # the constructions made so far, before any fuzzy output is processed
    history = History(fl)
    with np.errstate(all="ignore"):
        eh_viol, eh_calls = engine_histories(fl, rng, verdict, ctx.n(150, 3000))
        nviol += eh_viol
        for ci, case in enumerate(cases):
            imp = run_impl(fl, case, shared)
            nviol += history.step(fl, case, imp, verdict)
            for avg, ty, what in imp["mutated"]:
                verdict.add_violation("defuzzify:mutates", f"{'WeightedAverage' if avg else 'WeightedSum'}({TYPES[ty]}).defuzzify({describe(case, 0)}): {what}", replay_dict(case, 0, avg, ty))
                nviol += 1
            clone_diff += imp["clone_diff"]
            for g in imp["groups"]:
                if g["idx"] is None or not g["key_ok"] or not g["impl_none"]:
                    unexpected.append(f"case {ci}: group {g['name']}: term not from the pool / key mismatch / implication set")
            for e, _ in imp["res"]:
                if e and e not in ERR:
                    unexpected.append(f"case {ci}: exception {e}")
            for lit in coq_lits(case, imp):
                lits.append(lit)
                index.append(ci)
            evaluations += case.rows * (len(CONFIGS) + 2)
            bump("family:" + case.tag)
            bump("aggregation:" + (case.agg or "none"))
            bump("batch" if case.batch else "scalar")
            bump(f"activations:{len(case.acts)}")
            names = [case.pool[i].name for i, _, _ in case.acts]
            if len(set(names)) < len(names):
                bump("repeated-name")
            if len({id(case.pool[i]) for i, _, _ in case.acts}) > len(set(names)):
                bump("two-terms-one-name")
            degs = [case.degree_row(d, r) for _, d, _ in case.acts for r in range(case.rows)]
            if any(d == 0 for d in degs):
                bump("has-zero-degree")
            if any(not math.isfinite(d) for d in degs):
                bump("has-nan-or-inf-degree")
            for (avg, ty), (e, y) in zip(CONFIGS, imp["res"]):
                bump("result:" + (e or ("nan" if all(v != v for v in y) else "value")))
            for t in {id(case.pool[i]): case.pool[i] for i, _, _ in case.acts}.values():
                bump("term:" + t.cls)
            if len(case.acts) >= 2 and any(e is None and any(math.isfinite(v) for v in y) for e, y in imp["res"]):
                nontrivial.add((case.agg, tuple((case.pool[i].cls, tuple(case.pool[i].args), case.pool[i].name, tuple(d) if isinstance(d, list) else d) for i, d, _ in case.acts)))
            for r in range(case.rows):
                nviol += oracle_row(fl, case, imp, r, verdict, stats)
            if ci in (0, ndirected + 1, ndirected + 7, ndirected + 19, ndirected + 42) or (ci > ndirected and len(samples) < 6 and case.batch):
                samples.append({"output": describe(case, 0), "rows": case.rows,
                                "results_row0": {f"{'avg' if a else 'sum'}/{TYPES[t]}": (e or y[0]) for (a, t), (e, y) in zip(CONFIGS, imp["res"])},
                                "groups_row0": [(g["name"], g["deg"][0]) for g in imp["groups"]]})
    nviol += report_constructions()
    if clone_diff:
        verdict.add_broken("harness", "observer-clone", f"observer clone of term.py disagrees with the real module on {clone_diff} inputs")
    if unexpected:
        verdict.add_broken("harness", "unexpected-observation", "; ".join(unexpected[:5]))
    bad, log = ([], "") if build.translation_errors else vlib.run_coq_cases(ctx.work, "c10", IMPORTS, [("case_t", "check", lits)], chunk=ctx.n(300, 1200))
    mism = []
    for i in bad:
        if i < 0:
            verdict.add_broken("correspondence", "C10:coq-evaluation", log)
            break
        mism.append(index[i])
    if mism:
        c0 = cases[mism[0]]
        verdict.add_broken("correspondence", "weighted defuzzifier / grouped_terms / activation_degree",
                           f"model (Model/Weighted.v over binary64) and implementation differ on {len(mism)} rows; first: {describe(c0, 0)} rows={c0.rows} batch={c0.batch}")
    c = ev["coverage"]
    c["evaluations"] = evaluations
    c["coq_cases"] = len(lits)
    c["fuzzy_outputs"] = len(cases)
    c["distinct_nontrivial"] = len(nontrivial)
    c["rule"] = ("fuzzy outputs of 0-6 Activated over 1-4 names (15% of the names with a second term object), families TakagiSugeno (Constant/Linear/Function in a real "
                 "engine) / Tsukamoto (6 monotonic shapes) / inverse (Triangle, Gaussian) / mixed; degrees 0, 1, k/8, random, NaN, +-inf, subnormal, -0.0; aggregation uniform over "
                 "9 S-norms + lambda + none; 35% batch of 2-4 rows (array and scalar degrees mixed); each output x {WeightedAverage, WeightedSum} x {Automatic, TakagiSugeno, "
                 "Tsukamoto} + grouped_terms + activation_degree, every row compared exactly with the Coq model; plus directed two/three-activation outputs with a zero-degree "
                 "term of every class; HISTORIES: one long-lived Aggregated (and one defuzzifier per configuration) is refilled with every output in turn (clear+extend / assignment) "
                 "and must give the results of the freshly built object bit for bit, and engines with Threshold activation are processed repeatedly with inputs firing rules "
                 "whose consequents are of different kinds; the kind is fixed in every way the API offers (string, enum member, keyword, configure, attribute assignment, FLL importer, printed "
                 "constructor), rotating, and `type` is checked after construction; ONE defuzzifier instance per (defuzzifier, type) is reused across all the outputs (kinds follow each other in random order) and compared with the "
                 "stateless model and with fresh instances; non-trivial = distinct outputs with >= 2 activations and a finite result")
    c["distribution"] = dist
    c["constructions"] = dict(CONSTRUCTION["count"])
    c["history"] = {"one_aggregated_object_refilled": history.steps, "defuzzify_calls_on_it": history.calls, "engine_process_calls": eh_calls}
    c["oracle_stats"] = stats
    c["correspondence_mismatches"] = len(mism)
    c["oracle_violations"] = nviol
    sigs: dict[str, int] = {}
    for v in verdict.violations:
        sigs[v["signature"]] = sigs.get(v["signature"], 0) + 1
    c["violation_signatures"] = sigs
    c["known_finding_hits"] = dict(verdict.known_hits)
    c["samples"] = samples[:6]
    c["finding_F4"] = ("repaired in /repo (fix: weighted defuzzifiers returned nan when an activation had degree zero and an infinite value); the model's loop has the "
                       "same guard (wcontrib) and C10_zero_degree_neutral / C10_zero_degree_neutral_new hold without a finiteness hypothesis; the unguarded loop is refuted in "
                       "C10_zero_degree_neutral_unguarded_refuted; the oracle signature weighted:zero-degree-times-infinite-z stays active (directed Sigmoid/Concave outputs with a "
                       "zero-degree activation are run on every check)")
    ev["assumptions"] += ["R / ER theorems ignore rounding; the binary64 reading is tied to the implementation by the bit-exact correspondence only",
                          "values of Linear / Function terms are taken from the implementation (table name -> value); exp / log / libm pow results from an observer clone of term.py",
                          "the mixture of kinds under Automatic raises TypeError (modelled as Err EInternal); the oracle does not judge it",
                          "oracle skips the closed-form comparison when a positive-weight z is not finite (degree above the term's height, Sigmoid at its height) or the total weight is below 1e-250"]


def rebuild_term(fl, t, eng):
    if t["class"] == "Linear":
        return fl.Linear(t["name"], t["args"], None if t["extra"] == "no-engine" else eng)
    if t["class"] == "Function":
        return fl.Function(t["name"], t["extra"].replace(" (not loaded)", ""), eng, load="(not loaded)" not in t["extra"])
    return getattr(fl, t["class"])(t["name"], *t["args"])


def replay(ctx, data):
    import fuzzylite as fl

    warnings.simplefilter("ignore")
    for v in data.get("violations", []):
        print(v["what"])
        r = v["replay"]
        if "construct" in r:
            CONSTRUCTION.update(n=0, issues=[], count={})
            d = make_defuzz(fl, r["defuzzifier"] == "WeightedAverage", TYPES.index(r["type"]), r["construct"])
            print("  now:", repr(d), "type =", d.type)
        if "steps" in r and "defuzzifier" in r:
            fuzzy = fl.Aggregated("out", 0.0, 1.0)
            d = getattr(fl, r["defuzzifier"])(r["type"])
            for k, st in enumerate(r["steps"]):
                eng = make_engine(fl)
                for var, val in zip(eng.input_variables, st["inputs"]):
                    var.value = np.array(val, dtype=float) if st["batch"] else float(val[0])
                terms = [rebuild_term(fl, t, eng) for t in st["terms"]]
                acts = [fl.Activated(terms[i], np.array(dg, dtype=float) if isinstance(dg, list) else dg) for i, dg in st["activations"]]
                fuzzy.clear()
                fuzzy.terms.extend(acts)
                fuzzy.aggregation = make_agg(fl, st["aggregation"])
                fresh = fl.Aggregated("out", 0.0, 1.0, make_agg(fl, st["aggregation"]), [fl.Activated(a.term, a.degree) for a in acts])
                with np.errstate(all="ignore"):
                    outs = []
                    for f, dd in ((fuzzy, d), (fresh, getattr(fl, r["defuzzifier"])(r["type"]))):
                        try:
                            outs.append(dd.defuzzify(f))
                        except Exception as ex:  # noqa
                            outs.append(type(ex).__name__)
                print(f"  now: step {k}: reused object -> {outs[0]}   fresh object -> {outs[1]}")
            continue
        if "engine" in r:
            CONSTRUCTION.update(n=0, issues=[], count={})
            eng = build_history_engine(fl, r["defuzzifier"] == "WeightedAverage", TYPES.index(r["type"]), r["engine"]["aggregation"], r["engine"]["width"])
            for x in r["xs"]:
                eng.input_variables[0].value = x
                try:
                    eng.process()
                    print(f"  now: x = {x!r} -> y = {float(eng.output_variables[0].value)!r}  [{eng.output_variables[0].fuzzy_value()}]")
                except Exception as ex:  # noqa
                    print(f"  now: x = {x!r} -> {type(ex).__name__}")
            continue
        if "terms" not in r:
            continue
        eng = make_engine(fl)
        for var, val in zip(eng.input_variables, r["inputs"]):
            var.value = val
        terms = [rebuild_term(fl, t, eng) for t in r["terms"]]
        fuzzy = fl.Aggregated("out", 0.0, 1.0, make_agg(fl, r["aggregation"]), [fl.Activated(terms[i], d) for i, d in r["activations"]])
        d = getattr(fl, r["defuzzifier"])(r["type"])
        with np.errstate(all="ignore"):
            try:
                print("  now:", d, "->", d.defuzzify(fuzzy), "  groups:", {k: float(g.degree) for k, g in fuzzy.grouped_terms().items()})
            except Exception as ex:  # noqa
                print("  now:", type(ex).__name__, ex)
    for b in data.get("broken", []):
        print("BROKEN", b["kind"], b["name"], "\n", b["detail"][:1500])
    return 0
