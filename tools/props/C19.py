"""C19 — an engine reported ready can be processed (`Engine.is_ready`, engine.py 431-510; `Engine.process`).

Real engines are built for EVERY cell of
    2^5 subsets of the removable operators {conjunction, disjunction, implication | aggregation, defuzzifier}
  x 4 rule shapes (no connective / `and` only / `or` only / both)
  x 2 defuzzifier kinds (integral: Centroid & co. over Triangle terms / weighted: WeightedAverage & co. over Constant terms)
  x ({1, 2} rule blocks under General activation  +  1 rule block under each of First, Last, Highest, Lowest, Proportional,
     Threshold with parameters that do select the rules of positive degree: n >= 1, thresholds at 0)
(quick: the canonical engine of the cell + one random variant; thorough: more variants), plus engines with random structure
(disabled blocks / variables / rules, unloaded rules, outputs without terms, blocks without rules or activation method,
every activation method, output variables in antecedents, hedges, `any`, parentheses, operators written without blanks,
mixed term types).  Each engine is processed on several finite input rows.

Correspondence: the engine is printed as a `Core.engine unit` literal (trees taken from the LOADED rules, texts from
`antecedent.text.split()`); inside Coq `is_ready` and `process_raises` of coq/Model/Ready.v are evaluated and compared exactly
with the canonicalised message list of `Engine.is_ready(errors)` (kind, index, "needed by N rules" count, in order) and with the
exception class of `Engine.process()` (None when it completes).  For the activation methods other than General the rules on
which `Rule.trigger` was called are recorded and handed to the model (its `trig` parameter).

Direct oracle (the property, on the public API, independent of the model): ready & activation methods & whitespace-separated
rule texts => `process()` does not raise on any row; every operator that the loaded trees / output variables need and that is
None is mentioned by a message of `is_ready`.
"""
from __future__ import annotations

import itertools
import json
import re
import warnings

import numpy as np

import vlib

COQ_TARGETS = ["Proofs/ReadyProofs.vo", "Proofs/ReadyEngineProofs.vo"]  # the deps of Properties/C19.v and Properties/C19b.v

OPS = ["conjunction", "disjunction", "implication", "aggregation", "defuzzifier"]
SHAPES = ["none", "and", "or", "both"]
INTEGRAL = ["Centroid", "Bisector", "MeanOfMaximum", "SmallestOfMaximum", "LargestOfMaximum"]
WEIGHTED = ["WeightedAverage", "WeightedSum"]
ACTIVATIONS = ["General", "First", "Last", "Highest", "Lowest", "Proportional", "Threshold"]
SIG_F9 = "is_ready:missing-disjunction-not-reported"

# term classes used by the generator: class -> constructor arguments after the name (numbers are irrelevant to the model)
TERM_ARGS = {
    "Triangle": ([0.0, 0.5, 1.0], 4), "Rectangle": ([0.2, 0.8], 3), "Trapezoid": ([0.0, 0.3, 0.6, 1.0], 5),
    "Ramp": ([0.0, 1.0], 3), "Sigmoid": ([0.5, 8.0], 3), "SShape": ([0.1, 0.9], 3), "Constant": ([0.7], 1),
    "Gaussian": ([0.5, 0.2], 3),
}  # value: (python args, number of fields of the Coq constructor Sh_<class>)


# =========================================================================== generation (descriptions are plain JSON)
def mk_term(name, cls, shift=0.0):
    args = [a + shift for a in TERM_ARGS[cls][0]] if cls in ("Triangle", "Constant") else list(TERM_ARGS[cls][0])
    return {"name": name, "class": cls, "args": args}


def mk_input(name, rng=None):
    classes = ["Triangle", "Triangle"] if rng is None else [rng.choice(["Triangle", "Ramp", "Trapezoid", "Gaussian", "Rectangle"]) for _ in range(2)]
    ts = [mk_term("lo", classes[0]), mk_term("hi", classes[1])]
    if classes[0] == "Triangle":
        ts[0]["args"] = [-0.5, 0.0, 1.0]
    if classes[1] == "Triangle":
        ts[1]["args"] = [0.0, 1.0, 1.5]
    return {"name": name, "enabled": True, "terms": ts, "clear_terms": False}


def mk_output(name, kind, rng=None):
    if kind == "integral":
        d = ["Centroid", 100] if rng is None else [rng.choice(INTEGRAL), rng.choice([20, 50, 100])]
        cls = ["Triangle", "Triangle"] if rng is None else [rng.choice(["Triangle", "Trapezoid", "Rectangle", "Gaussian", "Ramp"]) for _ in range(2)]
        terms = [mk_term("x", cls[0], -0.2), mk_term("y", cls[1], 0.2)]
    else:
        d = ["WeightedAverage", "Automatic"] if rng is None else [rng.choice(WEIGHTED), rng.choice(["Automatic", "TakagiSugeno"])]
        terms = [mk_term("x", "Constant", -0.3), mk_term("y", "Constant", 0.2)]
    return {"name": name, "enabled": True, "aggregation": "Maximum" if rng is None else rng.choice(["Maximum", "AlgebraicSum", "UnboundedSum"]),
            "defuzzifier": d, "terms": terms, "clear_terms": False}


def prop(rng, var, term=None, hedges=True):
    term = term or rng.choice(["lo", "hi"])
    r = rng.random() if hedges else 1.0
    if r < 0.08:
        return f"{var} is any"
    if r < 0.2:
        return f"{var} is {rng.choice(['not', 'very', 'somewhat'])} {term}"
    return f"{var} is {term}"


def antecedent(rng, shape, ins, nested=False):
    """A whitespace-separated antecedent with exactly the connectives of `shape`."""
    p = lambda: prop(rng, rng.choice(ins)) if rng is not None else None  # noqa: E731
    if rng is None:
        a, b = ins[0], ins[-1]
        return {"none": f"{a} is lo", "and": f"{a} is lo and {b} is hi", "or": f"{a} is lo or {b} is hi",
                "both": f"{a} is lo and {b} is hi or {a} is hi"}[shape]
    if shape == "none":
        return p() if rng.random() < 0.8 else f"( {p()} )"
    if shape in ("and", "or"):
        n = rng.choice([2, 2, 3])
        parts = [p() for _ in range(n)]
        if n == 3 and rng.random() < 0.5:
            return f"{parts[0]} {shape} ( {parts[1]} {shape} {parts[2]} )"
        return f" {shape} ".join(parts)
    forms = ["{0} and {1} or {2}", "{0} or {1} and {2}", "( {0} or {1} ) and {2}", "{0} and ( {1} or {2} )", "{0} or {1} or {2} and {3}",
             "( {0} and {1} ) or ( {2} and {3} )"]
    return rng.choice(forms).format(p(), p(), p(), p())


def consequent(rng, outs):
    if rng is None:
        return f"{outs[0]} is x"
    cs = [f"{o} is {rng.choice(['', '', 'very ', 'not '])}{rng.choice(['x', 'y'])}" for o in outs if rng.random() < 0.7]
    if not cs:
        cs = [f"{rng.choice(outs)} is {rng.choice(['x', 'y'])}"]
    return " and ".join(cs)


def mk_rule(text, enabled=True, loaded=True):
    return {"text": text, "enabled": enabled, "loaded": loaded}


def cell_activation(act, rng=None):
    """An activation method of the cell's class that does select rules of positive degree (n >= 1, thresholds at 0)."""
    n = 1 if rng is None else rng.choice([1, 1, 2, 3])
    return {"General": ["General"], "First": ["First", n, 0.0], "Last": ["Last", n, 0.0], "Highest": ["Highest", n], "Lowest": ["Lowest", n],
            "Proportional": ["Proportional"], "Threshold": ["Threshold", ">" if rng is None else rng.choice([">", ">=", "!="]), 0.0]}[act]


def cell_engine(subset, shape, kind, nblocks, rng=None, act="General"):
    """The engine of a cell.  rng=None: the canonical (minimal) one; otherwise a random variant inside the cell.
    For the activation methods other than General the canonical engine has a second, connective-free rule, so that the
    method has something to choose from."""
    ins = ["a"] if rng is None and shape == "none" and act == "General" else ["a", "b"]
    nouts = 1 if rng is None else rng.choice([1, 1, 2])
    outs = ["o", "p"][:nouts]
    desc = {"name": "c19", "inputs": [mk_input(n, rng) for n in ins], "outputs": [mk_output(n, kind, rng) for n in outs], "blocks": [],
            "wf": True, "ws": True}
    for bi in range(nblocks):
        rules = [mk_rule(f"if {antecedent(rng, shape, ins)} then {consequent(rng, outs)}")]
        if rng is not None:
            for _ in range(rng.choice([0, 1, 2])):
                sub = rng.choice({"none": ["none"], "and": ["none", "and"], "or": ["none", "or"], "both": ["none", "and", "or", "both"]}[shape])
                rules.insert(rng.randrange(len(rules) + 1), mk_rule(f"if {antecedent(rng, sub, ins)} then {consequent(rng, outs)}"))
        if rng is None and act != "General":
            rules.append(mk_rule(f"if {ins[0]} is hi then {outs[0]} is y"))
        desc["blocks"].append({"name": "" if rng is None or rng.random() < 0.5 else f"rb{bi}", "enabled": True, "conjunction": "Minimum",
                               "disjunction": "Maximum", "implication": "Minimum", "activation": cell_activation(act, rng), "rules": rules})
    # remove the operators of the subset: everywhere in the canonical engine, in a random non-empty part otherwise
    blocks = list(range(nblocks))
    for op in subset:
        if op in ("conjunction", "disjunction", "implication"):
            where = blocks if rng is None else rng.sample(blocks, rng.randint(1, nblocks))
            for bi in where:
                desc["blocks"][bi][op] = None
        else:
            where = list(range(nouts)) if rng is None else rng.sample(range(nouts), rng.randint(1, nouts))
            for oi in where:
                desc["outputs"][oi][op] = None
    return desc


def random_engine(rng, thorough):
    """Random structure, in and out of the domain of the property's hypotheses."""
    nin = rng.choice([1, 2, 2])
    nout = rng.choice([1, 1, 2])
    ins = ["a", "b"][:nin]
    outs = ["o", "p"][:nout]
    desc = {"name": "c19r", "inputs": [mk_input(n, rng) for n in ins], "outputs": [], "blocks": [], "wf": True, "ws": True}
    for n in outs:
        o = mk_output(n, rng.choice(["integral", "weighted"]), rng)
        if rng.random() < 0.2:
            o["enabled"] = False
        if rng.random() < 0.15:
            o["aggregation"] = None
        if rng.random() < 0.15:
            o["defuzzifier"] = None
        if rng.random() < 0.08:
            o["clear_terms"] = True  # terms removed AFTER the rules were loaded
        if o["defuzzifier"] and o["defuzzifier"][0] in WEIGHTED and rng.random() < 0.1:
            # mixed term types under an Automatic weighted defuzzifier: infer_type raises TypeError (outside wf_terms)
            o["terms"][1] = mk_term("y", "Triangle")
            o["defuzzifier"][1] = "Automatic"
            desc["wf"] = False
        if o["defuzzifier"] and o["defuzzifier"][0] in WEIGHTED and rng.random() < 0.08:
            if rng.random() < 0.5:
                o["terms"] = [mk_term("x", "Ramp"), mk_term("y", "Sigmoid")]  # Tsukamoto terms, inferred or declared
                o["defuzzifier"][1] = rng.choice(["Automatic", "Tsukamoto"])
            else:
                o["defuzzifier"][1] = "Tsukamoto"  # Term.tsukamoto of a Constant raises RuntimeError (outside wf_terms)
                desc["wf"] = False
        desc["outputs"].append(o)
    for i in desc["inputs"]:
        if rng.random() < 0.15:
            i["enabled"] = False
        if rng.random() < 0.04:
            # terms removed AFTER the rules were loaded: is_ready deliberately does not look at input variables (outside wf_terms)
            i["clear_terms"] = True
            desc["wf"] = False
    nblocks = rng.choice([0, 1, 1, 2, 2, 3]) if rng.random() < 0.3 else rng.choice([1, 2])
    for bi in range(nblocks):
        rules = []
        for _ in range(rng.choice([0, 1, 2, 2, 3]) if rng.random() < 0.3 else rng.choice([1, 2, 3])):
            shape = rng.choice(SHAPES)
            ante_vars = ins + ([rng.choice(outs)] if rng.random() < 0.15 else [])
            ante = antecedent(rng, shape, ante_vars)
            ante = re.sub(r"\b([op]) is (not |very |somewhat )?(lo|hi)", lambda m: f"{m.group(1)} is {m.group(2) or ''}{rng.choice(['x', 'y'])}", ante)
            text = f"if {ante} then {consequent(rng, outs)}"
            if rng.random() < 0.1 and shape != "none":
                # operators glued to parentheses: the loaded tree has the connective, the text test of is_ready misses it
                glued = re.sub(r"\(\s+", "(", re.sub(r"\s+\)", ")", text))
                glued = re.sub(r"\)\s+(and|or)\s+\(", r")\1(", glued)
                glued = re.sub(r"\s(and|or)\s+\(", r" \1(", glued)
                glued = re.sub(r"\)\s+(and|or)\s", r")\1 ", glued)
                if glued != text:
                    text = glued
                    desc["ws"] = False
            rules.append(mk_rule(text, enabled=rng.random() > 0.15, loaded=rng.random() > 0.12))
        act = rng.choice(ACTIVATIONS) if (thorough or rng.random() < 0.5) and rng.random() < 0.45 else "General"
        a = {"General": ["General"], "First": ["First", rng.choice([1, 2]), rng.choice([0.0, 0.3])],
             "Last": ["Last", rng.choice([1, 2]), rng.choice([0.0, 0.3])], "Highest": ["Highest", rng.choice([1, 2])],
             "Lowest": ["Lowest", rng.choice([1, 2])], "Proportional": ["Proportional"],
             "Threshold": ["Threshold", rng.choice([">", ">=", "<", "!="]), rng.choice([0.0, 0.25, 0.5])]}[act]
        if rng.random() < 0.08:
            a = None
        desc["blocks"].append({"name": "" if rng.random() < 0.5 else f"rb{bi}", "enabled": rng.random() > 0.15,
                               "conjunction": None if rng.random() < 0.3 else rng.choice(["Minimum", "AlgebraicProduct"]),
                               "disjunction": None if rng.random() < 0.35 else rng.choice(["Maximum", "AlgebraicSum"]),
                               "implication": None if rng.random() < 0.3 else rng.choice(["Minimum", "AlgebraicProduct"]),
                               "activation": a, "rules": rules})
    if rng.random() < 0.04:
        # an engine whose rules never loaded against it: no output variables at all / no input variables
        if rng.random() < 0.5:
            desc["outputs"] = []
        else:
            desc["inputs"] = []
        for b in desc["blocks"]:
            for r in b["rules"]:
                r["loaded"] = False
    return desc


# =========================================================================== building the real engine
def build_engine(fl, desc):
    def term(t):
        return getattr(fl, t["class"])(t["name"], *t["args"])

    def defuzz(d):
        if d is None:
            return None
        if d[0] in INTEGRAL:
            return getattr(fl, d[0])(d[1])
        return getattr(fl, d[0])(d[1])

    def activation(a):
        if a is None:
            return None
        return getattr(fl, a[0])(*a[1:])

    eng = fl.Engine(name=desc["name"])
    for v in desc["inputs"]:
        eng.input_variables.append(fl.InputVariable(v["name"], minimum=-0.5, maximum=1.5, terms=[term(t) for t in v["terms"]]))
    for v in desc["outputs"]:
        eng.output_variables.append(fl.OutputVariable(v["name"], minimum=-0.5, maximum=1.5, terms=[term(t) for t in v["terms"]],
                                                      aggregation=getattr(fl, v["aggregation"])() if v["aggregation"] else None,
                                                      defuzzifier=defuzz(v["defuzzifier"])))
    for b in desc["blocks"]:
        rb = fl.RuleBlock(name=b["name"], conjunction=getattr(fl, b["conjunction"])() if b["conjunction"] else None,
                          disjunction=getattr(fl, b["disjunction"])() if b["disjunction"] else None,
                          implication=getattr(fl, b["implication"])() if b["implication"] else None,
                          activation=activation(b["activation"]))
        for r in b["rules"]:
            rule = fl.Rule.create(r["text"], eng if r["loaded"] else None)  # every operator is optional at load time
            rule.enabled = r["enabled"]
            rb.rules.append(rule)
        rb.enabled = b["enabled"]
        eng.rule_blocks.append(rb)
    # what may change after the rules were loaded
    for v, d in zip(eng.input_variables, desc["inputs"]):
        v.enabled = d["enabled"]
        if d.get("clear_terms"):
            v.terms = []
    for v, d in zip(eng.output_variables, desc["outputs"]):
        v.enabled = d["enabled"]
        if d["clear_terms"]:
            v.terms = []
    return eng


# =========================================================================== observing the implementation
RX = [
    (re.compile(r"Engine '.*' does not have any input variables"), lambda m, n: "MNoInputs"),
    (re.compile(r"Engine '.*' does not have any output variables"), lambda m, n: "MNoOutputs"),
    (re.compile(r"Engine '.*' does not have any rule blocks"), lambda m, n: "MNoBlocks"),
    (re.compile(r"Output variable '(\w+)' does not have any terms"), lambda m, n: f"(MOutNoTerms {n.out(m.group(1))})"),
    (re.compile(r"Output variable '(\w+)' does not have any defuzzifier"), lambda m, n: f"(MMissing OpDefuzzifier {n.out(m.group(1))} 0)"),
    (re.compile(r"Output variable '(\w+)' does not have any aggregation operator"), lambda m, n: f"(MMissing OpAggregation {n.out(m.group(1))} 0)"),
    (re.compile(r"Rule block ('\w+'|\[\d+\]) does not have any rules"), lambda m, n: f"(MBlockNoRules {n.block(m.group(1))})"),
    (re.compile(r"Rule block ('\w+'|\[\d+\]) does not have any (conjunction|disjunction|implication) operator and is needed by (\d+) rules?"),
     lambda m, n: f"(MMissing Op{m.group(2).capitalize()} {n.block(m.group(1))} {int(m.group(3))})"),
]


class Names:
    def __init__(self, eng):
        self.outs = [v.name for v in eng.output_variables]
        self.blocks = [b.name for b in eng.rule_blocks]

    def out(self, name):
        assert self.outs.count(name) == 1, name
        return self.outs.index(name)

    def block(self, s):
        if s.startswith("["):
            return int(s[1:-1])
        assert self.blocks.count(s[1:-1]) == 1, s
        return self.blocks.index(s[1:-1])


def canon_messages(eng, errors):
    n = Names(eng)
    out = []
    for e in errors:
        for rx, f in RX:
            m = rx.fullmatch(e)
            if m:
                out.append(f(m, n))
                break
        else:
            raise ValueError(f"unrecognised is_ready message: {e!r}")
    return out


ERR = {ValueError: "EValue", RuntimeError: "ERuntime", TypeError: "EInternal", AttributeError: "EInternal", IndexError: "EInternal",
       KeyError: "ELookup", SyntaxError: "ESyntax"}


class Triggers:
    """Records the rules on which Rule.trigger is called during one process()."""

    def __init__(self, fl):
        self.fl = fl
        self.calls = []

    def __enter__(self):
        self.orig = self.fl.Rule.trigger
        rec, orig = self.calls, self.orig

        def trigger(rule, implication):
            rec.append(rule)
            return orig(rule, implication)

        self.fl.Rule.trigger = trigger
        return self

    def __exit__(self, *a):
        self.fl.Rule.trigger = self.orig


def process_row(fl, eng, row):
    """-> (outcome, exception text, [per block: rule indices in trigger order])"""
    for v, x in zip(eng.input_variables, row):
        v.value = x
    with Triggers(fl) as t, warnings.catch_warnings(), np.errstate(all="ignore"):
        warnings.simplefilter("ignore")
        try:
            eng.process()
            out, text = "None", ""
        except Exception as ex:  # noqa: BLE001
            out = f"(Some {ERR[type(ex)]})" if type(ex) in ERR else f"OTHER:{type(ex).__name__}"
            text = f"{type(ex).__name__}: {ex}"
    trig = []
    for b in eng.rule_blocks:
        ids = [id(r) for r in b.rules]
        trig.append([ids.index(id(r)) for r in t.calls if id(r) in ids])
    return out, text, trig


# =========================================================================== Coq literals (Core.v types over unit)
def q(s):
    return vlib.coq_string(s)


def b2(x):
    return "true" if x else "false"


def lit_term(t):
    cls = type(t).__name__
    if cls == "Linear":
        return f"(TLinear {q(t.name)} {vlib.coq_list('tt' for _ in t.coefficients)})"
    if cls == "Function":
        return f"(TFunction {q(t.name)} None [])"
    if cls == "Discrete":
        return f"(TDiscrete {q(t.name)} [] tt)"
    n = TERM_ARGS[cls][1]
    return f"(TShape {q(t.name)} (Sh_{cls} {' '.join(['tt'] * n)}))"


def lit_expr(eng, node):
    from fuzzylite.rule import Operator, Proposition

    if isinstance(node, Proposition):
        v = node.variable
        ins = [i for i, x in enumerate(eng.input_variables) if x is v]
        outs = [i for i, x in enumerate(eng.output_variables) if x is v]
        ref = f"(VIn {ins[0]})" if ins else f"(VOut {outs[0]})"
        hs = vlib.coq_list(f"(HG H_{type(h).__name__})" for h in node.hedges)
        if node.term is None:
            ti = "None"
        else:
            # a term removed from the variable after loading keeps its old position (dangling index in the model)
            ks = [i for i, t in enumerate(v.terms) if t is node.term]
            ti = f"(Some {ks[0] if ks else 99})"
        return f"(EProp {ref} {hs} {ti})"
    assert isinstance(node, Operator), node
    return f"(EOp {b2(node.name == 'and')} {lit_expr(eng, node.left)} {lit_expr(eng, node.right)})"


def lit_rule(eng, rule, term_index):
    ante = "None" if rule.antecedent.expression is None else f"(Some {lit_expr(eng, rule.antecedent.expression)})"
    cons = []
    for c in rule.consequent.conclusions:
        vi = [i for i, x in enumerate(eng.output_variables) if x is c.variable][0]
        cons.append(f"(Build_conclusion {vi} {vlib.coq_list(f'(HG H_{type(h).__name__})' for h in c.hedges)} {term_index[id(c.term)]})")
    return f"(Build_rule {b2(rule.enabled)} tt {ante} {vlib.coq_list(cons)} tt false)"


def lit_activation(a):
    if a is None:
        return "None"
    k = type(a).__name__
    if k in ("General", "Proportional"):
        return f"(Some A{k})"
    if k in ("First", "Last"):
        return f"(Some (A{k} {int(a.rules)}%Z tt))"
    if k in ("Highest", "Lowest"):
        return f"(Some (A{k} {int(a.rules)}%Z))"
    assert k == "Threshold"
    cmp = {"<": "CmpLt", "<=": "CmpLe", "==": "CmpEq", "!=": "CmpNe", ">=": "CmpGe", ">": "CmpGt"}[a.comparator.value]
    return f"(Some (AThreshold {cmp} tt))"


def lit_defuzzifier(d):
    if d is None:
        return "None"
    k = type(d).__name__
    if k in INTEGRAL:
        return f"(Some (DIntegral {k} {int(d.resolution)}))"
    return f"(Some (DWeighted {b2(k == 'WeightedAverage')} W{d.type.name}))"


def lit_engine(eng, term_index):
    ins = [f"(Build_input_var {q(v.name)} {b2(v.enabled)} tt tt {b2(v.lock_range)} {vlib.coq_list(lit_term(t) for t in v.terms)} tt)"
           for v in eng.input_variables]
    outs = [f"(Build_output_var {q(v.name)} {b2(v.enabled)} tt tt {b2(v.lock_range)} {b2(v.lock_previous)} tt "
            f"{'(Some (SN S_Maximum))' if v.aggregation else 'None'} {lit_defuzzifier(v.defuzzifier)} "
            f"{vlib.coq_list(lit_term(t) for t in v.terms)} tt tt [])" for v in eng.output_variables]
    blocks = [f"(Build_block {q(b.name)} {b2(b.enabled)} {'(Some (TN T_Minimum))' if b.conjunction else 'None'} "
              f"{'(Some (SN S_Maximum))' if b.disjunction else 'None'} {'(Some (TN T_Minimum))' if b.implication else 'None'} "
              f"{lit_activation(b.activation)} {vlib.coq_list(lit_rule(eng, r, term_index) for r in b.rules)})" for b in eng.rule_blocks]
    return f"(@Build_engine unit {q(eng.name)} {vlib.coq_list(ins)} {vlib.coq_list(outs)} {vlib.coq_list(blocks)})"


def lit_case(eng, term_index, trig, msgs, outcome):
    texts = vlib.coq_list(vlib.coq_list(vlib.coq_list(q(t) for t in r.antecedent.text.split()) for r in b.rules) for b in eng.rule_blocks)
    tg = vlib.coq_list(vlib.coq_list(str(k) for k in ks) for ks in trig)
    return f"({lit_engine(eng, term_index)}, {texts}, {tg}, {vlib.coq_list(msgs)}, {outcome})"


CASE_TYPE = "engine unit * list (list (list string)) * list (list nat) * list msg * option err"
IMPORTS = "From VF Require Import GenNorm GenHedge GenTerm Core Ready."
# the numeric term layer of the generated engines never raises, except Term.tsukamoto on a term that is not monotonic
TERM_ERR = "(fun (t : term unit) (ts : bool) => if ts && negb (wtype_eqb (ready_term_wtype t) WTsukamoto) then Some ERuntime else None)"
CHECKER = (f"fun c => let '(e, tx, tg, ms, out) := c in msgs_eqb (is_ready e (texts_of tx)) ms && "
           f"opt_err_eqb (process_raises {TERM_ERR} (fun i => nth i tg []) e) out")


def explain_cases(work, lits):
    """What the model computes for these cases (for the report of a mismatch)."""
    import os
    import subprocess

    fn = os.path.join(work, "explain.v")
    with open(fn, "w") as f:
        f.write(vlib.CASE_HEADER.format(imports=IMPORTS))
        for lit in lits:
            f.write(f"Eval vm_compute in (let '(e, tx, tg, ms, out) := ({lit} : {CASE_TYPE}) in "
                    f"(is_ready e (texts_of tx), process_raises {TERM_ERR} (fun i => nth i tg []) e)).\n")
    p = subprocess.run(["coqc", "-R", vlib.COQ, "VF", "-w", "-notation-overridden", fn], cwd=work, capture_output=True, text=True, timeout=300)
    return (p.stdout + p.stderr)[-3000:]


# =========================================================================== the direct oracle (independent of the model)
def tree_ops(node, acc):
    from fuzzylite.rule import Operator

    if isinstance(node, Operator):
        acc.add(node.name)
        tree_ops(node.left, acc)
        tree_ops(node.right, acc)
    return acc


def is_ws(text):
    """Connectives and parentheses are blank-separated tokens of the rule text."""
    return all(tok in ("(", ")") or ("(" not in tok and ")" not in tok) for tok in text.split())


def oracle(fl, eng, ready, errors, outcomes, desc):
    """-> list of (signature, what).  `outcomes`: [(row, outcome, exception text)]."""
    found = []
    # (a) every needed-but-missing operator is reported
    for bi, b in enumerate(eng.rule_blocks):
        label = f"'{b.name}'" if b.name else f"[{bi}]"
        mine = [e for e in errors if e.startswith(f"Rule block {label} ")]
        need = {"conjunction": 0, "disjunction": 0, "implication": 0}
        for r in b.rules:
            if not r.is_loaded() or not is_ws(r.antecedent.text):
                continue
            ops = tree_ops(r.antecedent.expression, set())
            need["conjunction"] += "and" in ops
            need["disjunction"] += "or" in ops
            need["implication"] += any(isinstance(c.variable.defuzzifier, fl.IntegralDefuzzifier) for c in r.consequent.conclusions)
        for op, n in need.items():
            if n and getattr(b, op) is None and not any(f"any {op} operator" in e for e in mine):
                found.append((f"is_ready:missing-{op}-not-reported",
                              f"rule block {label}: {n} loaded rule(s) need the {op} operator, it is None, and is_ready reports {errors!r}"))
    for v in eng.output_variables:
        mine = [e for e in errors if e.startswith(f"Output variable '{v.name}' ")]
        if v.defuzzifier is None and not any("any defuzzifier" in e for e in mine):
            found.append(("is_ready:missing-defuzzifier-not-reported", f"output variable {v.name} has no defuzzifier; is_ready reports {errors!r}"))
        if isinstance(v.defuzzifier, fl.IntegralDefuzzifier) and v.aggregation is None and not any("any aggregation operator" in e for e in mine):
            found.append(("is_ready:missing-aggregation-not-reported", f"output variable {v.name} has an integral defuzzifier and no aggregation operator; is_ready reports {errors!r}"))
    # (b) ready => process completes, under the hypotheses of the property
    hyp = (ready and all(b.activation is not None for b in eng.rule_blocks if b.enabled)
           and all(is_ws(r.antecedent.text) for b in eng.rule_blocks for r in b.rules) and desc["wf"])
    if hyp:
        for row, out, text in outcomes:
            if out != "None":
                sig = SIG_F9 if "disjunction" in text else "process:ready-but-raises"
                found.append((sig, f"is_ready() is True but process() with inputs {row} raises {text[:160]}"))
                break
    return found


# =========================================================================== the run
def rows_for(rng, nin, n):
    base = [[0.25] * nin, [0.0] * nin, [1.0] * nin, [0.5, 0.75][:nin] if nin <= 2 else [0.5] * nin]
    rows = base[: max(1, min(n, 2))]
    while len(rows) < n:
        rows.append([rng.choice([rng.uniform(-0.6, 1.6), rng.choice([0.0, 0.5, 1.0, -0.5, 1.5, 1e-300, -3.0e7])]) for _ in range(nin)])
    return rows


def size_of(desc):
    return (len(desc["blocks"]), sum(len(b["rules"]) for b in desc["blocks"]), len(desc["outputs"]), len(desc["inputs"]),
            sum(len(r["text"]) for b in desc["blocks"] for r in b["rules"]))


def run(ctx, build, verdict, ev):
    import fuzzylite as fl

    rng = ctx.rng
    thorough = ctx.tier == "thorough"
    n_variants = ctx.n(1, 6)
    n_random = ctx.n(500, 14000)
    n_rows = ctx.n(3, 6)

    engines = []  # (class label, desc)
    for subset_bits in itertools.product([0, 1], repeat=5):
        subset = [op for op, bit in zip(OPS, subset_bits) if bit]
        for shape in SHAPES:
            for kind in ("integral", "weighted"):
                for nblocks in (1, 2):
                    cell = f"{''.join(map(str, subset_bits))}/{shape}/{kind}/{nblocks}"
                    engines.append((cell, "canonical", cell_engine(subset, shape, kind, nblocks)))
                    for _ in range(n_variants):
                        engines.append((cell, "variant", cell_engine(subset, shape, kind, nblocks, rng)))
    # the same operator subsets x rule shapes x defuzzifier kinds under each of the other six activation methods (one block)
    n_act_variants = ctx.n(0, 2)
    for act in ACTIVATIONS[1:]:
        for subset_bits in itertools.product([0, 1], repeat=5):
            subset = [op for op, bit in zip(OPS, subset_bits) if bit]
            for shape in SHAPES:
                for kind in ("integral", "weighted"):
                    cell = f"{''.join(map(str, subset_bits))}/{shape}/{kind}/1/{act}"
                    engines.append((cell, "canonical-activation", cell_engine(subset, shape, kind, 1, None, act)))
                    for _ in range(n_act_variants):
                        engines.append((cell, "variant-activation", cell_engine(subset, shape, kind, 1, rng, act)))
    cells = {c for c, _, _ in engines}
    for _ in range(n_random):
        engines.append(("random", "random", random_engine(rng, thorough)))

    lits, meta = [], []
    dist = {"ready": 0, "not_ready": 0, "raises": 0, "completes": 0, "ready_and_raises": 0, "non_general_cases": 0,
            "outside_ws": 0, "outside_wf": 0}
    by_kind = {}
    act_cells = {"total": 0, "selected": 0, "raised_in_activation": 0}
    msg_kinds = {}
    outcome_kinds = {}
    signatures = set()
    pending_violations = []
    evaluations = 0
    row_dependent = 0
    samples = []
    for cell, origin, desc in engines:
        eng = build_engine(fl, desc)
        term_index = {}
        errors: list[str] = []
        # the term positions are taken before any clearing: conclusions refer to positions of the ORIGINAL term list
        for v in eng.output_variables:
            for k, t in enumerate(v.terms):
                term_index[id(t)] = k
        for b in eng.rule_blocks:
            for r in b.rules:
                for c in r.consequent.conclusions:
                    term_index.setdefault(id(c.term), 99)
        ready = eng.is_ready(errors)
        msgs = canon_messages(eng, errors)
        rows = rows_for(rng, len(eng.input_variables), n_rows)
        outcomes = []
        general = all(b.activation is None or type(b.activation).__name__ == "General" for b in eng.rule_blocks)
        per_row = []
        for row in rows:
            out, text, trig = process_row(fl, eng, row)
            outcomes.append((row, out, text))
            per_row.append((out, trig))
            evaluations += 1
        if origin == "canonical-activation":
            # row 0 gives every rule of the canonical engine a positive degree: unless the activation phase itself raised,
            # the method must have triggered a rule (otherwise the cell would not exercise what it is there for)
            o0, t0 = per_row[0]
            in_activation = re.match(r"ValueError: expected a (conjunction|disjunction) operator", outcomes[0][2]) is not None
            act_cells["total"] += 1
            if not in_activation:
                act_cells["selected"] += bool(t0[0])
                if not t0[0]:
                    verdict.add_broken("harness", "activation-cell-selects-nothing", f"cell {cell}: no rule was triggered on row {rows[0]}: {json.dumps(desc)}")
            else:
                act_cells["raised_in_activation"] += 1
        if general:
            if len({o for o, _ in per_row}) != 1:
                row_dependent += 1
                verdict.add_broken("correspondence", "process-outcome-depends-on-row",
                                   f"General activation, outcomes {[(r, o) for r, o, _ in outcomes]} for {json.dumps(desc)}")
            case_rows = [0]
        else:
            seen, case_rows = set(), []
            for k, (o, tg) in enumerate(per_row):
                key = (o, json.dumps(tg))
                if key not in seen:
                    seen.add(key)
                    case_rows.append(k)
            dist["non_general_cases"] += len(case_rows)
        for k in case_rows:
            out, trig = per_row[k]
            if out.startswith("OTHER"):
                verdict.add_broken("correspondence", "unexpected-exception-class", f"{outcomes[k][2]} for {json.dumps(desc)}")
                continue
            lits.append(lit_case(eng, term_index, trig, msgs, out))
            meta.append((cell, desc, rows[k], errors, out, outcomes[k][2]))
        # ---- statistics
        raised = any(o != "None" for _, o, _ in outcomes)
        dist["ready" if ready else "not_ready"] += 1
        dist["raises" if raised else "completes"] += 1
        dist["ready_and_raises"] += ready and raised
        dist["outside_ws"] += not desc["ws"]
        dist["outside_wf"] += not desc["wf"]
        by_kind[origin] = by_kind.get(origin, 0) + 1
        for _, o, _ in outcomes:
            outcome_kinds[o] = outcome_kinds.get(o, 0) + 1
        for m in msgs:
            kind = " ".join(m.strip("()").split()[:2]) if m.startswith("(MMissing") else m.strip("()").split()[0]
            msg_kinds[kind] = msg_kinds.get(kind, 0) + 1
        signatures.add((tuple(re.sub(r"\d+", "#", m) for m in msgs), tuple(sorted({o for _, o, _ in outcomes}))))
        if origin == "canonical" and cell in ("01000/or/integral/1", "11000/or/weighted/1", "11111/both/integral/2", "00000/both/integral/1", "00100/none/weighted/1"):
            samples.append({"cell": cell, "rules": [r["text"] for b in desc["blocks"] for r in b["rules"]], "is_ready": errors,
                            "process": outcomes[0][1] + " " + outcomes[0][2]})
        # ---- direct oracle
        for sig, what in oracle(fl, eng, ready, errors, outcomes, desc):
            pending_violations.append((size_of(desc), sig, what, desc, cell, outcomes))

    # ---- the model, inside Coq
    mismatches = []
    if build.translation_errors:
        verdict.add_broken("correspondence", "ready-model", "Gen is unusable: the model was not evaluated")
    else:
        bad, log = vlib.run_coq_cases(ctx.work, "ready", IMPORTS, [(CASE_TYPE, CHECKER, lits)], chunk=250)
        if -1 in bad:
            verdict.add_broken("correspondence", "ready-model", "coqc failed on the generated cases:\n" + log)
        mismatches = [k for k in bad if k >= 0]
        if mismatches:
            detail = explain_cases(ctx.work, [lits[k] for k in mismatches[:3]])
            for k in mismatches[:5]:
                cell, desc, row, errors, out, text = meta[k]
                verdict.add_broken("correspondence", "ready-model",
                                   f"cell {cell}: implementation is_ready={errors!r} process({row})={out} {text}\nengine: {json.dumps(desc)}\nmodel:\n{detail}")

    # ---- violations, smallest engine first
    pending_violations.sort(key=lambda v: (v[1] != SIG_F9, v[0]))
    for size, sig, what, desc, cell, outcomes in pending_violations[:40]:
        eng = build_engine(fl, desc)
        row = next((r for r, o, _ in outcomes if o != "None"), outcomes[0][0])
        verdict.add_violation(sig, f"{what}  [cell {cell}; rules {[r['text'] for b in desc['blocks'] for r in b['rules']]}]",
                              {"desc": desc, "row": row, "fll": fl.FllExporter().to_string(eng), "cell": cell, "signature": sig})

    c = ev["coverage"]
    c["evaluations"] = evaluations
    c["engines"] = len(engines)
    c["coq_cases"] = len(lits)
    c["cells_covered"] = (f"{len(cells)} of {32 * 4 * 2 * 2 + 6 * 32 * 4 * 2}: 2^5 operator subsets x 4 rule shapes x 2 defuzzifier kinds x ({{1,2}} blocks under "
                          "General + 1 block under each of First, Last, Highest, Lowest, Proportional, Threshold), each with its canonical engine")
    c["distinct_nontrivial"] = len(signatures)
    c["rule"] = ("every cell of 2^5 operator subsets x 4 rule shapes x integral/weighted x (1-2 blocks under General, 1 block under each of "
                 "the six other activation methods, with parameters that select rules of positive degree) gets its canonical engine and "
                 f"{n_variants} (General) / {n_act_variants} (others) random variant(s); {n_random} engines with random structure; each engine is processed on {n_rows} finite rows. "
                 "distinct_nontrivial = number of distinct (is_ready message-kind sequence with indices/counts masked, set of process outcomes) pairs observed")
    c["distribution"] = {**dist, "by_origin": by_kind, "message_kinds": msg_kinds, "process_outcomes": outcome_kinds, "activation_cells": act_cells, "outcome_depends_on_row": row_dependent}
    c["correspondence_mismatches"] = len(mismatches) + row_dependent
    c["oracle_violations"] = len(pending_violations)
    c["oracle_violation_signatures"] = sorted({v[1] for v in pending_violations})
    c["samples"] = samples
    ev["assumptions"] += [
        "antecedent.text is ' '.join(tokens) (what Rule.parse stores); the model's textual test works on text.split()",
        "the numeric layers (term membership/tsukamoto, norms, hedges, defuzzifier arithmetic, the lock-previous/default cascade after the "
        "defuzzifier returns) are abstracted: they enter the model as the parameter term_err, instantiated for the generated engines by "
        "'only Term.tsukamoto of a non-monotonic term raises'; their own models are the subject of C03, C09-C12",
        "for activation methods other than General the set/order of triggered rules is taken from the implementation (parameter trig); the "
        "theorems quantify over every trig",
        "rule trees and variable references are read from the loaded Python objects (by identity) into the positional model of Core.v",
    ]


# =========================================================================== replay
def replay(ctx, data):
    import fuzzylite as fl

    rc = 0
    for v in data.get("violations", []):
        r = v["replay"]
        print(f"--- {v['signature']}: {v['what']}")
        print(r["fll"])
        eng = build_engine(fl, r["desc"])
        errors: list[str] = []
        ready = eng.is_ready(errors)
        out, text, _ = process_row(fl, eng, r["row"])
        print(f"is_ready() = {ready}, errors = {errors}")
        print(f"process() with inputs {r['row']}: {'completes' if out == 'None' else 'raises ' + text}")
        outcomes = [(r["row"], out, text)]
        again = oracle(fl, eng, ready, errors, outcomes, r["desc"])
        print("oracle:", again if again else "no violation on replay")
        if again:
            rc = 1
    for b in data.get("broken", []):
        print(f"--- broken {b['kind']} {b['name']}:\n{b['detail']}")
        rc = 1
    return rc
