"""C20 — temporary settings are always restored (`Settings.context`, library.py; `Op.str`, `Op.is_close`).

Programs over the process-wide `fl.settings` singleton (contexts nested to depth 4 over subsets of the seven
settings, a raise at every position or none, direct assignments inside, exceptions caught half-way, lazy creation
of the factory manager) are run on the real object and through `run` of coq/Model/Settings.v inside Coq; the
canonical observations (vars(fl.settings), Op.str(1/3), Op.is_close(1.0, 1.0005) before / inside / after, the final
record, whether the exception escaped) are compared exactly.  The direct oracle states the property itself on
the raw Python objects at every context of every program.  The global settings are put back afterwards.
"""
from __future__ import annotations

import itertools
import logging

import numpy as np

import vlib

COQ_TARGETS = ["Proofs/SettingsProofs.vo"]

KEYS = ["float_type", "decimals", "atol", "rtol", "alias", "logger", "factory_manager"]
SLOT = {k: ("_factory_manager" if k == "factory_manager" else k) for k in KEYS}
COQ_KEY = {"float_type": "KFloatType", "decimals": "KDecimals", "atol": "KAtol", "rtol": "KRtol", "alias": "KAlias",
           "logger": "KLogger", "factory_manager": "KFactory"}
DEFAULT = {"float_type": 64, "decimals": 3, "atol": 10, "rtol": 0, "alias": 0, "logger": 0, "factory_manager": None}
POOL = {  # non-default tokens handed out to contexts and assignments
    "float_type": [32, 16, 128, 1],
    "decimals": [0, 1, 2, 4, 5, 6, 7, 8, 9, 10, 11, 12, 13, 14, 15, 16],
    "atol": [0, 1, 2, 3, 4, 5, 6, 7, 8, 9, 11, 12],
    "rtol": [1, 2, 3, 4, 5, 6, 7, 8, 9],
    "alias": list(range(1, 13)),
    "logger": list(range(1, 13)),
    "factory_manager": list(range(1, 13)),
}
UNKNOWN = -999999  # canonical token of an object the harness never handed out: never equal to a model token
X_STR = 1 / 3
A_CLOSE, B_CLOSE = 1.0, 1.0005


class Boom(Exception):
    """an ordinary exception raised by the `raise` statement of a program"""


class BaseBoom(BaseException):
    """a custom exception outside the `Exception` hierarchy (like KeyboardInterrupt)"""


# the kinds of exception a program's `raise` uses; the model has one `Raise` (the context must treat them alike)
EXC_KINDS = {"Exception": Boom, "BaseException": BaseBoom, "KeyboardInterrupt": KeyboardInterrupt,
             "SystemExit": SystemExit, "GeneratorExit": GeneratorExit}
EXC_NAMES = list(EXC_KINDS)


# --------------------------------------------------------------------------- tokens <-> Python objects
class World:
    def __init__(self, fl):
        self.fl = fl
        self.S = fl.settings
        self.float_types = {64: np.float64, 32: np.float32, 16: np.float16, 128: np.longdouble, 1: float}
        self.float_tok = {id(v): k for k, v in self.float_types.items()}
        self.tol_tok = {n * 1e-4: n for n in range(0, 41)}
        assert 10 * 1e-4 == 1e-3
        self.loggers = {0: logging.getLogger("fuzzylite")}
        for n in POOL["logger"]:
            self.loggers[n] = logging.getLogger(f"c20.{n}")
        self.logger_tok = {id(v): k for k, v in self.loggers.items()}
        self.fms = {n: fl.FactoryManager() for n in POOL["factory_manager"]}
        self.fm_tok = {id(v): k for k, v in self.fms.items()}
        self.lazy: dict[int, int] = {}  # id -> token of the factory managers created lazily by the current program
        self.keep: list = []
        self.trace: list = []
        self.problems: list = []  # oracle findings of the current program: (signature, what)
        self.thrown: list = []  # the exception instances raised by the current program
        self.unknown = 0

    def ours(self, e):
        return any(e is x for x in self.thrown)

    def obj(self, key, tok):
        if tok is None:
            return None
        if key == "float_type":
            return self.float_types[tok]
        if key == "decimals":
            return int(tok)
        if key in ("atol", "rtol"):
            return tok * 1e-4
        if key == "alias":
            return "fl" if tok == 0 else f"al{tok}"
        if key == "logger":
            return self.loggers[tok]
        return self.fms[tok]

    def tok(self, key, o):
        t = UNKNOWN
        if o is None:
            return None
        if key == "float_type":
            t = self.float_tok.get(id(o), UNKNOWN)
        elif key == "decimals":
            t = o if type(o) is int else UNKNOWN
        elif key in ("atol", "rtol"):
            t = self.tol_tok.get(o, UNKNOWN) if type(o) is float else UNKNOWN
        elif key == "alias":
            if o == "fl":
                t = 0
            elif type(o) is str and o.startswith("al") and o[2:].isdigit():
                t = int(o[2:])
        elif key == "logger":
            t = self.logger_tok.get(id(o), UNKNOWN)
        else:
            t = self.fm_tok.get(id(o), self.lazy.get(id(o), UNKNOWN))
        if t == UNKNOWN:
            self.unknown += 1
        return t

    def reset(self, initial):
        d = vars(self.S)
        d.clear()
        for k in KEYS:
            d[SLOT[k]] = self.obj(k, initial[k])
        self.lazy = {}
        self.keep = []
        self.trace = []
        self.problems = []
        self.thrown = []

    def helpers(self):
        try:
            s = self.fl.Op.str(X_STR)
        except Exception:
            s = None
        try:
            c = bool(self.fl.Op.is_close(A_CLOSE, B_CLOSE))
        except Exception:
            c = None
        return s, c

    def observe(self):
        d = vars(self.S)
        if set(d) != set(SLOT.values()):
            self.problems.append(("settings:keys", f"vars(settings) has keys {sorted(d)}"))
        vs = tuple(self.tok(k, d.get(SLOT[k])) for k in KEYS)
        s, c = self.helpers()
        return (vs, s, c)


def expected_helpers(decimals, atol, rtol):
    """What the helpers must return when they read these values — computed without fl.settings."""
    try:
        s = format(X_STR, f".{decimals}f")
    except Exception:
        s = None
    try:
        c = bool(np.isclose(A_CLOSE, B_CLOSE, atol=atol, rtol=rtol, equal_nan=True))
    except Exception:
        c = None
    return s, c


def same(a, b):
    return a is b or (type(a) is type(b) and type(a) in (int, float, str) and a == b)


# --------------------------------------------------------------------------- running a program on the implementation
def execute(p, W, path="p"):
    S = W.S
    kind = p[0]
    if kind == "skip":
        return
    if kind == "assign":
        setattr(S, p[1], W.obj(p[1], p[2]))
        return
    if kind == "readfm":
        fm = S.factory_manager
        if id(fm) not in W.fm_tok and id(fm) not in W.lazy:
            W.lazy[id(fm)] = p[1]
            W.keep.append(fm)
        return
    if kind == "observe":
        W.trace.append(W.observe())
        return
    if kind == "raise":
        e = EXC_KINDS[p[1] if len(p) > 1 else "Exception"]("c20")
        W.thrown.append(e)
        raise e
    if kind == "seq":
        execute(p[1], W, path + ".0")
        execute(p[2], W, path + ".1")
        return
    if kind == "catch":
        try:
            execute(p[1], W, path + ".c")
        except BaseException as e:
            if not W.ours(e):
                raise
        return
    assert kind == "ctx", kind
    # ---- `with fl.settings.context(...)`, with the direct oracle around it (reads only)
    kw = {k: W.obj(k, t) for k, t in p[1]}
    before = dict(vars(S))
    body_raised = None
    pending = None
    inside = left = None
    h_inside = None
    try:
        with S.context(**kw):
            inside = dict(vars(S))
            h_inside = W.helpers()
            try:
                execute(p[2], W, path + ".b")
            except BaseException as e:
                if not W.ours(e):
                    raise
                body_raised = e
                raise
            finally:
                left = dict(vars(S))
    except BaseException as e:
        if not W.ours(e):
            raise
        pending = e
    after = dict(vars(S))
    h_after = W.helpers()

    def bad(sig, what):
        W.problems.append((sig, f"{what} (context at {path}, kwargs {[(k, t) for k, t in p[1]]})"))

    if pending is not body_raised:
        bad("context:exception", f"the body raised {body_raised!r} but the context {'raised ' + repr(pending) if pending is not None else 'swallowed it'}")
    exit_kind = "normal" if body_raised is None else type(body_raised).__name__
    if inside is None or left is None:
        bad("context:enter", "the body was never entered")
    else:
        if not (set(before) == set(inside) == set(left) == set(after)):
            bad("context:keys", f"the key set of vars(settings) changed: {sorted(before)} -> {sorted(after)}")
        eff = {}
        for k in KEYS:
            s = SLOT[k]
            named = kw.get(k) is not None
            if named:
                if not same(inside.get(s), kw[k]):
                    bad("context:enter", f"{k} is {inside.get(s)!r} inside, not the temporary {kw[k]!r}")
                if not same(after.get(s), before.get(s)):
                    bad("context:restore", f"{k} was {before.get(s)!r} before and is {after.get(s)!r} after the context ({exit_kind} exit)")
            else:
                if not same(inside.get(s), before.get(s)):
                    bad("context:frame", f"{k} is not named but changed on entry: {before.get(s)!r} -> {inside.get(s)!r}")
                if not same(after.get(s), left.get(s)):
                    bad("context:frame", f"{k} is not named; the body left {left.get(s)!r}, after the context it is {after.get(s)!r}")
            eff[k] = (kw[k] if named else before.get(s), before.get(s) if named else left.get(s))
        want_in = expected_helpers(eff["decimals"][0], eff["atol"][0], eff["rtol"][0])
        want_after = expected_helpers(eff["decimals"][1], eff["atol"][1], eff["rtol"][1])
        if h_inside != want_in:
            bad("helpers:inside", f"Op.str/Op.is_close inside the context give {h_inside}, the temporary values give {want_in}")
        if h_after != want_after:
            bad("helpers:after", f"Op.str/Op.is_close after the context give {h_after}, expected {want_after}")
    if pending is not None:
        raise pending


def run_impl(W, initial, prog):
    """-> (final tokens, raised, trace, after-observation, oracle problems)"""
    W.reset(initial)
    raised = False
    try:
        execute(prog, W)
    except BaseException as e:
        if not W.ours(e):
            raise
        raised = True
    after = W.observe()
    return after[0], raised, list(W.trace), after, list(W.problems)


# --------------------------------------------------------------------------- Coq literals
def v_lit(t):
    return "None" if t is None else (f"(Some {t})" if t >= 0 else f"(Some ({t}))")


def s_lit(vs):
    return "(mkS " + " ".join(v_lit(t) for t in vs) + ")"


def o_lit(o):
    vs, s, c = o
    sl = "None" if s is None else f"(Some {vlib.coq_string(s)}%string)"
    cl = "None" if c is None else f"(Some {'true' if c else 'false'})"
    return f"(mkObs {s_lit(vs)} {sl} {cl})"


def p_lit(p):
    k = p[0]
    if k == "skip":
        return "Skip"
    if k == "assign":
        return f"(Assign {COQ_KEY[p[1]]} {v_lit(p[2])})"
    if k == "readfm":
        return f"(ReadFM {p[1]})"
    if k == "observe":
        return "Observe"
    if k == "raise":
        return "Raise"
    if k == "seq":
        return f"(Seq {p_lit(p[1])} {p_lit(p[2])})"
    if k == "catch":
        return f"(Catch {p_lit(p[1])})"
    kw = vlib.coq_list([f"({COQ_KEY[key]}, {v_lit(t)})" for key, t in p[1]])
    return f"(Ctx {kw} {p_lit(p[2])})"


CASE_TYPE = "prog * settings * outcome * obs"
CHECKER = ("fun c => let '(p, s0, e, oa) := c in "
           "outcome_eqb (run p s0) e && obs_eqb (observe (out_settings (run p s0))) oa")
IMPORTS = "From VF Require Import Settings.\nLocal Open Scope Z_scope."


def case_lit(initial, prog, final, raised, trace, after):
    s0 = s_lit(tuple(initial[k] for k in KEYS))
    out = f"(mkOut {s_lit(final)} {'true' if raised else 'false'} {vlib.coq_list([o_lit(o) for o in trace])})"
    return f"({p_lit(prog)}, {s0}, {out}, {o_lit(after)})"


# --------------------------------------------------------------------------- program generation
OBS, SKIP = ("observe",), ("skip",)


def seq(*ps):
    ps = [p for p in ps if p is not None]
    if not ps:
        return SKIP
    r = ps[-1]
    for p in reversed(ps[:-1]):
        r = ("seq", p, r)
    return r


class Tokens:
    """hands out tokens per setting so that neighbouring uses differ (cycling through the pool from a random start);
    `next(k, avoid)` never returns the initial value nor `avoid` (the value current at that point)"""

    def __init__(self, rng, initial):
        self.n = {k: rng.randrange(len(POOL[k])) for k in KEYS}
        self.initial = initial
        self.last = dict(initial)  # the token most recently handed out (or re-used) per setting
        self.fresh = 1000
        self.rng = rng

    def next(self, k, avoid=None):
        t = None
        for _ in range(len(POOL[k]) + 1):
            t = POOL[k][self.n[k] % len(POOL[k])]
            self.n[k] += 1
            if t != self.initial[k] and t != avoid:
                break
        self.last[k] = t
        return t

    def next_fresh(self):
        self.fresh += 1
        return self.fresh

    def exc(self):
        return ("raise", self.rng.choice(EXC_NAMES))


def structured(rng, subsets, raise_pos, assign_spec, explicit_none, rep_p=0.0, exc=None):
    """Observe; Ctx n1 (Observe; slot; Ctx n2 (...) ; slot; Observe).  Positions 0..2d-2 run from the outermost
    pre-slot through the innermost slot to the outermost post-slot.  assign_spec = (level, 'named'|'unnamed'): one
    direct assignment in the pre-slot of that level.  With probability rep_p a named setting is given the value it
    ALREADY HAS at that point (the default, the enclosing context's temporary value, or a directly assigned one);
    a 'named' assignment prefers such a setting.  exc = the kind of exception raised at raise_pos."""
    d = len(subsets)
    initial = dict(DEFAULT)
    T = Tokens(rng, initial)
    slots = {i: [] for i in range(2 * d - 1)}
    meta = {"repeats": 0, "assign_to_repeated": False, "exc": None}
    cur = dict(initial)  # the value of each setting at the point reached (no raise before the innermost slot matters here)
    kws = []
    for lvl in range(d):
        kw = []
        repeated = []
        for k in KEYS:
            if k in subsets[lvl]:
                if cur[k] is not None and rng.random() < rep_p:
                    tok = cur[k]
                    repeated.append(k)
                else:
                    tok = T.next(k, cur[k])
                kw.append((k, tok))
                cur[k] = tok
            elif explicit_none:
                kw.append((k, None))
        kws.append(kw)
        meta["repeats"] += len(repeated)
        if assign_spec is not None and assign_spec[0] == lvl:
            kind = assign_spec[1]
            named = [k for k in KEYS if k in subsets[lvl]]
            unnamed = [k for k in KEYS if k not in subsets[lvl]]
            if (kind == "named" and named) or not unnamed:
                cand = repeated if repeated and rng.random() < 0.8 else named
            else:
                cand = unnamed
            key = rng.choice(cand)
            tok = T.next(key, cur[key])
            slots[lvl].append(("assign", key, tok))
            cur[key] = tok
            meta["assign_to_repeated"] = key in repeated
    if raise_pos is not None:
        meta["exc"] = exc or rng.choice(EXC_NAMES)
        slots[raise_pos].append(("raise", meta["exc"]))
    body = seq(OBS, *slots[d - 1], OBS)
    for lvl in range(d - 2, -1, -1):
        body = seq(OBS, *slots[lvl], ("ctx", kws[lvl + 1], body), *slots[2 * d - 2 - lvl], OBS)
    prog = seq(OBS, ("ctx", kws[0], body))
    return initial, prog, meta


def rep_prob(rng):
    return rng.choice([0.0, 0.0, 0.4, 0.4, 1.0])


def random_subset(rng):
    r = rng.random()
    if r < 0.06:
        return frozenset()
    if r < 0.12:
        return frozenset(KEYS)
    if r < 0.3:
        return frozenset(rng.sample(KEYS, rng.choice([1, 1, 2])))
    return frozenset(k for k in KEYS if rng.random() < 0.5)


def random_structured(rng, d):
    subsets = [random_subset(rng) for _ in range(d)]
    raise_pos = None if rng.random() < 0.35 else rng.randrange(2 * d - 1)
    assign_spec = None if rng.random() < 0.25 else (rng.randrange(d), rng.choice(["named", "unnamed"]))
    return structured(rng, subsets, raise_pos, assign_spec, rng.random() < 0.3, rep_prob(rng))


def free_form(rng):
    """unstructured programs: any shape, random initial record, Catch, lazy factory manager, assignments of None"""
    initial = dict(DEFAULT)
    for k in KEYS:
        if rng.random() < 0.3:
            initial[k] = rng.choice(POOL[k])
    T = Tokens(rng, initial)

    def gen(depth_left, size):
        if size <= 1:
            r = rng.random()
            if r < 0.35:
                return OBS
            if r < 0.65:
                k = rng.choice(KEYS)
                if k == "factory_manager" and rng.random() < 0.3:
                    return ("assign", k, None)
                return ("assign", k, T.next(k))
            if r < 0.8:
                return ("readfm", T.next_fresh())
            if r < 0.92:
                return T.exc()
            return SKIP
        r = rng.random()
        if r < 0.45 and depth_left > 0:
            kw = []
            sub = random_subset(rng)
            none_too = rng.random() < 0.3
            for k in KEYS:
                if k in sub:
                    # often the token handed out last for this setting: usually the value it has right now
                    kw.append((k, T.last[k] if T.last[k] is not None and rng.random() < 0.35 else T.next(k)))
                elif none_too and rng.random() < 0.5:
                    kw.append((k, None))
            return ("ctx", kw, seq(OBS, gen(depth_left - 1, size - 1)))
        if r < 0.6:
            return ("catch", gen(depth_left, size - 1))
        a = rng.randrange(1, size)
        return ("seq", gen(depth_left, a), gen(depth_left, size - a))

    prog = seq(OBS, gen(4, rng.randrange(3, 14)))
    return initial, prog, {"repeats": 0, "assign_to_repeated": False, "exc": None}


def partitions(rng, n):
    out = []
    for _ in range(n):
        ks = KEYS[:]
        rng.shuffle(ks)
        out.append([frozenset(ks[:3]), frozenset(ks[3:5]), frozenset(ks[5:])])
    return out


def block_unions(blocks):
    us = []
    for mask in range(8):
        u = frozenset()
        for i in range(3):
            if mask >> i & 1:
                u |= blocks[i]
        us.append(u)
    return us


def assign_specs(d):
    return [None] + [(lvl, kind) for lvl in range(d) for kind in ("named", "unnamed")]


def generate(ctx):
    """-> list of (family, initial, prog, meta)"""
    rng = ctx.rng
    progs = []
    all_subsets = [frozenset(k for i, k in enumerate(KEYS) if m >> i & 1) for m in range(128)]
    thorough = ctx.tier == "thorough"
    kinds = itertools.cycle(EXC_NAMES)  # the exhaustive families go round the exception kinds
    # a dedicated family: a context naming settings at the values they already have (defaults; an inner context
    # repeating the outer one), the body assigning one of them directly, every exit kind, depth 1-3
    for d in (1, 2, 3):
        for _ in range(ctx.n(100, 1500)):
            subsets = [random_subset(rng) or frozenset([rng.choice(KEYS)]) for _ in range(d)]
            if d > 1 and rng.random() < 0.6:
                subsets[-1] = subsets[-1] | frozenset(rng.sample(sorted(subsets[-2]), 1))
            raise_pos = rng.choice([None, d - 1, rng.randrange(2 * d - 1)])
            progs.append(("repeat-current",) + structured(rng, subsets, raise_pos, (rng.randrange(d), "named"), rng.random() < 0.2, rng.choice([0.7, 1.0]), next(kinds)))
    # depth 1: every subset of the seven settings, leaving normally and by an exception
    for sub in all_subsets:
        for raise_pos in (None, 0):
            specs = assign_specs(1) if thorough else [rng.choice(assign_specs(1))]
            for spec in specs:
                progs.append(("exhaustive-d1",) + structured(rng, [sub], raise_pos, spec, rng.random() < 0.3, rep_prob(rng), next(kinds)))
    if thorough:
        # depth 2 and 3: every tuple of unions of the blocks of a 3-block partition of the settings (so every
        # block takes every named/unnamed pattern over the levels) x raise at every position or none x one direct
        # assignment at every level to a named / an unnamed setting, or none
        for blocks in partitions(rng, 3):
            us = block_unions(blocks)
            for d in (2, 3):
                for subsets in itertools.product(us, repeat=d):
                    for raise_pos in [None] + list(range(2 * d - 1)):
                        for spec in assign_specs(d):
                            progs.append((f"exhaustive-d{d}",) + structured(rng, list(subsets), raise_pos, spec, rng.random() < 0.2, rep_prob(rng), next(kinds)))
    for d, n in ((2, ctx.n(500, 3000)), (3, ctx.n(800, 5000)), (4, ctx.n(400, 6000))):
        for _ in range(n):
            progs.append((f"sampled-d{d}",) + random_structured(rng, d))
    for _ in range(ctx.n(1050, 8000)):
        progs.append(("free-form",) + free_form(rng))
    return progs


def ctx_depth(p):
    k = p[0]
    if k == "seq":
        return max(ctx_depth(p[1]), ctx_depth(p[2]))
    if k == "catch":
        return ctx_depth(p[1])
    if k == "ctx":
        return 1 + ctx_depth(p[2])
    return 0


def has(p, kind):
    if p[0] == kind:
        return True
    if p[0] == "seq":
        return has(p[1], kind) or has(p[2], kind)
    if p[0] == "catch":
        return has(p[1], kind)
    if p[0] == "ctx":
        return has(p[2], kind)
    return False


def to_json(p):
    return [to_json(x) if isinstance(x, (tuple, list)) else x for x in p]


# --------------------------------------------------------------------------- the check
def run(ctx, build, verdict, ev):
    import fuzzylite as fl

    S = fl.settings
    original = dict(vars(S))
    progs = generate(ctx)
    lits, index = [], []
    dist: dict[str, int] = {}
    nviol = 0
    nontrivial = set()
    unknown = 0
    try:
        W = World(fl)
        for fam, initial, prog, meta in progs:
            final, raised, trace, after, problems = run_impl(W, initial, prog)
            lit = case_lit(initial, prog, final, raised, trace, after)
            lits.append(lit)
            index.append((fam, initial, prog, final, raised, trace))
            d = ctx_depth(prog)
            for key in (fam, f"depth-{d}", "exception-escapes" if raised else "normal-exit",
                        "with-direct-assignment" if has(prog, "assign") else "no-assignment",
                        "with-catch" if has(prog, "catch") else None, "with-lazy-factory" if has(prog, "readfm") else None,
                        "names-a-current-value" if meta["repeats"] else None,
                        "assigns-a-setting-named-at-its-current-value" if meta["assign_to_repeated"] else None,
                        f"raise-kind-{meta['exc']}" if meta["exc"] else None):
                if key:
                    dist[key] = dist.get(key, 0) + 1
            if d >= 1 and len({o[0] for o in trace}) > 1:
                nontrivial.add(lit)
            for sig, what in problems:
                nviol += 1
                if nviol <= 200:  # every one is counted; the first ones are enough as evidence
                    verdict.add_violation(sig, what, {"initial": initial, "program": to_json(prog), "family": fam})
        unknown = W.unknown
    finally:
        d = vars(S)
        d.clear()
        d.update(original)
    pristine = list(vars(S)) == list(original) and all(vars(S)[k] is original[k] for k in original)
    if not pristine:
        verdict.add_broken("harness", "settings-not-pristine", "the harness failed to put fl.settings back")
    if unknown:
        verdict.add_broken("correspondence", "C20:canonicalisation", f"{unknown} observed setting values are objects the harness never handed out")

    bad, log = ([], "") if build.translation_errors else vlib.run_coq_cases(ctx.work, "c20", IMPORTS, [(CASE_TYPE, CHECKER, lits)], chunk=600)
    mism = []
    for i in bad:
        if i < 0:
            verdict.add_broken("correspondence", "C20:coq-evaluation", log)
            break
        mism.append(index[i])
    if mism:
        fam, initial, prog, final, raised, trace = mism[0]
        verdict.add_broken("correspondence", "Settings.context model (Model/Settings.v run)",
                           f"model and implementation differ on {len(mism)} programs, first ({fam}): initial={initial} program={p_lit(prog)} "
                           f"implementation: final={final} raised={raised} trace={trace}")

    c = ev["coverage"]
    c["evaluations"] = len(lits)
    c["distinct_nontrivial"] = len(nontrivial)
    c["rule"] = ("programs over fl.settings: depth 1 = every one of the 128 subsets of the 7 settings x normal/exception exit"
                 + (" x every direct-assignment variant; depth 2 and 3 = every tuple of block unions of three 3-block partitions of the settings"
                    " x a raise at every position or none x one direct assignment per level to a named/unnamed setting or none; " if ctx.tier == "thorough" else "; ")
                 + "a family of depth 1-3 nestings naming settings at the value they already have (default / the enclosing temporary value) with a direct assignment to such a setting inside; "
                 "every raise uses one of five exception kinds (Exception subclass, custom BaseException subclass, KeyboardInterrupt, SystemExit, GeneratorExit), the same instance must escape; "
                 "sampled nestings of depth 2-4 over random subsets; free-form random programs (Catch, lazy factory manager, assignment of None, "
                 "random initial record). Each observes vars(fl.settings), Op.str(1/3), Op.is_close(1.0,1.0005) before, at both ends of every body and after; "
                 "non-trivial = distinct programs with a context in which the observed record really changed between two observations")
    c["distribution"] = dict(sorted(dist.items()))
    c["correspondence_mismatches"] = len(mism)
    c["oracle_violations"] = nviol
    c["observations_compared"] = sum(len(t[5]) + 1 for t in index)
    c["settings_left_pristine"] = pristine
    step = max(1, len(index) // 5)
    c["samples"] = [dict(family=f, initial=i, program=p_lit(p), final=list(fin), raised=r, observations=len(t)) for f, i, p, fin, r, t in index[::step][:5]]
    ev["assumptions"] += [
        "settings values are compared as tokens: identity for float types, loggers and factory managers, value for decimals/tolerances/alias",
        "the model's helper views (Op.str(1/3) = '0.' + d threes for 0<=d<=16, Op.is_close(1.0,1.0005) = (5 <= atol+rtol in units of 1e-4)) are validated against the implementation on every observation",
        "programs are single-threaded; the context is entered and left through the `with` statement (contextlib.contextmanager semantics are trusted)",
    ]


def replay(ctx, data):
    import fuzzylite as fl

    S = fl.settings
    original = dict(vars(S))
    try:
        W = World(fl)
        for v in data.get("violations", []):
            print(v["signature"], "--", v["what"])
            r = v["replay"]
            final, raised, trace, after, problems = run_impl(W, r["initial"], r["program"])
            print("  program:", p_lit(r["program"]))
            print("  now: final =", dict(zip(KEYS, final)), "raised =", raised)
            for o in trace:
                print("    observed", dict(zip(KEYS, o[0])), "Op.str(1/3) =", o[1], "Op.is_close(1.0, 1.0005) =", o[2])
            for sig, what in problems:
                print("  STILL:", sig, what)
    finally:
        d = vars(S)
        d.clear()
        d.update(original)
    for b in data.get("broken", []):
        print("BROKEN", b["kind"], b["name"], "\n", b["detail"][:1500])
    return 0
