#!/usr/bin/env python3
"""Brief for a later mutation wave: several properties per agent, earlier ideas listed so that new ones differ.
usage: mutation_prompt_wave.py <first k> <n per property> <pid> [<pid> ...]"""
import json, sys, glob, os
k0 = int(sys.argv[1]); n = int(sys.argv[2]); pids = sys.argv[3:]
props = {json.loads(l)["id"]: json.loads(l) for l in open("/verif/properties.jsonl")}
out = []
out.append("""You are testing how well some properties of the Python library pyfuzzylite (a fuzzy logic control library; source in /repo, package `fuzzylite`) are guarded. Do NOT read, list or use anything under /verif (you must work independently of it). Never edit /repo itself.

For EACH property below produce %d NEW realistic changes ("mutations") to the library source, each of which BREAKS that property while the library still imports and the existing test suite still passes. Earlier rounds already produced the ideas listed under each property: yours must differ from them in the code site or in the kind of slip, and should be SUBTLER — a change that needs something specific to manifest (a break-point, a tie, NaN/inf, signed zero, a reversed direction, a non-unit height, a disabled component, an empty collection, a repeated name, a particular ordering of operations, a particular combination of settings, batch vs scalar inputs, a second call on the same object), or two cooperating sites that each look fine alone. Each must be a plausible programming slip (off-by-one, `<` vs `<=`, swapped operand, dropped factor, wrong branch, stale variable, missing copy, wrong default, wrong axis, early return …), 1–8 changed lines. Look through ALL code that the property's behaviour passes through (helpers in operation.py, library.py, factory.py, variable.py, engine.py … not only the anchor files).
""" % n)
for pid in pids:
    p = props[pid]
    out.append(f"PROPERTY {pid} — {p['title']}\nStatement: {p['statement']}\nQuantified over: {p['quantifier']['text']}\nAnchors: {', '.join(p['anchors']['files'])}; mechanisms: {'; '.join(m['name'] + ' @ ' + m['where'] for m in p['anchors']['mechanism'])}\nEarlier ideas (do not repeat):")
    for d in sorted(glob.glob(f"/verif/seeded/{pid}_*")):
        try: out.append("  - " + json.load(open(d + "/meta.json")).get("summary", "")[:300])
        except Exception: pass
    out.append("")
out.append(f"""PROCEDURE for mutation number k of property P (k = {k0}..{k0+n-1}):
1. `git -C /repo worktree add /tmp/mut/P_k HEAD`. Work ONLY inside it. Run Python as `cd /tmp/mut/P_k && PYTHONPATH=/tmp/mut/P_k /venv/bin/python …`; first confirm `python -c "import fuzzylite; print(fuzzylite.__file__)"` prints a path inside the worktree.
2. Edit the source there. Run the existing suite under a lock (parallel runs collide on a temp directory): `cd /tmp/mut/P_k && flock /tmp/mut/pytest.lock env PYTHONPATH=/tmp/mut/P_k /venv/bin/python -m pytest -q -p no:cacheprovider --timeout=900 -x --deselect tests/test_benchmark.py::TestBenchmark::test_measure --deselect tests/test_exporter.py::TestPythonExporter::test_object` — it MUST pass (the two deselected tests fail on the untouched library too). If it fails, choose another change.
3. Write `demo.py` using only the public API: exits 0 on the untouched library (`PYTHONPATH=/repo`), exits non-zero (assertion with a clear message) with your change. Verify both.
4. Save to `/tmp/mut/out/P_k/`: `patch.diff` (`git -C /tmp/mut/P_k diff`), `demo.py`, `meta.json` with keys property, summary (one sentence), needs (what is needed for it to manifest), files, tests_pass (true), demo_fails_with_patch (true), demo_passes_without_patch (true).
5. `git -C /repo worktree remove --force /tmp/mut/P_k`.
Each mutation starts from a clean HEAD worktree and must genuinely violate the property's statement as written (not merely change some other behaviour). Report one line per mutation at the end.""")
print("\n".join(out))
