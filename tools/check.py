"""Driver: ./check <id> quick|thorough.  Exit 0 = property held on everything explored; exit 1 + VIOLATION line otherwise."""
from __future__ import annotations

import importlib
import json
import os
import sys
import time
import traceback

import vlib


def main() -> int:
    args = [a for a in sys.argv[1:] if not a.startswith("--")]
    if not args:
        print("usage: check <id> [quick|thorough] [--replay file]")
        return 2
    pid = args[0]
    tier = args[1] if len(args) > 1 else os.environ.get("VERIF_TIER", "quick")
    if tier not in ("quick", "thorough"):
        tier = "quick"
    seed = int(os.environ.get("VERIF_SEED", "0") or 0)
    mod = importlib.import_module(f"props.{pid}")
    ctx = vlib.Ctx(pid, tier, seed)
    if "--replay" in sys.argv:
        path = sys.argv[sys.argv.index("--replay") + 1]
        return mod.replay(ctx, json.load(open(path)))
    verdict = vlib.Verdict(ctx)
    targets = sorted(set(getattr(mod, "COQ_TARGETS", [])) | set(vlib.auto_targets(pid)))
    build = vlib.translate_and_make(targets)
    vlib.scope_translation_errors(pid, build)
    proc = vlib.start_property_file(pid, build, ctx.work)
    ev = {"coverage": {}, "assumptions": []}
    try:
        mod.run(ctx, build, verdict, ev)
    except Exception:
        tb = traceback.format_exc()
        verdict.add_broken("harness", "harness-crash", tb)
        print(tb, file=sys.stderr)
    vlib.finish_property_file(pid, build, proc)
    if not build.ok:
        verdict.add_broken("obligation", build.broken_obligation(), "\n".join(build.translation_errors + build.forbidden) + "\n" + build.error_text)
    base = vlib.base_evidence(ctx, build, targets)
    base["coverage"].update(ev["coverage"])
    base["assumptions"] += ev["assumptions"]
    ev = base
    rc = verdict.finish(ev)
    c = ev["coverage"]
    print(f"[{pid} {tier} seed={seed}] build_ok={build.ok} theorems={len(build.theorems)} evaluations={c.get('evaluations')} mismatches={c.get('correspondence_mismatches')} oracle_violations={c.get('oracle_violations')} wall={ev['wall_s']}s rc={rc}")
    return rc


if __name__ == "__main__":
    sys.exit(main())
