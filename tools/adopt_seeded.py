#!/usr/bin/env python3
"""adopt_seeded.py <dir under /tmp/mut/out> ... : re-verifies a seeded change (tests pass, demo fails with / passes without), runs the
property's quick check against it on scratch copies (tools/run_seeded.sh) and stores it under /verif/seeded/<id>/ with the results."""
import json, os, re, shutil, subprocess, sys

def sh(cmd, **kw):
    return subprocess.run(cmd, shell=True, capture_output=True, text=True, **kw)

for src in sys.argv[1:]:
    src = os.path.abspath(src.rstrip("/"))
    name = os.path.basename(src)
    pid = name.split("_")[0]
    meta = json.load(open(os.path.join(src, "meta.json")))
    wt = f"/tmp/adopt_{name}"
    sh(f"git -C /repo worktree remove --force {wt}")
    sh(f"git -C /repo worktree add -q {wt} HEAD")
    ap = sh(f"git -C {wt} apply {src}/patch.diff")
    if ap.returncode != 0:
        print(name, "PATCH DOES NOT APPLY"); sh(f"git -C /repo worktree remove --force {wt}"); continue
    tests = sh(f"cd {wt} && flock /tmp/mut/pytest.lock env PYTHONPATH={wt} /venv/bin/python -m pytest -q -p no:cacheprovider --timeout=900 -x -q --deselect tests/test_benchmark.py::TestBenchmark::test_measure --deselect tests/test_exporter.py::TestPythonExporter::test_object 2>&1 | tail -1")
    d1 = sh(f"cd {wt} && PYTHONPATH={wt} timeout 600 /venv/bin/python {src}/demo.py")
    d0 = sh(f"cd /repo && PYTHONPATH=/repo timeout 600 /venv/bin/python {src}/demo.py")
    sh(f"git -C /repo worktree remove --force {wt}")
    run = sh(f"/verif/tools/run_seeded.sh {pid} {src}")
    vio = [l for l in run.stdout.splitlines() if l.startswith("VIOLATION")]
    summary = [l for l in run.stdout.splitlines() if l.startswith("[" + pid)]
    meta["confirmed"] = {
        "existing_tests": tests.stdout.strip(),
        "demo_rc_with_patch": d1.returncode, "demo_rc_without_patch": d0.returncode,
        "check_cmd": f"tools/run_seeded.sh {pid} seeded/{name} (patch applied to a scratch worktree of /repo HEAD; ./check {pid} quick run from a scratch copy of /verif with VERIF_REPO pointing at it)",
        "check_caught": bool(vio), "check_violation_line": (re.sub(r"replay=\S+", "replay=<scratch>", vio[0])[:400] if vio else None),
        "check_found_failing_input": bool(vio) and "no-failing-input-found" not in vio[0],
        "check_summary": summary[0] if summary else None,
    }
    dst = f"/verif/seeded/{name}"
    os.makedirs(dst, exist_ok=True)
    for f in ("patch.diff", "demo.py"):
        shutil.copy(os.path.join(src, f), dst)
    json.dump(meta, open(os.path.join(dst, "meta.json"), "w"), indent=1)
    print(name, "tests:", tests.stdout.strip()[-40:], "| demo with/without:", d1.returncode, d0.returncode, "| caught:", bool(vio), "| input:", meta["confirmed"]["check_found_failing_input"])
