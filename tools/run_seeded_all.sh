#!/bin/bash
# run_seeded_all.sh <dir with patch.diff> : runs every property's quick check against the patch (scratch copies) and
# prints one line per property; summary = which properties raise a violation.
DIR="$(cd "$1" && pwd)"
for p in C01 C02 C03 C04 C05 C06 C07 C08 C09 C10 C11 C12 C13 C14 C15 C16 C17 C18 C19 C20; do
  out=$(/verif/tools/run_seeded.sh $p "$DIR" 2>&1)
  v=$(echo "$out" | grep -m1 "^VIOLATION" | sed 's/replay=\S*//' | cut -c1-220)
  if [ -n "$v" ]; then echo "$p CAUGHT $v"; else echo "$p silent"; fi
done
