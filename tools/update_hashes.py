#!/usr/bin/env python3
"""Records the hashes of each property's anchored source files (run after /repo changes that the checks pass on)."""
import json, os, sys
sys.path.insert(0, os.path.dirname(os.path.abspath(__file__)))
import vlib
ids = [json.loads(l)["id"] for l in open(os.path.join(vlib.VERIF, "properties.jsonl"))]
json.dump({i: vlib.source_hashes(i) for i in ids}, open(os.path.join(vlib.VERIF, "source_hashes.json"), "w"), indent=1)
print("recorded", len(ids))
